#!/bin/bash
# usage: tools/try_patch.sh <patch.diff> <prop> [<prop>...]   — apply to /repo, run checks, always revert
set -u
patch="$1"; shift
cd /repo || exit 2
if ! git diff --quiet; then echo "/repo not clean"; exit 2; fi
git apply "$patch" || { echo "patch does not apply"; exit 2; }
trap 'git -C /repo checkout -- . ; git -C /repo clean -fdq -- octo-squirrel octo-squirrel-client octo-squirrel-server 2>/dev/null' EXIT
cd /verif
for p in "$@"; do
  ./check "$p" 2>&1 | grep -E '^(FAIL|VIOLATION|COVERAGE-LOST|ANCHOR-LOST|BUILD-FAILED|C[0-9]+:)' | grep -v '^VIOLATION' | cut -c1-400
  echo "--- $p rc=${PIPESTATUS[0]}"
done
