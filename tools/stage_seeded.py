#!/usr/bin/env python3
"""Stage a confirmed seeded change: /tmp/wt/<id>-out/{patch.diff,demo/,meta.json,confirm.json} -> /verif/seeded/<id>/.
usage: tools/stage_seeded.py <id> [...]   (refuses an id whose confirm.json is not all-true)"""
import json, os, shutil, subprocess, sys
V = os.path.dirname(os.path.dirname(os.path.abspath(__file__)))
for idn in sys.argv[1:]:
    out = f"/tmp/wt/{idn}-out"
    c = json.load(open(os.path.join(out, "confirm.json")))
    if not all(c.get(k) for k in ("patch_applies", "tests_pass_with_patch", "demo_fails_with_patch", "demo_passes_without_patch")):
        print(idn, "NOT CONFIRMED", {k: c.get(k) for k in c if k.startswith(("patch", "tests_pass", "demo_fails", "demo_passes"))})
        continue
    dst = os.path.join(V, "seeded", idn)
    shutil.rmtree(dst, ignore_errors=True)
    os.makedirs(dst)
    patch = "patch.rebased.diff" if os.path.exists(os.path.join(out, "patch.rebased.diff")) else "patch.diff"
    shutil.copy(os.path.join(out, patch), os.path.join(dst, "patch.diff"))
    shutil.copytree(os.path.join(out, "demo"), os.path.join(dst, "demo"), ignore=shutil.ignore_patterns("target", "*.log"))
    try:
        am = json.load(open(os.path.join(out, "meta.json")))
    except Exception as e:
        am = {"summary": "(sub-agent meta.json unreadable: %s)" % e}
    if isinstance(am, list):
        am = am[0]
    files = subprocess.run(["git", "apply", "--numstat", os.path.join(dst, "patch.diff")], capture_output=True, text=True, cwd="/repo").stdout.split("\n")
    meta = {
        "id": idn, "property": am.get("property", idn[:3]),
        "origin": "sub-agent given only the property text and a scratch worktree of /repo (round %s)" % {"a": 1, "b": 2, "c": 3, "d": 4, "e": 5, "f": 6, "g": 7, "h": 8, "i": 9}.get(idn[3], "?"),
        "summary": am.get("summary", ""), "needs_to_manifest": am.get("needs_to_manifest", ""),
        "files_touched": [l.split("\t")[2] for l in files if l.count("\t") == 2],
        "sub_agent_ran": am.get("ran", ""),
        "confirmed_by_me": {
            "base_commit": c.get("base"), "scratch_worktree": f"/tmp/wt/{idn} (git worktree of /repo, detached at base_commit; removed afterwards)",
            "tool": f"tools/confirm_seeded.py {idn}",
            "ran": ["git apply patch.diff (in the scratch worktree)", "cargo test --workspace --no-fail-fast --offline  -> all 36 tests pass with the change",
                    "demo with the change -> fails", "git apply -R patch.diff; demo -> passes"],
            **{k: c[k] for k in ("patch_applies", "tests_pass_with_patch", "demo_fails_with_patch", "demo_passes_without_patch")},
            "demo_with_patch_tail": c.get("demo_with_patch_tail", "")[-300:],
        },
    }
    json.dump(meta, open(os.path.join(dst, "meta.json"), "w"), indent=1)
    print(idn, "staged", meta["files_touched"])
