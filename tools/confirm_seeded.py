#!/usr/bin/env python3
"""Confirm seeded changes produced by sub-agents, in their scratch worktrees (never in /repo):
 (1) existing suite passes with the patch, (2) demo fails with the patch, (3) demo passes without it.
usage: tools/confirm_seeded.py <id> [...]   writes /tmp/wt/<id>-out/confirm.json"""
import json, os, subprocess, sys, shutil

SPEC = {
 # id: (kind, crate/tests-dir, test name or run args, extra features, prebuild bins?)
 "C01a": ("proj", None, ["test", "--offline", "--no-fail-fast"], None, True),
 "C02a": ("proj", None, ["run", "--offline"], None, False),
 "C03a": ("proj", None, ["test", "--offline"], None, False),
 "C04a": ("proj", None, ["test", "--offline"], None, False),
 "C05a": ("proj", None, ["run", "--offline", "--", "CFG"], None, False),
 "C06a": ("itest", "octo-squirrel-server", "c06_udp_unregistered_user", None, True),
 "C07a": ("itest", "octo-squirrel", "c07a_udp_short_datagram", None, False),
 "C08a": ("itest", "octo-squirrel-server", "c08_reset_peer", None, True),
 "C09a": ("proj", None, ["run", "--offline"], None, False),
 "C10a": ("itest", "octo-squirrel", "c10_stale_timestamp", None, False),
 "C11a": ("itest", "octo-squirrel", "c11_packet_window_demo", None, False),
 "C12a": ("proj", None, ["run", "--offline", "--", "CFG"], None, False),
 "C14a": ("itest", "octo-squirrel", "c14_address_roundtrip", "server", False),
 "C15a": ("itest", "octo-squirrel-test", "c15_app_closes_first_target_lingers", None, True),
 "C16a": ("itest", "octo-squirrel", "c16_chacha8_tcp", None, False),
 # round 2
 "C01b": ("proj", None, ["run", "--offline"], None, False),
 "C02b": ("itest", "octo-squirrel-server", "udp_reply_owner", None, True),
 "C03b": ("proj", None, ["test", "--offline"], None, False),
 "C04b": ("proj", None, ["test", "--offline"], None, False),
 "C05b": ("itest", "octo-squirrel", "c05_udp_reflection", "client,server", False),
 "C06b": ("proj", None, ["run", "--offline"], None, False),
 "C07b": ("proj", None, ["test", "--offline"], None, False),
 "C08b": ("proj", None, ["run", "--offline"], None, False),
 "C09b": ("proj", None, ["run", "--offline"], None, False),
 "C10b": ("proj", None, ["test", "--offline"], None, False),
 "C11b": ("itest", "octo-squirrel-server", "c11_replay_other_addr", None, True),
 "C12b": ("proj", None, ["test", "--offline"], None, False),
 "C14b": ("itest", "octo-squirrel", "c14_addr_roundtrip", "client,server", False),
 "C15b": ("proj", None, ["run", "--offline"], None, False),
 "C16b": ("itest", "octo-squirrel-server", "c16_unknown_cipher", None, True),
 # round 3
 "C01c": ("proj", None, ["run", "--offline"], None, True),
 "C02c": ("proj", None, ["run", "--offline"], None, True),
 "C03c": ("itest", "octo-squirrel", "c03_eih_chain", None, False),
 "C04c": ("itest", "octo-squirrel", "c04_small_chunk_segmentation", None, False),
 "C05c": ("itest", "octo-squirrel-server", "c05_ws_tamper", None, True),
 "C06c": ("itest", "octo-squirrel", "c06_udp_cipher_isolation", None, False),
 "C07c": ("itest", "octo-squirrel", "c07_socks5_max_domain", None, False),
 "C08c": ("itest", "octo-squirrel-server", "c08_flow_isolation", None, True),
 "C09c": ("itest", "octo-squirrel", "c09_salt_race", None, False),
 "C10c": ("itest", "octo-squirrel", "ss2022_salt_replay_window", None, False),
 "C11c": ("proj", None, ["run", "--offline", "--", "CFG"], None, True),
 "C12c": ("itest", "octo-squirrel-client", "udp_server_session", None, True),
 "C13c": ("itest", "octo-squirrel", "socks5_handshake_segmentation", None, False),
 "C14c": ("itest", "octo-squirrel", "c14_vmess_domain_literal", None, False),
 "C15c": ("proj", None, ["run", "--offline"], None, True),
 "C16c": ("itest", "octo-squirrel", "c16_identity_key_chain", None, False),
 # round 4
 "C01d": ("proj", None, ["run", "--offline"], None, True),
 "C12d": ("itest", "octo-squirrel", "c12_tcp_directions", None, False),
 "C15d": ("itest", "octo-squirrel-server", "c15_upload_tail", None, True),
 "C02d": ("itest", "octo-squirrel-server", "udp_reply_integrity", None, True),
 "C03d": ("itest", "octo-squirrel", "c03_ss2022_chunk_length", None, False),
 "C04d": ("itest", "octo-squirrel", "c04_segmentation", None, False),
 "C05d": ("itest", "octo-squirrel", "c05_response_binding", None, False),
 "C06d": ("itest", "octo-squirrel-server", "vmess_two_inbounds", None, True),
 "C07d": ("itest", "octo-squirrel-server", "trojan_key_field", None, True),
 "C08d": ("proj", None, ["run", "--offline"], None, True),
 "C09d": ("itest", "octo-squirrel-server", "c09_listeners_independent", None, True),
 "C10d": ("itest", "octo-squirrel", "c10_response_binding", None, False),
 "C11d": ("itest", "octo-squirrel-server", "c11_udp_packet_id_once", None, True),
 "C13d": ("proj", None, ["test", "--offline"], None, False),
 "C14d": ("itest", "octo-squirrel", "c14_vmess_address_roundtrip", None, False),
 "C16d": ("proj", None, ["run", "--offline"], None, True),
 # round 5
 "C01e": ("itest", "octo-squirrel", "vmess_body_segmentation", None, False),
 "C03e": ("itest", "octo-squirrel", "vmess_chunk_nonce_wrap", None, False),
 "C04e": ("proj", None, ["test", "--offline"], None, False),
 "C06e": ("itest", "octo-squirrel-server", "udp_users_separated", None, True),
 "C12e": ("itest", "octo-squirrel", "c12_udp_xchacha_nonce_unique", None, False),
 "C02e": ("itest", "octo-squirrel-client", "udp_reply_label", None, True),
 "C05e": ("itest", "octo-squirrel", "c05e_vmess_chunk_excision", None, False),
 "C07e": ("itest", "octo-squirrel", "c07e_ss2022_tcp_eih_prefix", None, False),
 "C08e": ("itest", "octo-squirrel-server", "c08_udp_fault_tcp_alive", None, True),
 "C09e": ("proj", None, ["run", "--offline"], None, True),
 "C10e": ("itest", "octo-squirrel", "c10_concurrent_replay", None, False),
 "C11e": ("itest", "octo-squirrel-server", "c11_udp_replay", None, True),
 "C13e": ("itest", "octo-squirrel-client", "c13_http_target_with_at_in_path", None, True),
 "C14e": ("itest", "octo-squirrel", "c14_socks5_name_lengths", None, False),
 "C15e": ("itest", "octo-squirrel-server", "peer_reset_delivery", None, True),
 "C16e": ("itest", "octo-squirrel-server", "c16_cipher_required", None, True),
 # round 6
 "C01f": ("itest", "octo-squirrel-client", "c01f_upload_then_close", None, True),
 "C03f": ("itest", "octo-squirrel", "c03f_vmess_masking_padding", None, False),
 "C12f": ("itest", "octo-squirrel", "c12_udp_2022_server_nonce", None, False),
 "C02f": ("itest", "octo-squirrel", "vmess_udp_boundaries", None, False),
 "C04f": ("itest", "octo-squirrel", "c04f_legacy_segmentation", None, False),
 "C05f": ("itest", "octo-squirrel", "c05f_vmess_chunk_deletion", None, False),
 "C06f": ("itest", "octo-squirrel-server", "c06_vmess_unset_user_slot", None, True),
 "C07f": ("itest", "octo-squirrel", "socks5_greeting_methods", None, False),
 "C08f": ("itest", "octo-squirrel-server", "c08_short_datagram", None, True),
 "C09f": ("itest", "octo-squirrel", "c09f_udp_cipher_cache", None, False),
 "C10f": ("itest", "octo-squirrel-server", "vmess_token_window", None, True),
 "C11f": ("itest", "octo-squirrel-server", "c11_udp_replay_after_relay_restart", None, True),
 "C13f": ("itest", "octo-squirrel-client", "socks5_ipv6_target", None, True),
 "C14f": ("itest", "octo-squirrel", "c14_non_ascii_domain", None, False),
 "C15f": ("itest", "octo-squirrel-server", "c15_release_after_target_reset", None, True),
 "C16f": ("itest", "octo-squirrel-server", "c16_user_key_length", None, True),
}


def sh(cmd, cwd, env, timeout=1800):
    r = subprocess.run(cmd, cwd=cwd, env=env, capture_output=True, text=True, timeout=timeout)
    return r.returncode, (r.stdout + r.stderr)[-1500:]


def spec_of(idn, out):
    """round 7 on: the demonstration's coordinates are in the sub-agent's meta.json ("demo": {crate, test, features, needs_bins})"""
    if idn in SPEC:
        return SPEC[idn]
    d = json.load(open(os.path.join(out, "meta.json")))
    if isinstance(d, list):
        d = d[0]
    d = d["demo"]
    return ("itest", d["crate"], d["test"], d.get("features") or None, bool(d.get("needs_bins")))


def demo(idn, wt, out, env):
    kind, crate, what, feat, bins = spec_of(idn, out)
    if bins:
        rc, o = sh(["cargo", "build", "--offline", "-p", "octo-squirrel-client", "-p", "octo-squirrel-server"], wt, env)
        if rc != 0:
            return rc, "prebuild failed: " + o
    if kind == "proj":
        args = [a if a != "CFG" else os.path.join(out, "demo", "config.json") for a in what]
        return sh(["cargo"] + args, os.path.join(out, "demo"), env)
    tdir = os.path.join(wt, crate, "tests")
    os.makedirs(tdir, exist_ok=True)
    shutil.copy(os.path.join(out, "demo", what + ".rs"), tdir)
    try:
        cmd = ["cargo", "test", "-p", crate, "--test", what, "--offline", "--no-fail-fast"]
        if feat:
            cmd += ["--features", feat]
        return sh(cmd, wt, env)
    finally:
        shutil.rmtree(tdir, ignore_errors=True)


def main():
    for idn in [a for a in sys.argv[1:] if not a.startswith('--')]:
        wt, out = f"/tmp/wt/{idn}", f"/tmp/wt/{idn}-out"
        patch = os.path.join(out, "patch.diff")
        env = dict(os.environ, CARGO_TARGET_DIR=f"/tmp/wt/{idn}/target", CARGO_NET_OFFLINE="true", RUST_BACKTRACE="0", CARGO_PROFILE_DEV_DEBUG="0", CARGO_PROFILE_TEST_DEBUG="0", CARGO_INCREMENTAL="0")
        res = {"id": idn}
        # make sure the patch is applied
        subprocess.run(["git", "checkout", "--", "."], cwd=wt)
        subprocess.run(["git", "clean", "-fdq", "-e", "target"], cwd=wt)
        subprocess.run(["git", "checkout", "-q", "--detach", "main"], cwd=wt)
        res["base"] = subprocess.run(["git", "rev-parse", "HEAD"], cwd=wt, capture_output=True, text=True).stdout.strip()
        if os.path.exists(os.path.join(out, "patch.rebased.diff")):
            patch = os.path.join(out, "patch.rebased.diff")
        a = subprocess.run(["git", "apply", patch], cwd=wt, capture_output=True, text=True)
        res["patch_applies"] = a.returncode == 0
        rc, o = sh(["cargo", "test", "--workspace", "--no-fail-fast", "--offline"], wt, env)
        passed = sum(int(x.split(" passed")[0].split()[-1]) for x in o.splitlines() if "test result:" in x and " passed" in x) if rc == 0 else -1
        res["tests_pass_with_patch"] = rc == 0
        res["tests_tail"] = o[-300:]
        rc1, o1 = demo(idn, wt, out, env)
        res["demo_fails_with_patch"] = rc1 != 0
        res["demo_with_patch_tail"] = o1[-400:]
        subprocess.run(["git", "apply", "-R", patch], cwd=wt)
        rc2, o2 = demo(idn, wt, out, env)
        res["demo_passes_without_patch"] = rc2 == 0
        res["demo_without_patch_tail"] = o2[-400:]
        subprocess.run(["git", "apply", patch], cwd=wt)
        if "--keep-target" not in sys.argv:
            shutil.rmtree(env["CARGO_TARGET_DIR"], ignore_errors=True)
        json.dump(res, open(os.path.join(out, "confirm.json"), "w"), indent=1)
        print(idn, res["patch_applies"], res["tests_pass_with_patch"], res["demo_fails_with_patch"], res["demo_passes_without_patch"], flush=True)

main()
