#!/usr/bin/env python3
"""Record, per reviewed-safe entry, which properties' checks use it on the current (unchanged) tree: `scope` in tables/reviewed-safe.json.
Relocation (engine.relocate) hands a stale entry only to a violation of a property in its scope - otherwise an entry that another property
uses (and this one never did) would be 'stale' here for ever and would silently absorb the first new violation of its kind.
usage: tools/review_scope.py   (never run by a check; run after triage changes the list)"""
import importlib, json, os, sys
sys.path.insert(0, os.path.dirname(os.path.dirname(os.path.abspath(__file__))))
from osq import facts
from osq.mir import Program
from osq.engine import Ctx, PROPS, REVIEWED
prog = Program(facts.load(facts.build(os.environ.get("BASE_REPO", "/repo"))))
entries = json.load(open(REVIEWED))
scope = {e["key"]: set() for e in entries}
ALIAS = {"R4b": "P2"}
for p in PROPS:
    ctx = Ctx(prog, p, "quick")
    importlib.import_module(f"osq.rules.{p.lower()}").run(ctx)
    for o in ctx.obs:
        if o.verdict != "reviewed-safe":
            continue
        for k in (o.key, ALIAS.get(o.rule, o.rule) + "|" + o.key.split("|", 1)[1]):
            if k in scope:
                scope[k].add(p)
for e in entries:
    e["scope"] = sorted(scope[e["key"]])
    if not e["scope"]:
        print("UNUSED", e["key"])
json.dump(entries, open(REVIEWED, "w"), indent=1)
from collections import Counter
print(Counter(tuple(e["scope"]) for e in entries))
