#!/usr/bin/env python3
"""Development aid (not a registered check): analyse a scratch worktree (never /repo) with the rule modules and list every
VIOLATION / COVERAGE-LOST / ANCHOR-LOST key that the unchanged /repo does not have. Writes no evidence.
usage: tools/wt_keys.py <worktree> [Cxx ...]        (default: all sixteen)
       tools/wt_keys.py --patch <patch.diff> [Cxx ...]   applies the patch to a throw-away copy of /repo's working tree first"""
import importlib, json, os, shutil, subprocess, sys, tempfile
from concurrent.futures import ProcessPoolExecutor
V = os.path.dirname(os.path.dirname(os.path.abspath(__file__)))
sys.path.insert(0, V)
from osq import facts
from osq.engine import Ctx, PROPS, load_known, relocate
from osq.mir import Program


def keys_for(args):
    out, prop, repo = args
    prog = Program(facts.load(out))
    ctx = Ctx(prog, prop, "quick")
    ctx.repo = repo
    try:
        importlib.import_module(f"osq.rules.{prop.lower()}").run(ctx)
    except Exception as e:
        import traceback
        return prop, {f"CHECKER-CRASHED|{type(e).__name__}: {e} :: " + traceback.format_exc()[-600:].replace("\n", " / ")}
    known_keys = {k["key"]: k for k in load_known() if k["property"] == prop and k.get("status", "known") == "known"}
    viol = [o for o in ctx.obs if o.verdict == "violation" and o.key not in known_keys]
    hits = {o.key for o in ctx.obs if o.verdict == "violation" and o.key in known_keys}
    viol, _ = relocate(ctx, viol, known_keys, hits)
    keys = {o.key + " :: " + o.where + " " + o.detail[:300] for o in viol}
    keys |= {f"COVERAGE-LOST|{r}|{w} :: expected>={e} found={f}" for (r, w, e, f) in ctx.floors if f < e}
    keys |= {f"ANCHOR-LOST|{r}|{w} :: " for (r, w) in ctx.anchors_lost}
    return prop, keys


def all_keys(repo, props):
    out = facts.build(repo, "quick")
    with ProcessPoolExecutor(max_workers=min(12, len(props))) as ex:
        return dict(ex.map(keys_for, [(out, p, repo) for p in props]))


def main():
    args = sys.argv[1:]
    scratch = None
    if args[0] == "--patch":
        patch = os.path.abspath(args[1])
        args = args[2:]
        scratch = tempfile.mkdtemp(prefix="osq-wtkeys-")
        wt = os.path.join(scratch, "tree")
        shutil.copytree(os.environ.get("BASE_REPO", "/repo"), wt, symlinks=True, ignore=shutil.ignore_patterns(".git", "target"))
        a = subprocess.run(["git", "apply", "--unsafe-paths", patch], cwd=wt, capture_output=True, text=True)
        if a.returncode != 0:
            shutil.rmtree(scratch)
            sys.exit("patch does not apply: " + a.stderr[-300:])
    else:
        wt = args[0]
        args = args[1:]
    props = args or list(PROPS)
    try:
        base = {p: {k.split(" :: ")[0] for k in ks} for p, ks in all_keys(os.environ.get("BASE_REPO", "/repo"), props).items()}
        for p_, ks_ in base.items():
            for k_ in ks_:
                if k_.startswith("CHECKER-CRASHED"):
                    print(p_, "BASE-CRASHED", k_[:300])
        got = all_keys(wt, props)
        rc = 0
        for p in props:
            new = sorted(k for k in got[p] if k.split(" :: ")[0] not in base[p])
            for k in new:
                rc = 1
                print(p, "NEW", k[:600])
            if not new:
                print(p, "silent")
        return rc
    finally:
        if scratch:
            shutil.rmtree(scratch, ignore_errors=True)


if __name__ == "__main__":
    sys.exit(main())
