#!/usr/bin/env python3
"""Run every claimed check against every seeded change (applied to /repo, always reverted).
usage: tools/seeded_matrix.py [<id> ...]      writes seeded/MATRIX.json (merged with earlier rows)
A row lists, per property, the *new* FAIL keys (keys that are not reported on the unchanged tree)."""
import json, os, re, subprocess, sys
from concurrent.futures import ThreadPoolExecutor

V = os.path.dirname(os.path.dirname(os.path.abspath(__file__)))
PROPS = [c["property_id"] for c in json.load(open(os.path.join(V, "MANIFEST.json")))["checks"]]


def run_check(p):
    r = subprocess.run([os.path.join(V, "check"), p], cwd=V, capture_output=True, text=True)
    fails = [re.sub(r"\s+at\s+\S+:\d+.*$", "", l.split("key=", 1)[1]).strip() for l in r.stdout.splitlines() if l.startswith("FAIL ") and "key=" in l]
    other = [l[:200] for l in r.stdout.splitlines() if l.startswith(("COVERAGE-LOST", "ANCHOR-LOST", "BUILD-FAILED"))]
    return p, r.returncode, fails, other


def clean():
    return subprocess.run(["git", "-C", "/repo", "status", "--porcelain"], capture_output=True, text=True).stdout.strip() == ""


def main():
    ids = sys.argv[1:] or sorted(d for d in os.listdir(os.path.join(V, "seeded")) if os.path.isdir(os.path.join(V, "seeded", d)))
    mpath = os.path.join(V, "seeded", "MATRIX.json")
    matrix = json.load(open(mpath)) if os.path.exists(mpath) else {}
    if not clean():
        sys.exit("/repo not clean")
    head = subprocess.run(["git", "-C", "/repo", "rev-parse", "--short", "HEAD"], capture_output=True, text=True).stdout.strip()
    for idn in ids:
        patch = os.path.join(V, "seeded", idn, "patch.diff")
        a = subprocess.run(["git", "-C", "/repo", "apply", patch], capture_output=True, text=True)
        if a.returncode != 0:
            matrix[idn] = {"repo_head": head, "error": "patch does not apply: " + a.stderr[-200:]}
            print(idn, "DOES NOT APPLY")
            continue
        try:
            own = json.load(open(os.path.join(V, "seeded", idn, "meta.json"))).get("property", idn[:3])
            rows = [run_check(own)]                      # builds the fact base once
            with ThreadPoolExecutor(max_workers=7) as ex:
                rows += list(ex.map(run_check, [p for p in PROPS if p != own]))
        finally:
            subprocess.run(["git", "-C", "/repo", "checkout", "--", "."])
            subprocess.run(["git", "-C", "/repo", "clean", "-fdq", "--", "octo-squirrel", "octo-squirrel-client", "octo-squirrel-server"])
        row = {"repo_head": head, "breaks": own, "caught_by": {}}
        for p, rc, fails, other in rows:
            if rc != 0:
                row["caught_by"][p] = {"exit": rc, "violations": fails, **({"other": other} if other else {})}
        row["caught"] = own in row["caught_by"] or bool(row["caught_by"])
        matrix[idn] = row
        print(idn, "caught by", {p: len(v["violations"]) for p, v in row["caught_by"].items()} or "NOTHING", flush=True)
        json.dump(matrix, open(mpath, "w"), indent=1, sort_keys=True)
    if not clean():
        sys.exit("/repo left dirty")


main()
