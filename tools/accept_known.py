#!/usr/bin/env python3
"""After manual triage: append the current unlisted violations of a property to known-findings.json.
usage: tools/accept_known.py Cxx [key-substring ...]   (never run by a check)"""
import json, sys, os, importlib
sys.path.insert(0, os.path.dirname(os.path.dirname(os.path.abspath(__file__))))
from osq import facts
from osq.mir import Program
from osq.engine import Ctx, KNOWN, load_known
prop = sys.argv[1]
subs = sys.argv[2:]
prog = Program(facts.load(facts.build('/repo')))
ctx = Ctx(prog, prop, 'quick')
importlib.import_module(f'osq.rules.{prop.lower()}').run(ctx)
known = load_known()
have = {(k['property'], k['key']) for k in known}
n = 0
for o in ctx.obs:
    if o.verdict != 'violation' or (prop, o.key) in have:
        continue
    if subs and not any(s in o.key for s in subs):
        continue
    known.append({"property": prop, "key": o.key, "status": "known", "what": o.detail, "site": o.where})
    have.add((prop, o.key))
    n += 1
json.dump(known, open(KNOWN, 'w'), indent=1)
print('added', n)
