#!/usr/bin/env python3
"""Regenerate /verif/MANIFEST.json from the table below (claimed properties) — run after adding a rule module."""
import json, os
V = os.path.dirname(os.path.dirname(os.path.abspath(__file__)))

CLAIMS = {
 "C01": ("W1-W8 wiring clauses", "transport-stack table (finite-configuration evaluation of the listener, helpers spliced), pump cross-wiring, dial-what-was-decoded (whole-address cache keys), no decoded payload dropped, need-more re-entrancy and length proofs of the TCP-path decoders (C04 R4 re-evaluated), pump source failure still delivers what was forwarded, no abortive close, no per-flow handshake awaited in a TCP accept loop (C08 L2 re-evaluated), request-complete-means-connect (C04 R4k re-evaluated), no select! branch that carries a chunk across an await: type/derivation/dominance rules over MIR", "4/C01, 13, 14, 15, 16"),
 "C02": ("U1-U10 routing/ownership clauses", "derivation (def-use) rules: reply goes to the recorded sender and keeps the label it came with, binding/association keys, user attribution, reply address fixed behind the replay filter; whole-datagram encoders; receive buffers hold any datagram on every loop iteration; one unit per datagram decode; the binding key identifies the target; a reply renews its binding; the reply user follows the forwarded datagram; what the replay filter forgets when its window moves (C11 F4 re-evaluated)", "4/C02, 13, 14, 15, 16"),
 "C03": ("S1-S8 constant/ordering tables", "constants and hash choices at resolved call sites compared with a table written from the published specifications; sender limits; big-endian who-may-call; nonce slices and counter shapes (little-endian carry, wrapping chunk counter); identity-header chain; length fields taken at face value; VMess session sibling agreement; one SHAKE stream for mask and padding; padding and initial payload of a 2022 request are independent (finite-case evaluation); two-sided timestamp tolerance (C10 V1a re-evaluated)", "4/C03, 13, 14, 15, 16"),
 "C04": ("R4a-R4k decoder/reader contract", "typestate of the source buffer on every need-more path, length guards before reads (buffer-length abstract interpretation), Pending-only-from-inner-poll, leftover re-offered and restored before the transport poll, no replay-cache trace before need-more, recorded progress, length-predictor agreement, need-more decided per state (also through delegation to an inner state machine), a complete stream request hands out its connect item in the same activation", "4/C04, 12, 13, 15"),
 "C05": ("T1-T4 release-after-authentication", "taint typestate: network bytes reach a sink only through the success edge of an AEAD open; stop after error (error latch tested before every decode); direction separation tables and response-bound-to-request (C10 V2/V4, C03 S4 re-evaluated); no generator step without an AEAD call; one cipher state per derived subkey (C12 N6 re-evaluated); the chunk counter wraps, never sticks (C03 S3 re-evaluated)", "4/C05, 12, 13, 14, 15, 16"),
 "C06": ("A1-A6 credential dominance", "every relay-item construction / state transition in a server codec is dominated by the success edge of the credential check; user/key derivations and credential tables without placeholders; datagram cipher-cache key; credential state is per listener (no single-slot static filled from configuration); reply path of an association is its owner's and its reply user follows the datagram that is forwarded", "4/C06, 12, 13, 14, 15"),
 "C07": ("P1-P4 panic-site inventory + discharge", "every panicking construct reachable from a network-facing decoder is an obligation discharged by a buffer-length abstract interpretation, variant-certainty dominance or a reviewed premise (entries relocate only within the checks that use them); poll_* functions do not call themselves", "4/C07, 16"),
 "C08": ("L1-L9 service-loop exits", "exit edges and awaits of listener loops classified by cause over MIR natural loops; panic hook cannot panic; sibling listeners of one entry are joined so that one's end does not cancel the other; C07 panic sites that run in the listener's own task; a shared lock is never re-acquired under a live guard; handshake summaries ignore what is handed to tokio::spawn; a counted admission slot is released on every exit of the task", "4/C08, 12, 13, 14, 15, 16"),
 "C09": ("K0-K10 shared-state discipline", "inventory of statics / interior mutability / Arc payloads; no &mut from shared; lock not try_lock; test-and-set under one guard acquisition (Mutex or RwLock); recorded salts never removed; no guard across await; no unsafe Send/Sync; shared table keys; single-slot statics independent of the first caller; reply path not rewritten by another flow; every test-and-set answer decides; no re-acquisition of a lock under a live guard; the select of a loop shared by flows is not biased", "4/C09, 12, 13, 14, 15, 16"),
 "C10": ("V1-V4 freshness/type/replay/binding checks", "window constants normalised to accept intervals; dominance of every accepting return by timestamp, type, salt-lookup and echo checks; cache expiry >= 2x window; concurrent copies (C09 K3 re-evaluated); the echo compare is an equality; the clock operand of a freshness comparison is read when the token is judged; the salt is recorded only after authentication; a type check over the side enum needs a strict byte->side decoder", "4/C10, 13, 14, 15, 16"),
 "C11": ("F1-F5 filter use-sites and constants", "filter success edge dominates forwarding; refusal edge returns to the loop head; one filter per session; window constant relations; associations removed only by expiry; a dropped datagram leaves nothing in the reader's buffer (buffer-length interpretation); the ring is cleared only over the block difference; no addition to a wire id", "4/C11, 14, 15, 16"),
 "C12": ("N1-N7 nonce provenance", "per-session secrets derive from the CSPRNG inside the constructor, are never rewritten afterwards, and forbidden RNGs are never called; one generator step per AEAD call; packet-id increments dominate encodes and a kept session id implies a kept packet id; cipher-cache key components; subkey material is key||salt; self-carried nonces are filled from the CSPRNG; an own session id kept implies the own packet counter kept (exact copy provenance); one cipher state per derived subkey; a labelled key derivation dominates the cipher state it separates", "4/C12, 12, 13, 14, 15, 16"),
 "C13": ("H1-H7 local-handshake clauses", "roles resolved by type (dispatcher, sniffer, extractor, SOCKS5 exchange); the tunnelled address derives only from the parsed request; each protocol's answer is written on its own arm behind the read it answers; plain HTTP arm touches nothing; CONNECT consumption tied to the parser's length; SOCKS5 readers keep their buffer between phases; refusal edges reach Err; parser status tested and Partial never answered; version/selector constants; authority delimiters searched only after the path cut; a repeated CONNECT read is steered by the parser; the extractor is handed the request line's own method and target", "11, 13, 15, 16"),
 "C14": ("E1-E7 address encoders", "narrowing casts of wire lengths are range-guarded; empty name refused; sibling encode/decode/length tables agree per variant; checked UTF-8; decoded values are not transformed; the stream a datagram is written into was opened for that datagram's target (C02 U2 re-evaluated); consumed lengths around the address never come from scanning the bytes", "4/C14, 14, 15, 16"),
 "C15": ("D1-D10 teardown wiring", "first-error-wins join with all-Err futures, forward/close on every pump, failure paths drop the inbound, JoinHandle owners abort on drop, Sink impls emit what start_send buffered, a pump's source failure still delivers what was forwarded, no abortive close, release does not wait for the peer, received payload is relayed unless the dial failed, the QUIC idle timer is not switched off", "4/C15, 12, 13, 14, 15, 16"),
 "C16": ("G1-G8 configuration tables", "serde names vs README tables, cipher kind -> algorithm -> key size -> const generic (per-kind evaluation through kind tables), mode predicates vs listeners, password->key sibling agreement, key length checked, no start-up panics, Unknown cipher starts nothing, identity keys in configured order, over-long keys refused, the config document reaches the types with no member removed", "4/C16, 12, 13, 14, 15"),
}
NA = {
}

def main():
    checks = []
    na = [{"property_id": k, "reason": v} for k, v in NA.items()]
    for pid, (short, text, ref) in sorted(CLAIMS.items()):
        if not os.path.exists(os.path.join(V, "osq", "rules", pid.lower() + ".py")):
            na.append({"property_id": pid, "reason": "check not built yet in this round (planned: " + short + ")"})
            continue
        checks.append({
            "property_id": pid,
            "quick_cmd": f"./check {pid} --tier quick",
            "thorough_cmd": f"./check {pid} --tier thorough",
            "evidence_file": f"/verif/evidence/{pid}.json",
            "replay_cmd_template": f"./check {pid} --replay {{path}}",
            "engine": "osq-lint",
            "level_claimed": {"category": "other", "text": "static analysis of the type-checked program (all paths of all analysed functions): decides the structural clauses " + short + " — " + text + ". It does not decide the value/schedule-level remainder of the property (listed in the evidence file's assumptions and DESIGN.md section 5).", "design_ref": ref},
            "level_note": "trusts rustc's MIR construction and Instance resolution, the osq-lint fact dump, and the library contracts read in cached sources (bytes, aead, tokio-util, futures); unproven obligations are reported, never assumed",
            "technique": "static analysis: custom rustc_private MIR/HIR driver + dataflow/dominance/derivation rules (" + short + ")",
        })
    m = {
        "version": 1,
        "setup_cmd": "cd /verif && python3 -c \"import sys; sys.path.insert(0,'/verif'); from osq import facts; facts.ensure_driver(); print(facts.build('/repo'))\"",
        "hooks": {"guard": "osq_verif", "enable": "none: the analysis reads the unmodified sources through a RUSTC_WORKSPACE_WRAPPER driver; no hooks were added to /repo", "baseline_off_cmd": "cd /repo && cargo test --workspace --no-fail-fast --offline", "source_commits": [], "add_only": True},
        "engines": [{"name": "osq-lint", "path": "/verif/osq-lint", "serves_properties": sorted(c["property_id"] for c in checks), "kind_free_text": "rustc_private driver (nightly) dumping HIR items and pre-borrowck MIR; rule evaluation in /verif/osq (python3 stdlib)"}],
        "checks": checks,
        "not_applicable": sorted(na, key=lambda x: x["property_id"]),
        "notes": "All checks are static: they analyse /repo's current working tree through the driver on every run (facts are cached by a content hash of the sources). Known genuine defects of the pinned tree are listed in /verif/known-findings.json.",
    }
    json.dump(m, open(os.path.join(V, "MANIFEST.json"), "w"), indent=1)
    print("checks:", [c["property_id"] for c in checks], "na:", [x["property_id"] for x in na])

main()
