#!/usr/bin/env python3
"""False-alarm test: apply each behaviour-preserving refactoring (made by sub-agents that saw nothing of /verif) to its scratch
worktree, analyse the worktree (never /repo) with every rule module, and list any violation / coverage / anchor key that is not
reported on the unchanged tree. Expected: none.
usage: tools/neutral_matrix.py <worktree-prefix e.g. /tmp/wt> <suffix e.g. n> [ids...]   writes neutral/MATRIX-<suffix>.json"""
import importlib, json, os, subprocess, sys
from concurrent.futures import ProcessPoolExecutor
V = os.path.dirname(os.path.dirname(os.path.abspath(__file__)))
sys.path.insert(0, V)
from osq import facts
from osq.engine import Ctx, PROPS, load_known
from osq.mir import Program


def keys_for(args):
    out, prop = args
    from osq.engine import relocate
    units = facts.load(out)
    prog = Program(units)
    ctx = Ctx(prog, prop, "quick")
    try:
        importlib.import_module(f"osq.rules.{prop.lower()}").run(ctx)
    except Exception as e:
        return prop, {f"CHECKER-CRASHED|{type(e).__name__}: {e}"}
    known_keys = {k["key"]: k for k in load_known() if k["property"] == prop and k.get("status", "known") == "known"}
    viol = [o for o in ctx.obs if o.verdict == "violation" and o.key not in known_keys]
    hits = {o.key for o in ctx.obs if o.verdict == "violation" and o.key in known_keys}
    viol, _ = relocate(ctx, viol, known_keys, hits)
    keys = {o.key + " :: " + o.detail[:160] for o in viol}
    keys |= {f"COVERAGE-LOST|{r}|{w} expected>={e} found={f}" for (r, w, e, f) in ctx.floors if f < e}
    keys |= {f"ANCHOR-LOST|{r}|{w}" for (r, w) in ctx.anchors_lost}
    return prop, keys


def all_keys(repo):
    out = facts.build(repo, "quick")
    with ProcessPoolExecutor(max_workers=12) as ex:
        return dict(ex.map(keys_for, [(out, p) for p in PROPS]))


def strip(k):
    return k.split(" :: ")[0]


def main():
    prefix, suffix = sys.argv[1], sys.argv[2]
    ids = sys.argv[3:] or [p for p in PROPS]
    base = {p: {strip(k) for k in ks} for p, ks in all_keys(os.environ.get("BASE_REPO", "/repo")).items()}
    os.makedirs(os.path.join(V, "neutral"), exist_ok=True)
    mpath = os.path.join(V, "neutral", f"MATRIX-{suffix}.json")
    matrix = json.load(open(mpath)) if os.path.exists(mpath) else {}
    for pid in ids:
        only = None
        if ":" in pid:
            pid, only = pid.split(":")
        wt = f"{prefix}/{pid}{suffix}"
        for n in (1, 2, 3):
            if only and str(n) != only:
                continue
            diff = os.path.join(V, "neutral", f"{pid}{suffix}", f"refactor{n}.diff")
            name = f"{pid}{suffix}{n}"
            if not os.path.exists(diff):
                continue
            subprocess.run(["git", "checkout", "-q", "--", "."], cwd=wt)
            subprocess.run(["git", "clean", "-fdq", "-e", "target"], cwd=wt)
            a = subprocess.run(["git", "apply", diff], cwd=wt, capture_output=True, text=True)
            if a.returncode != 0:
                matrix[name] = {"error": "does not apply: " + a.stderr[-200:]}
                print(name, "DOES NOT APPLY", flush=True)
                continue
            try:
                got = all_keys(wt)
                new = {p: sorted(k for k in ks if strip(k) not in base[p]) for p, ks in got.items()}
                new = {p: v for p, v in new.items() if v}
                matrix[name] = {"alarms": new}
                print(name, "SILENT" if not new else "ALARM " + json.dumps({p: [strip(k) for k in v] for p, v in new.items()}), flush=True)
            except facts.BuildError as e:
                matrix[name] = {"error": "build failed: " + str(e)[-300:]}
                print(name, "BUILD FAILED", str(e)[-200:], flush=True)
            finally:
                subprocess.run(["git", "checkout", "-q", "--", "."], cwd=wt)
                subprocess.run(["git", "clean", "-fdq", "-e", "target"], cwd=wt)
            json.dump(matrix, open(mpath, "w"), indent=1, sort_keys=True)


main()
