#!/usr/bin/env python3
"""After manual triage: mark current unlisted violations whose key contains a given substring as reviewed-safe with a reason.
usage: tools/review_safe.py Cxx '<key substring>' '<reason>'   (never run by a check)"""
import json, sys, os, importlib
sys.path.insert(0, os.path.dirname(os.path.dirname(os.path.abspath(__file__))))
from osq import facts
from osq.mir import Program
from osq.engine import Ctx, REVIEWED
prop, sub, reason = sys.argv[1], sys.argv[2], sys.argv[3]
prog = Program(facts.load(facts.build('/repo')))
ctx = Ctx(prog, prop, 'quick')
importlib.import_module(f'osq.rules.{prop.lower()}').run(ctx)
d = json.load(open(REVIEWED))
have = {e['key'] for e in d}
n = 0
for o in ctx.obs:
    if o.verdict == 'violation' and sub in o.key and o.key not in have:
        d.append({"key": o.key, "reason": reason, "site": o.where})
        have.add(o.key)
        n += 1
json.dump(d, open(REVIEWED, 'w'), indent=1)
print('reviewed-safe +', n)
