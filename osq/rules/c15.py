"""C15 — closing or failing one side tears the whole flow down (teardown wiring; DESIGN.md 4/C15)."""
import re

from ..mir import Callee, last_seg, loc, op_place
from .common import gates_of_value, returns_variant

ADDR = "protocol::address::Address"

EXPLANATION = (
    "D1 in every relay function the two direction futures are combined by a first-error-wins join (the try_join! poll closure tests is_err and "
    "takes the error) and every return of both direction futures is an Err value, so that a clean close of one direction also ends the other. "
    "D2 each direction is pumped with StreamExt::forward (flushes and closes its sink when the source ends — library contract), and the QUIC relay "
    "closes the stream after the relay returns. D3 in the server's first-item handler the failure edges of resolve / connect / bind reach the "
    "function end without calling a relay or spawning. D4 every struct that stores the JoinHandle of a per-flow task has a Drop impl that aborts it; "
    "the relay modules never call mem::forget / ManuallyDrop / Box::leak on flow objects.")
ASSUMPTIONS = ["descriptor counts returning to baseline and promptness are run-time observations and are not decided",
               "futures::StreamExt::forward closes its sink when the stream ends (read in the cached source)"]


def run(ctx):
    prog = ctx.prog
    bodies = [b for b in prog.prod_bodies() if "::_" not in b.defp]
    # relay functions: families that contain >= 2 bodies calling StreamExt::forward
    fams = {}
    for b in bodies:
        if any(c.name == "StreamExt::forward" for (_, c, _) in b.calls()):
            fams.setdefault(b.root, []).append(b)
    relay_fns = {r: bs for r, bs in fams.items() if len(bs) >= 2}
    ctx.floor("D1", "relay functions with two forward pumps", 2, len(relay_fns))
    for root, pumps in sorted(relay_fns.items()):
        fam = prog.family(root)
        # D1a how the two direction futures are combined
        rootb = prog.body(root)
        joiners = [b for b in fam if any(c.name == "MaybeDone::take_output" for (_, c, _) in b.calls())]
        tryj = [b for b in joiners if any(c.name == "Result::is_err" for (_, c, _) in b.calls())]
        spawns = [(b, blk, t) for b in fam for (blk, c, t) in b.calls() if c.target.endswith("task::spawn::spawn")]
        spawned_pumps = []
        for (sb, blk, t) in spawns:
            for a in t["args"]:
                ty = sb.local_ty(op_place(a)[0]) if op_place(a) else ""
                for pmp in pumps:
                    # the spawned future is (or contains) the pump's own async block
                    # (an async block's type is printed as `{async block@file:line:col: ..}`: match the pump body's own span)
                    sp_ = pmp.sp
                    if pmp.defp in ty or (len(sp_) > 4 and f"async block@{sp_[0]}:{sp_[1]}:{sp_[4] + 1}" in ty) or (f"async block@{sp_[0]}:{sp_[1]}:" in ty and len(sp_) <= 4):
                        spawned_pumps.append(pmp.defp)
        aborts = [1 for b in fam for (_, c, _) in b.calls() if c.name in ("JoinHandle::abort", "AbortHandle::abort") or (c.method == "abort" and "Join" in c.self_s)]
        selectors = [b for b in fam if sum(1 for (_, c, _) in b.calls() if c.name == "Future::poll") >= 2 and not any(c.name == "MaybeDone::take_output" for (_, c, _) in b.calls())]
        mode = None
        if spawned_pumps and not aborts:
            ok, why = False, ("the direction pumps run as detached tasks (tokio::spawn) and their JoinHandles are only awaited/dropped, never aborted: when one "
                              "direction ends the other keeps both sockets of the flow open until its own source ends")
        elif tryj and len(tryj) == len(joiners):
            mode = "try_join"
            ok, why = True, "direction futures are joined with try_join! (first Err ends the flow)"
        elif selectors and not joiners:
            mode = "select"
            ok, why = True, "direction futures are raced in one task (select!): the first to complete drops the other"
        else:
            ok, why = False, "direction futures are joined without first-completion-wins (join!): the flow stays half-open until both directions end"
        ctx.ob("D1", root, "first-completion-ends-the-flow", loc(rootb.sp), ok, why)
        # D1b with try_join!, every return of both futures must be an Err (a clean close must also end the other direction)
        for p in pumps:
            rv = returns_variant(p)
            kinds = sorted(set(rv.values()))
            ok = mode == "select" or (bool(rv) and all(v in ("Err",) for v in rv.values()))
            ctx.ob("D1", p.defp, "pump-always-returns-err", loc(p.sp), ok,
                   ("a raced direction may complete with any value" if mode == "select" else "every completion of this direction is an Err value (ends the try_join)") if ok else
                   f"this direction can complete with {kinds}: a clean close of it no longer ends the other direction (half-open flow keeps sockets and task)")
            # D2
            fw = [(blk, c, t) for (blk, c, t) in p.calls() if c.name == "StreamExt::forward"]
            ctx.ob("D2", p.defp, "pump-uses-forward", loc(p.sp), len(fw) == 1, f"{len(fw)} forward call(s)")
            # D6 forward() returns at the source's first Err item WITHOUT flushing or closing the sink: what it already handed to the sink
            # (bytes sitting in the Framed write buffer since the last flush) is dropped with it. "Everything already received from the
            # failing side is first delivered" therefore needs: the source's errors end the stream instead of being yielded, or the pump
            # keeps the sink and closes it on the error path.
            for (blk, c, t) in fw:
                ok, why = _source_failure_keeps_output(prog, p, fam, t)
                ctx.ob("D6", p.defp, "source-failure-still-delivers-what-was-forwarded", loc(t["sp"]), ok, why)
        ctx.ob("D2", root, "two-directions", loc(prog.body(root).sp), len(pumps) == 2, f"{len(pumps)} pump futures")
    # QUIC close after relay: in every function that closes a QuicStream, the first-item handler (the relay of that flow) runs before the close
    from .common import first_item_handlers
    enum_it, addressed, handlers = first_item_handlers(prog)
    hroots = {fb.root for (fb, _) in handlers}
    q = []
    for b in bodies:
        if b.method == "close" and "QuicStream" in (b.impl_self_def or ""):
            continue
        if any(c.name == "QuicStream::close" for (_, c, _) in b.calls()):
            q.append(b)
    ctx.floor("D2", "QUIC relay body", 1, len(q))
    for b in q:
        fb = prog.flat(b.defp)
        closes = [blk for (blk, c, t) in fb.calls() if c.name == "QuicStream::close"]
        relay_blocks = [i for i in fb.rpo() if prog.body(fb.origin[i]).root in hroots]
        ok = bool(closes) and bool(relay_blocks) and all(any(fb.dominates(rb, cb) for rb in relay_blocks) for cb in closes) and \
            not any(fb.can_reach(cb, rb) for cb in closes for rb in relay_blocks[:1])
        ctx.ob("D2", b.defp, "quic-close-after-relay", loc(b.sp), ok, "QuicStream::close (finish + wait for stop) follows the relay" if ok else "the QUIC stream is not closed after the relay")
    # D8 once the relay of a flow has returned, releasing the flow must not wait for the peer: an un-bounded close / flush / send on the inbound
    # sink after the relay blocks for as long as the client does not read, and the flow's task and socket stay for that long
    n_after = 0
    for b in bodies:
        if not b.defp.startswith("octo_squirrel_server") or b.root in hroots:
            continue
        fb = prog.flat(b.defp, max_depth=2)
        relay_blocks = [i for i in fb.rpo() if prog.body(fb.origin[i]) is not None and prog.body(fb.origin[i]).root in hroots]
        if not relay_blocks:
            continue
        n_after += 1
        for (blk, c, t) in fb.calls():
            if prog.body(fb.origin[blk]) is None or prog.body(fb.origin[blk]).root in hroots:
                continue
            if c.name not in ("SinkExt::close", "SinkExt::flush", "SinkExt::send", "SinkExt::feed", "AsyncWriteExt::shutdown", "AsyncWriteExt::flush", "AsyncWriteExt::write_all"):
                continue
            if not any(fb.can_reach(rb, blk) for rb in relay_blocks[-3:]) or any(fb.can_reach(blk, rb) for rb in relay_blocks[:1]):
                continue
            fwd, fcalls, _ = fb.slice_fwd([t["dest"][0]])
            bounded = any("time::timeout" in cc.target or cc.name.endswith("timeout") for (_, cc, _, _) in fcalls)
            ctx.ob("D8", prog.body(fb.origin[blk]).defp, f"release-does-not-wait-for-the-peer:{c.method}", loc(t["sp"]), bounded,
                   f"{c.name} after the relay is bounded by a timeout" if bounded else
                   f"after the relay has returned the flow still awaits `{c.name}` on its inbound half with no bound: it has to flush what is queued for a client that may never read, "
                   "so the task, the socket and the descriptor of the flow are held for as long as that client stays connected")
    ctx.floor("D8", "server functions that run a relay and then return", 2, n_after)
    qc = [b for b in bodies if "QuicStream::close" in prog.display(b.defp) and any(c.method in ("finish", "stopped") for (_, c, _) in b.calls())]
    ctx.floor("D2", "QuicStream::close body", 1, len(qc))
    for b in qc:
        names = [c.method for (_, c, _) in b.calls()]
        ctx.ob("D2", b.defp, "quic-finish-and-stopped", loc(b.sp), "finish" in names and "stopped" in names, f"close() calls {[n for n in names if n in ('finish', 'stopped')]}")

    # ---------------- D3 -----------------------------------------------------------------------------
    ctx.floor("D3", "server first-item handler", 1, len(handlers))
    for (fb, binds) in handlers:
        relay_calls = {"StreamExt::forward", "SinkExt::send", "SinkExt::feed", "SinkExt::send_all"}
        for (blk, c, t) in fb.calls():
            dty = fb.local_ty(t["dest"][0])
            resolves = "Result<std::net::SocketAddr" in dty and any(ADDR in fb.local_ty(op_place(a)[0]) for a in t["args"] if op_place(a))
            if c.name in ("TcpStream::connect", "UdpSocket::bind") or resolves:
                gs = [g for g in gates_of_value(fb, t["dest"][0]) if g.kind == "result"]
                seen = set()
                for g in gs:
                    if g.block in seen:
                        continue
                    seen.add(g.block)
                    err_t = g.target_for(1)
                    reach = fb.reach_from(err_t)
                    bad = []
                    for x in reach:
                        tt = fb.term(x)
                        if tt and tt["k"] == "call":
                            cc = Callee(tt["f"])
                            if cc.name in relay_calls or cc.target.endswith("spawn::spawn"):
                                bad.append(cc.name)
                    ctx.ob("D3", fb.root, f"{c.method}-failure-drops-inbound", loc(t["sp"]), not bad, "failure edge reaches the function end without relaying" if not bad else f"failure edge still reaches {sorted(set(bad))}")
    # ---------------- D11 a flow that cannot be opened fails now --------------------------------------------------------------------------
    # while a flow's outbound is being dialled nothing reads its local connection: the application cannot be told and cannot be heard. One attempt
    # bounded by the connect timeout is the whole wait. A dial that is *repeated behind sleeps* (retry with back-off) multiplies that wait: the
    # application sees end-of-stream half a minute after the link failed, and a flow whose application has long closed keeps its socket and its
    # task until the retries run out.
    n_dial = 0
    for b in bodies:
        if not b.defp.startswith("octo_squirrel_client") and not b.defp.startswith("octo_squirrel_server"):
            continue
        dials = [blk for (blk, c, t) in b.calls() if c.name in ("TcpStream::connect", "Endpoint::connect", "TlsConnector::connect")]
        if not dials:
            continue
        n_dial += len(dials)
        sleeps = [(blk, c, t) for (blk, c, t) in b.calls() if c.target.endswith("time::sleep::sleep") or c.target.endswith("time::sleep::sleep_until") or c.name.endswith("Interval::tick")]
        for dblk in dials:
            lp = b.innermost_loop(dblk)
            if lp is None:
                continue
            inside = [(blk, c, t) for (blk, c, t) in sleeps if blk in lp[1]]
            for (blk, c, t) in inside:
                ctx.ob("D11", b.defp, "dial-is-not-retried-behind-sleeps", loc(t["sp"]), False,
                       "the flow's outbound is dialled in a loop that sleeps between attempts: for as long as the retries last nobody watches the local connection - the application "
                       "learns of a dead link only when they run out, and the socket and task of a flow whose application already closed are held until then")
    ctx.floor("D11", "per-flow dial sites inspected", 3, n_dial)
    # ---------------- D10 a dead link is noticed: the transport's idle timer is not switched off ------------------------------------
    # over QUIC nothing but the idle timer tells a relay that the link has silently died (no FIN, no RST reaches it). QUIC uses the smaller of the
    # two ends' values, so disabling it is harmless at one end alone and fatal when both do it: the flow's task, its socket to the target and
    # the application's socket stay for ever. `max_idle_timeout(None)` is therefore refused wherever it appears.
    n_idle = 0
    for b in bodies:
        for (blk, c, t) in b.calls():
            if c.method == "max_idle_timeout" and "TransportConfig" in ((c.self_s or "") + c.target):
                n_idle += 1
                off = False
                q = op_place(t["args"][1]) if len(t["args"]) > 1 else None
                if q is not None:
                    for d in b.defs().get(q[0], []):
                        if d[0] == "assign" and d[3]["rv"]["k"] == "agg" and d[3]["rv"].get("variant") == "None":
                            off = True
                ctx.ob("D10", b.defp, "idle-timeout-not-disabled", loc(t["sp"]), not off,
                       "the QUIC idle timeout is set to a value" if not off else
                       "`max_idle_timeout(None)` switches the QUIC idle timer off: a link that dies silently (no close reaches this end) is never declared dead, so the flow's "
                       "task and both of its sockets are never released (QUIC takes the minimum of both ends, so this shows only once the peer disables it as well)")
    ctx.ob("D10", "workspace", "scan", "-", True, f"{n_idle} max_idle_timeout call(s)", nontrivial=False, ordinal=False)
    # ---------------- D9 what was received with the request is delivered unless the dial failed --------------------------------------
    # the first item of a stream flow carries payload that has already been received from the client. From the arm that binds it, every
    # way out of the handler either runs the relay (which is handed that payload as its first item) or lies behind the failure edge of the
    # resolve / connect. A third way out - "the client closed while we were connecting", a timeout that is not a connect failure - drops
    # bytes that were received from the side that closed, which is exactly what must be delivered before the other side sees the end.
    n_d9 = 0
    for (fb, binds) in handlers:
        relay_blocks = {blk for (blk, c, t) in fb.calls() if c.name in ("StreamExt::forward", "SinkExt::send", "SinkExt::feed", "SinkExt::send_all")}
        fail_targets = set()
        for (blk, c, t) in fb.calls():
            dty = fb.local_ty(t["dest"][0])
            resolves = "Result<std::net::SocketAddr" in dty and any(ADDR in fb.local_ty(op_place(a)[0]) for a in t["args"] if op_place(a))
            cb_ = prog.body(c.target)
            dial_wrapper = cb_ is not None and cb_.root != fb.root and "Result<" in dty + " " + (cb_.local_ty(0) or "") and \
                any(cc.name == "TcpStream::connect" for (_, cc, _) in prog.flat(cb_.defp).calls())
            if c.name == "TcpStream::connect" or resolves or dial_wrapper:
                for g in gates_of_value(fb, t["dest"][0]):
                    if g.kind in ("result", "try"):
                        fail_targets.add(g.target_for(1))
        starts = set()
        for l_, (variant, fi) in binds.items():
            if "Tcp" in str(variant) and "BytesMut" in fb.local_ty(l_):        # the payload of the stream-connect variant
                for d in fb.defs().get(l_, []):
                    starts.add(d[1])
        rets = set(fb.return_blocks())
        # the relay = the workspace call that is handed (a value built from) that payload
        pay = [l_ for l_, (variant, fi) in binds.items() if "Tcp" in str(variant) and "BytesMut" in fb.local_ty(l_)]
        fwd_ = fb.slice_fwd(pay)[0] if pay else set()
        relay_blocks |= {blk for (blk, c, t) in fb.calls() if c.target.startswith("octo_squirrel") and any(op_place(a) and op_place(a)[0] in fwd_ and not fb.local_ty(op_place(a)[0]).startswith(("&", "std::pin::Pin")) and
                                any(w in fb.local_ty(op_place(a)[0]) for w in ("BytesMut", "InboundIn")) for a in t["args"])}       # the payload / the item built from it, handed over by value
        for sblk in sorted(starts):
            n_d9 += 1
            reach = fb.reach_from(sblk, avoid=frozenset(relay_blocks | fail_targets))
            bad = sorted(x for x in reach if x in rets)
            where = loc(fb.term(sblk)["sp"]) if fb.term(sblk) and fb.term(sblk).get("sp") else loc(fb.sp)
            ctx.ob("D9", fb.root, "received-payload-is-relayed-unless-the-dial-failed", where, not bad,
                   "from the arm that binds the request's payload every way out runs the relay or lies behind a failed resolve / connect" if not bad else
                   "the handler can return from the arm that holds the request's already-received payload without running the relay and without the resolve / connect having "
                   "failed (e.g. it gives up when the client closes while the target is still being dialled): bytes received from the side that closed are dropped instead of "
                   "being delivered before the other side sees the end")
    ctx.floor("D9", "first-item arms that bind already-received stream payload", 1, n_d9)
    # ---------------- D5 a Sink that defers what start_send accepted must emit it when it is closed -------------------------------
    # forward() closes a sink without flushing it when its source ends: whatever start_send only buffered is lost with a clean close
    sinks = {}
    for b in bodies:
        if b.impl_trait and last_seg(b.impl_trait) == "Sink" and b.root == b.defp and b.method in ("start_send", "poll_flush", "poll_close", "poll_ready"):
            sinks.setdefault(b.impl_self_def, {})[b.method] = b
    ctx.floor("D5", "repo-defined Sink impls", 1, len(sinks))
    for ty, ms in sorted(sinks.items()):
        if "start_send" not in ms or "poll_close" not in ms:
            continue

        def hands_on(body):
            fb_ = prog.flat(body.defp)
            return any(c.method in ("start_send", "start_send_unpin", "poll_write", "write_all", "poll_write_vectored") and fb_.origin[blk] != ms["start_send"].defp or
                       (c.method in ("start_send", "start_send_unpin", "poll_write") and c.target != ms["start_send"].defp)
                       for (blk, c, t) in fb_.calls())
        direct = hands_on(ms["start_send"])
        if direct:
            ctx.ob("D5", ms["start_send"].defp, "accepted-items-reach-the-transport", loc(ms["start_send"].sp), True,
                   "start_send hands every item to the inner sink at once: nothing is pending when the sink is closed", ordinal=False)
            continue
        ok = hands_on(ms["poll_close"]) or any(c.target == ms.get("poll_flush", ms["poll_close"]).defp for (_, c, _) in prog.flat(ms["poll_close"].defp).calls() if "poll_flush" in ms)
        ctx.ob("D5", ms["poll_close"].defp, "close-emits-what-start_send-buffered", loc(ms["poll_close"].sp), ok,
               "poll_close emits (or flushes) what start_send buffered" if ok else
               "start_send only buffers the item and poll_close never emits the buffer: a pump that ends with a clean close (forward() closes without flushing) "
               "drops the closing side's last chunk, the peer sees a clean end-of-stream with data missing", ordinal=False)

    # ---------------- D4 -----------------------------------------------------------------------------
    holders = []
    for it in prog.items:
        if it["k"] == "struct" and any("JoinHandle<" in fty for (_, fty) in it["fields"]) and "::test" not in it["path"]:
            # only what is kept in a routing table outlives the function that created the task: a struct that merely carries the
            # handle from one function to the next (a named return value) is not an owner
            nm = last_seg(it["path"])
            stored = any(("LruCache<" in l["ty"].get("s", "") or "HashMap<" in l["ty"].get("s", "")) and re.search(r"\b" + re.escape(nm) + r"\b", l["ty"].get("s", ""))
                         for b_ in bodies for l in b_.locals)
            if stored:
                holders.append(it)
    ctx.floor("D4", "structs owning a per-flow JoinHandle", 2, len(holders))
    for it in holders:
        drops = [b for b in bodies if b.impl_trait and last_seg(b.impl_trait) == "Drop" and b.impl_self_def == it["path"] and b.method == "drop"]
        ok = bool(drops) and any(c.method == "abort" for d in drops for (_, c, _) in d.calls())
        ctx.ob("D4", it["path"], "drop-aborts-task", loc(it["sp"]), ok, "Drop impl aborts the per-flow task" if ok else "no Drop impl aborting the stored JoinHandle: the task outlives its table entry", ordinal=False)
    # D7 closing a flow's socket never discards what was written to it: an abortive close (SO_LINGER 0) makes the kernel drop the unsent
    # part of the send buffer and answer with a reset instead of delivering it and finishing the stream
    n_l = 0
    for b in bodies:
        for (blk, c, t) in b.calls():
            if c.method == "set_zero_linger" or (c.method == "set_linger" and len(t["args"]) > 1 and not _is_none(b, t["args"][1])):
                n_l += 1
                ctx.ob("D7", b.defp, f"close-delivers-what-was-written:{c.method}", loc(t["sp"]), False,
                       f"{c.name}: the socket is switched to an abortive close — when the flow is dropped the kernel discards whatever is still in the send buffer and "
                       "sends a reset, so the tail of what the other side had already sent (flushed into the kernel, not yet on the wire) never arrives")
    ctx.ob("D7", "workspace", "no-abortive-close", "-", True, f"{n_l} socket(s) configured for an abortive close", nontrivial=False, ordinal=False)
    for b in bodies:
        if not any(k in b.defp for k in ("template", "server::shadowsocks", "octo_squirrel::codec")):
            continue
        for (blk, c, t) in b.calls():
            if c.target.endswith("mem::forget") or c.name == "Box::leak" or "ManuallyDrop" in c.target:
                ctx.ob("D4", b.defp, f"leak:{c.method}", loc(t["sp"]), False, f"{c.name} in a relay path: sockets / tasks are never released")


ERR_DROPPERS = ("filter_map", "take_while", "map_while", "try_take_while", "scan", "take_until")


def _drops_errors(prog, c, t, b):
    """does this stream adapter call turn Err items of its source into skipped items / end of stream?"""
    if c.method not in ERR_DROPPERS:
        return False
    defs_ = [a.get("d") for a in c.args if a.get("d")]
    for a in t["args"][1:]:
        p = op_place(a)
        if p is not None:
            m = re.search(r"\{closure@", b.local_ty(p[0]))
            for d in b.defs().get(p[0], []):
                if d[0] == "assign" and d[3]["rv"]["k"] == "agg" and d[3]["rv"].get("def"):
                    defs_.append(d[3]["rv"]["def"])
    for d in defs_:
        if d.endswith("Result::ok") or d.endswith("result::Result::ok"):
            return True
        cb = prog.body(d)
        if cb is not None and any(cc.name in ("Result::ok", "Result::is_ok", "Result::is_err") for (_, cc, _) in cb.calls()):
            return True
    return False


def _source_failure_keeps_output(prog, p, fam, t):
    sp_ = op_place(t["args"][0])
    kp_ = op_place(t["args"][1]) if len(t["args"]) > 1 else None
    if sp_ is None:
        return False, "the forwarded stream is not a place"
    # (c) the pump keeps its sink (forward(&mut sink)) and closes / flushes it itself
    if kp_ is not None and p.local_ty(kp_[0]).strip().startswith("&mut") and any(c.name in ("SinkExt::close", "SinkExt::flush") for (_, c, _) in p.calls()):
        return True, "the pump lends its sink to forward() and closes it itself afterwards"
    locs, calls, _ = p.slice_back([sp_[0]])
    for (blk, c, tt) in calls:
        if _drops_errors(prog, c, tt, p):
            return True, f"Err items of the source are dropped by {c.name} before the stream is forwarded (a failed read ends the stream; forward() then flushes and closes the sink)"
    # follow captured variables into the function that built the pump
    names = set()
    for l in locs | {sp_[0]}:
        for d in p.defs().get(l, []):
            if d[0] == "assign":
                for o in p.operands_of_rvalue(d[3]["rv"]) + ([{"copy": d[3]["rv"]["p"]}] if d[3]["rv"]["k"] == "ref" else []):
                    pl = op_place(o)
                    if pl is not None and pl[0] == 1:
                        nm = p.upvar_name(pl)
                        if nm:
                            names.add(nm)
    pl0 = sp_ if sp_[0] == 1 else None
    if pl0 is not None and p.upvar_name(pl0):
        names.add(p.upvar_name(pl0))
    ups = [nm for (nm, _) in p.j.get("upvars", [])]
    for parent in fam:
        if parent.defp == p.defp:
            continue
        for blk in parent.rpo():
            for st in parent.stmts(blk):
                if st["k"] == "assign" and st["rv"]["k"] == "agg" and st["rv"].get("def") == p.defp:
                    for nm in names:
                        if nm not in ups:
                            continue
                        ops = st["rv"]["ops"]
                        i = ups.index(nm)
                        if i >= len(ops) or op_place(ops[i]) is None:
                            continue
                        _, pcalls, _ = parent.slice_back([op_place(ops[i])[0]])
                        for (b2, c2, t2) in pcalls:
                            if _drops_errors(prog, c2, t2, parent):
                                return True, f"Err items of the source are dropped by {c2.name} (in {last_seg(parent.root)}) before the stream is forwarded: a failed read ends the stream and forward() flushes and closes the sink"
    return False, ("the source's Err items reach forward(), which returns at the first of them without flushing or closing the sink it owns: whatever it had already "
                   "handed to the sink in the same burst (bytes in the Framed write buffer since the last flush) is dropped — a reset right behind the last data "
                   "truncates what the other side receives, and it then sees a normal end of stream")


def _is_none(b, op):
    p = op_place(op)
    if p is None:
        return "None" in str(op)
    for d in b.defs().get(p[0], []):
        if d[0] == "assign" and d[3]["rv"]["k"] == "agg" and d[3]["rv"].get("variant") == "None":
            return True
    return False
