"""C06 — no relaying without the configured credential; users stay separated (DESIGN.md 4/C06)."""
import re

from ..mir import tymatch, Callee, last_seg, loc, op_int, op_place
from .common import gates_of_value, returns_variant, success_edge_dominates, err_return_reachable_only, SUCCESS_ARM, err_only, edge_dom, succ_dom

EXPLANATION = (
    "A1 in the initial-state arm of every server codec each construction of a relay item (InboundIn::*), each call that returns one and each "
    "assignment that moves the codec out of its initial state is dominated by the success edge of that protocol's credential check, whose failure "
    "edge only reaches Err: Trojan — the (in)equality between the configured SHA-224 key field and bytes taken from the source buffer; VMess — the "
    "Some edge of the auth-id matcher over the registered keys and the success edge of the header open keyed by the matcher's result; Shadowsocks — "
    "relay item payloads derive only from the Some result of the AEAD decode (never from the raw source buffer). A2 every user lookup's not-found "
    "edge only reaches Err; the session key and the stored user derive from the same lookup; identity is required exactly when the cipher supports it "
    "and users are configured; reply keys derive from the stored user. A3 relay items are constructed only in the three server codec modules (plus "
    "re-wrapping of an already matched item in the relay template).")
ASSUMPTIONS = ["AEAD unforgeability and SHA-224 preimage resistance are assumed", "correctness of the byte comparison for all strings and timing side channels are not decided"]

RELAY_ENUM = "server::template::message::InboundIn"


def relay_item_sites(b):
    """blocks that create a relay item: aggregates of InboundIn, and calls whose destination type mentions InboundIn"""
    out = []
    for blk in b.rpo():
        for s in b.stmts(blk):
            if s["k"] == "assign" and s["rv"]["k"] == "agg" and s["rv"].get("def", "").endswith(RELAY_ENUM):
                out.append((blk, "construct " + s["rv"]["variant"], s["sp"], s))
        t = b.term(blk)
        if t and t["k"] == "call" and "InboundIn" in b.local_ty(t["dest"][0]) and Callee(t["f"]).target.startswith("octo_squirrel_server"):
            out.append((blk, "call " + Callee(t["f"]).name, t["sp"], None))
    return out


def _key_table_ty(ty):
    """a table of 16-byte keys: &[[u8; 16]], &Vec<[u8; 16]>, ..."""
    return "[[u8; 16]]" in ty or "Vec<[u8; 16]>" in ty


def _is_self(b, local):
    """the local is (a reference to) the codec itself — in a flat body also the `self` of a spliced method"""
    st = last_seg(getattr(b, "impl_self_def", None) or "")
    ty = b.local_ty(local).replace("&mut ", "").replace("&", "").strip()
    return local == 1 or (st and last_seg(ty.split("<")[0]) == st)


def state_writes(b, field_names):
    out = []
    for blk in b.rpo():
        for s in b.stmts(blk):
            if s["k"] in ("assign", "setdiscr") and _is_self(b, s["p"][0]):
                fs = [e[2] for e in s["p"][1] if e[0] == "field"]
                if fs and fs[0] in field_names and len([e for e in s["p"][1] if e[0] in ("field", "downcast")]) == 1:
                    out.append((blk, fs[0], s.get("sp")))
    return out


def initial_arm_region(b, field):
    """blocks dominated by the arm `discr(self.<field>) == 0` of the state switch"""
    for blk in b.rpo():
        t = b.term(blk)
        if not t or t["k"] != "switch":
            continue
        p = op_place(t["d"])
        if p is None:
            continue
        for d in b.defs().get(p[0], []):
            if d[0] == "assign" and d[3]["rv"]["k"] == "discr":
                pl = d[3]["rv"]["p"]
                if _is_self(b, pl[0]) and any(e[0] == "field" and e[2] == field for e in pl[1]):
                    tgt = None
                    for v, x in t["arms"]:
                        if v == 0:
                            tgt = x
                    if tgt is None:
                        tgt = t["otherwise"]
                    return blk, {x for x in b.rpo() if b.dominates(tgt, x)}
    return None, set()


def run(ctx):
    a6_reply_path_is_the_owners(ctx)
    a5_credentials_not_process_wide(ctx)
    a1p_no_prefilled_key_tables(ctx)
    prog = ctx.prog
    bodies = [b for b in prog.prod_bodies() if "::_" not in b.defp]
    decs = [b for b in prog.methods_of_trait_impls("Decoder", "decode") if b.defp.startswith("octo_squirrel_server")]
    ctx.floor("A1", "server codecs (Decoder impls)", 3, len(decs))
    for b0 in decs:
        # checks extracted into helper methods of the server codec are judged inside the decode step; calls into the core crate
        # (the authenticated decode, the auth-id matcher, the header open) stay calls: they are the primitives the rules are about
        b = prog.flat(b0.defp, stop=lambda cb: not cb.defp.startswith("octo_squirrel_server"), key="same-crate")
        disp = prog.display(b.defp)
        sites = relay_item_sites(b)
        ctx.floor("A1", f"relay item sites in {last_seg(b.impl_self_def or '')}", 2, len(sites))
        if "trojan" in b.defp:
            sw, region = initial_arm_region(b, "state")
            if sw is None:
                ctx.anchor_lost("A1", "trojan state switch")
                continue
            # credential check: eq/ne call with one side from self.key and the other from src
            checks = []
            for (blk, c, t) in b.calls():
                if c.name not in ("PartialEq::eq", "PartialEq::ne") or blk not in region:
                    continue
                sides = []
                for a in t["args"]:
                    p = op_place(a)
                    locs, calls, _ = b.slice_back([p[0]]) if p else (set(), [], [])
                    from_key = False
                    for l in locs:
                        for d in b.defs().get(l, []):
                            if d[0] == "assign" and d[3]["rv"]["k"] == "ref":
                                pp = d[3]["rv"]["p"]
                                # the stored credential: a field of the codec holding SHA-224 output(s) ([u8; 28])
                                if _is_self(b, pp[0]) and any(e[0] == "field" for e in pp[1]) and "[u8; 28]" in b.local_ty(d[3]["p"][0]):
                                    from_key = True
                    from_src = 2 in locs
                    sides.append((from_key, from_src))
                if any(k for k, _ in sides) and any(s for _, s in sides):
                    checks.append((blk, c, t))
            if not checks:
                # a table of credentials compared inside an iterator adapter (`self.keys.iter().any(|k| *k == key[..])`): the check is the
                # bool the adapter returns; the comparison itself sits in the closure
                for (blk, c, t) in b.calls():
                    if blk not in region or c.method not in ("any", "position", "find", "contains", "all") or not t["args"]:
                        continue
                    rp = op_place(t["args"][0])
                    rlocs = b.slice_back([rp[0]])[0] if rp is not None else set()
                    from_table = False
                    for l in rlocs:
                        for d in b.defs().get(l, []):
                            if d[0] == "assign" and d[3]["rv"]["k"] == "ref":
                                pp = d[3]["rv"]["p"]
                                if _is_self(b, pp[0]) and any(e[0] == "field" for e in pp[1]) and "[u8; 28]" in b.local_ty(d[3]["p"][0]):
                                    from_table = True
                    clos = [a.get("d") for a in c.args if a.get("d") and "closure" in a.get("d", "")]
                    cmp_in_closure = any(prog.body(d_) is not None and any(cc.name in ("PartialEq::eq", "PartialEq::ne") for (_, cc, _) in prog.body(d_).calls()) for d_ in clos)
                    if from_table and (cmp_in_closure or c.method == "contains"):
                        checks.append((blk, Callee({"path": "core::cmp::PartialEq::eq", "trait": "core::cmp::PartialEq", "method": "eq", "args": []}) if c.method != "all" else c, t))
            if not checks:
                # the comparison extracted into a `verify(&self, sent) -> bool` helper: the check is the bool it returns - if the helper *is* an
                # equality. A fold over `zip`ped bytes compares only as many bytes as the shorter side has: without a length test every prefix of
                # the credential (the empty line included) verifies.
                for (blk, c, t) in b.calls():
                    hb = prog.body(c.target)
                    if blk not in region or hb is None or hb.local_ty(0) != "bool" or not c.target.startswith("octo_squirrel"):
                        continue
                    from_src = any(op_place(a) and 2 in b.slice_back([op_place(a)[0]])[0] for a in t["args"])
                    touches_key = any(op_place(a) and _is_self(b, op_place(a)[0]) or (op_place(a) and any(_is_self(b, l_) for l_ in b.slice_back([op_place(a)[0]], stop_call=lambda c_: True)[0])) for a in t["args"])
                    if not (from_src and touches_key):
                        continue
                    hf = prog.flat(hb.defp)
                    names = [cc.name for fbx in prog.family(hb.root) for (_, cc, _) in fbx.calls()]
                    zipped = any(n_.endswith("::zip") for n_ in names)
                    len_tested = sum(1 for n_ in names if n_.endswith("::len")) >= 2 or any(n_ in ("PartialEq::eq", "PartialEq::ne") for n_ in names)
                    xor_or = any("bitxor" in n_.lower() for n_ in names) or any(s_["k"] == "assign" and s_["rv"]["k"] == "bin" and s_["rv"]["op"] == "BitXor" for fbx in prog.family(hb.root) for bl in fbx.rpo() for s_ in fbx.stmts(bl))
                    is_eq = not (zipped and not len_tested)
                    ctx.ob("A1", hb.defp, "trojan:credential-compare-covers-the-whole-credential", loc(t["sp"]), is_eq,
                           "the credential helper compares the whole credential" if is_eq else
                           f"`{last_seg(hb.defp)}` folds over `zip`ped bytes and never compares the lengths: the comparison covers only as many bytes as the peer sent, so every prefix "
                           "of the credential - the empty password line included - verifies, and a peer without the password is relayed")
                    checks.append((blk, Callee({"path": "core::cmp::PartialEq::eq", "trait": "core::cmp::PartialEq", "method": "eq", "args": []}), t))
            ctx.floor("A1", "trojan credential comparison", 1, len(checks))
            for (blk, c, t) in checks:
                gates = [g for g in gates_of_value(b, t["dest"][0]) if g.kind == "bool"]
                eq_truth = c.name == "PartialEq::eq"
                for g in gates:
                    eq_t, ne_t = g.bool_target(eq_truth), g.bool_target(not eq_truth)
                    ok = err_only(prog, b, ne_t)
                    ctx.ob("A1", b.defp, "trojan:mismatch-rejects", loc(t["sp"]), ok, "password mismatch only reaches Err" if ok else "password mismatch can reach a non-Err return")
                    for (sb, what, sp, _) in sites:
                        if sb not in region:
                            continue
                        ok = edge_dom(prog, b, g.block, eq_t, sb)
                        ctx.ob("A1", b.defp, f"trojan:{what}:behind-password-check", loc(sp), ok, f"{what} is dominated by the password-equal edge" if ok else f"{what} is reachable without passing the password comparison")
                    for (wb, f, sp) in state_writes(b, {"state"}):
                        ok = edge_dom(prog, b, g.block, eq_t, wb)
                        ctx.ob("A1", b.defp, "trojan:state-transition-behind-password-check", loc(sp) if sp else loc(b.sp), ok, "state leaves Header only behind the password-equal edge" if ok else "the codec can leave its initial state without the password check")
            # the key field is SHA-224(password): checked in C03-S1
            # ... and a *table* of credentials must hold nothing but such hashes: a table created with placeholder entries (`vec![[0; 28]; n]`)
            # and then extended keeps the placeholders, and the all-zero "hash" (56 hex zeros) becomes a working credential
            for cb_ in bodies:
                if not cb_.defp.startswith("octo_squirrel_server") or cb_.root != cb_.defp:
                    continue
                builds = any(s_["k"] == "assign" and s_["rv"]["k"] == "agg" and s_["rv"].get("def") == b0.impl_self_def for blk_ in cb_.rpo() for s_ in cb_.stmts(blk_))
                if not builds:
                    continue
                for (blk_, c_, t_) in cb_.calls():
                    if c_.target.endswith("vec::from_elem") and "[u8; 28]" in " ".join(a.get("s", "") for a in c_.args):
                        k_ = t_["args"][1] if len(t_["args"]) > 1 else None
                        nonzero_len = not (k_ is not None and op_int(k_) == 0)
                        ctx.ob("A1", cb_.defp, "trojan:credential-table-has-no-placeholders", loc(t_["sp"]), not nonzero_len,
                               "the credential table starts empty" if not nonzero_len else
                               "the credential table is created with placeholder (all-zero) entries: unless every slot is overwritten, the placeholder is itself "
                               "an accepted credential (a handshake of 56 hex zeros is relayed)")
        elif "vmess" in b.defp:
            sw, region = initial_arm_region(b, "decode_state")
            if sw is None:
                ctx.anchor_lost("A1", "vmess decode_state switch")
                continue
            # role: the auth-id matcher = the core function that is given the table of 16-byte command keys and answers with one of them
            def _is_matcher(c_):
                cb_ = prog.body(c_.target)
                if cb_ is None or cb_.defp.startswith("octo_squirrel_server") or "Option<" not in cb_.local_ty(0) or "[u8; 16]" not in cb_.local_ty(0):
                    return False
                return any(_key_table_ty(cb_.local_ty(i)) for i in range(1, cb_.argc + 1))
            match = [(blk, c, t) for (blk, c, t) in b.calls() if _is_matcher(c)]
            opens = [(blk, c, t) for (blk, c, t) in b.calls() if c.target.endswith("encrypt::open_header")]
            ctx.floor("A1", "vmess auth-id matcher call", 1, len(match))
            ctx.floor("A1", "vmess header open call", 1, len(opens))
            for (mb, mc, mt) in match:
                # keys argument (the one typed as a table of 16-byte keys) is the registered key table
                cb_ = prog.body(mc.target)
                kidx = [i - 1 for i in range(1, cb_.argc + 1) if _key_table_ty(cb_.local_ty(i))]
                p = op_place(mt["args"][kidx[0]]) if kidx and kidx[0] < len(mt["args"]) else None
                ok = False
                if p is not None:
                    locs, _, _ = b.slice_back([p[0]])
                    for l in locs:
                        for d in b.defs().get(l, []):
                            if d[0] == "assign" and d[3]["rv"]["k"] == "ref" and _is_self(b, d[3]["rv"]["p"][0]) and any(e[0] == "field" and e[2] == "keys" for e in d[3]["rv"]["p"][1]):
                                ok = True
                ctx.ob("A1", b.defp, "vmess:matcher-over-registered-keys", loc(mt["sp"]), ok, "matcher runs over self.keys")
                for (ob, oc, ot) in opens:
                    ok, why = succ_dom(prog, b, mb, ob)
                    ctx.ob("A1", b.defp, "vmess:open-behind-matcher", loc(ot["sp"]), ok, "header open " + why)
                    # key passed to open derives from the matcher's result
                    pk = op_place(ot["args"][0])
                    der = False
                    if pk is not None:
                        _, calls, _ = b.slice_back([pk[0]])
                        der = any(_is_matcher(cc) for (_, cc, _) in calls)
                    ctx.ob("A2", b.defp, "vmess:open-keyed-by-matched-user", loc(ot["sp"]), der, "header is opened under the key the matcher returned" if der else "header open key does not derive from the matcher's result (e.g. keys[0])")
            for (ob, oc, ot) in opens:
                for (sb, what, sp, _) in sites:
                    if sb not in region:
                        continue
                    ok, why = succ_dom(prog, b, ob, sb)
                    ctx.ob("A1", b.defp, f"vmess:{what}:behind-header-open", loc(sp), ok, f"{what}: " + why)
                for (wb, f, sp) in state_writes(b, {"decode_state"}):
                    ok, why = succ_dom(prog, b, ob, wb)
                    ctx.ob("A1", b.defp, "vmess:state-transition-behind-header-open", loc(sp) if sp else loc(b.sp), ok, "decode_state leaves Init: " + why)
            # no-match => Err
            for (mb, mc, mt) in match:
                gs = [g for g in gates_of_value(b, mt["dest"][0]) if g.kind == "option"]
                ok = bool(gs) and all(err_only(prog, b, g.target_for(0)) for g in gs)
                ctx.ob("A1", b.defp, "vmess:no-match-rejects", loc(mt["sp"]), ok, "no matching user only reaches Err" if ok else "auth-id without a matching user can reach a non-Err return")
        else:
            # Shadowsocks: relay item operands derive only from the authenticated decode result
            aead = [(blk, c, t) for (blk, c, t) in b.calls() if c.method == "decode" and "AEADCipherCodec" in (c.self_def or c.self_s)]
            ctx.floor("A1", "shadowsocks authenticated decode calls", 2, len(aead))
            for (sb, what, sp, s) in sites:
                if s is None:
                    continue
                ops = [op_place(o) for o in s["rv"]["ops"]]
                ok_all = True
                why = []
                for i, p in enumerate(ops):
                    if p is None:
                        continue
                    locs, calls, _ = b.slice_back([p[0]], stop_call=lambda cc: cc.method == "decode" and "AEADCipherCodec" in (cc.self_def or cc.self_s))
                    raw = 2 in locs
                    via = any(cc.method == "decode" and "AEADCipherCodec" in (cc.self_def or cc.self_s) for (_, cc, _) in calls)
                    from_session = any(d[0] == "assign" and d[3]["rv"]["k"] == "ref" and any(e[0] == "field" and e[2] in ("session", "address") for e in d[3]["rv"]["p"][1]) for l in locs for d in b.defs().get(l, []))
                    if raw or not (via or from_session):
                        ok_all = False
                        why.append(f"operand {i} raw={raw} via-decode={via}")
                ctx.ob("A1", b.defp, f"shadowsocks:{what}:operands-authenticated", loc(sp), ok_all, "relay item operands derive from the AEAD decode result / the authenticated session" if ok_all else "relay item built from unauthenticated bytes: " + "; ".join(why))
                # and the site is on the Some edge of that decode
                dom = False
                for (ab, ac, at) in aead:
                    ok, _ = success_edge_dominates(b, ab, sb)
                    dom = dom or ok
                ctx.ob("A1", b.defp, f"shadowsocks:{what}:behind-decode-success", loc(sp), dom, "construction is dominated by Ok(Some) of the AEAD decode" if dom else "construction is not dominated by a successful AEAD decode")

    # ---------------- A2 user lookups -----------------------------------------------------------
    # roles: the user registry = the struct that owns a map keyed by the 16-byte identity hash; a lookup = one of its methods that takes a
    # `&[u8; 16]` and returns an Option; the user type = what the map stores; "how many users" = its usize-returning method
    registry = [it for it in prog.items if it["k"] == "struct" and "::test" not in it["path"] and
                any(re.search(r"HashMap<\[u8; [^\]]+\], (?:std::sync::)?(?:Arc<)?[A-Za-z_:]*[A-Z]", fty) for (_, fty) in it["fields"])]
    reg_paths = {it["path"] for it in registry}
    ctx.floor("A2", "user registry type (map keyed by the identity hash)", 1, len(registry))
    lookup_fns = {b.defp for b in bodies if (b.impl_self_def or "") in reg_paths and b.root == b.defp and "Option<" in b.local_ty(0) and b.argc == 2 and
                  "[u8" in b.local_ty(2)}
    count_fns = {b.defp for b in bodies if (b.impl_self_def or "") in reg_paths and b.root == b.defp and b.local_ty(0) == "usize" and b.argc == 1}
    user_ty = set()
    for it in registry:
        for (_, fty) in it["fields"]:
            m_ = re.search(r"HashMap<\[u8; [^\]]+\], (?:std::sync::)?(?:Arc<)?([A-Za-z0-9_:]+)", fty)
            if m_:
                user_ty.add(last_seg(m_.group(1)))

    def is_user_local(body, l):
        ty = body.local_ty(l)
        return any(re.search(r"\b" + re.escape(u) + r"\b", ty) for u in user_ty)
    lookups = []
    for b in bodies:
        for (blk, c, t) in b.calls():
            if c.target in lookup_fns:
                lookups.append((b, blk, c, t))
    ctx.floor("A2", "user lookups by identity hash", 2, len(lookups))
    for (b, blk, c, t) in lookups:
        gs = [g for g in gates_of_value(b, t["dest"][0]) if g.kind == "option"]
        ok = bool(gs) and all(err_return_reachable_only(b, g.target_for(0)) for g in gs)
        ctx.ob("A2", b.defp, "unknown-identity-rejects", loc(t["sp"]), ok,
               "an identity that names no registered user only reaches Err" if ok else
               "the not-found edge of the user lookup does not end in Err: an unregistered identity can fall through (e.g. to the server key)")
        # the key used for the session derives from the looked-up user: some decoder / cipher constructor reached from the decode step that
        # made the lookup takes a key that derives from the lookup's result (or from a value of the user type)
        key_from_user = False
        ctxs = [prog.flat(fb.defp) for fb in prog.family(b.root)] + [fb_ for (fb_, _) in prog.flat_contexts(b.root)[:6]]
        for fb in ctxs:
            for (kb, kc, kt) in fb.calls():
                if kc.method in ("new_decoder", "get_cipher", "new") and ("decoder" in kc.target.lower() or "cipher" in kc.target.lower() or "Authenticator" in kc.target or kc.method != "new"):
                    for a in kt["args"]:
                        p = op_place(a)
                        if p is None:
                            continue
                        locs, calls, _ = fb.slice_back([p[0]])
                        if any(cc.target in lookup_fns for (_, cc, _) in calls) or any(is_user_local(fb, l) for l in locs):
                            key_from_user = True
        ctx.ob("A2", b.defp, "session-key-from-looked-up-user", loc(t["sp"]), key_from_user, "the body/session key derives from the looked-up user's key" if key_from_user else "no decoder/cipher key derives from the looked-up user")
    # identity sub-key needs the server key and the salt: in the function that looks the user up *and* derives a blake3 sub-key, the key
    # material depends on at least two distinct inputs of that function (the server key and the salt), whatever shape the parameters have
    for (b, blk0, c0, t0) in lookups:
        for (blk, c, t) in b.calls():
            if c.target.startswith("blake3::derive_key"):
                p = op_place(t["args"][1])
                locs, _, _ = b.slice_back([p[0]]) if p else (set(), 0, 0)
                srcs = set()
                for l in locs:
                    if 1 <= l <= b.argc and b.local_ty(l).lstrip("&").startswith(("[u8", "mut [u8")):
                        srcs.add((l, None))
                    for d in b.defs().get(l, []):
                        if d[0] == "assign" and d[3]["rv"]["k"] in ("use", "ref"):
                            pp = op_place(d[3]["rv"]["op"]) if d[3]["rv"]["k"] == "use" else d[3]["rv"]["p"]
                            if pp and 1 <= pp[0] <= b.argc:
                                fl = [e[2] or e[1] for e in pp[1] if e[0] == "field"]
                                if fl:
                                    srcs.add((pp[0], fl[-1]))
                ok = len(srcs) >= 2
                ctx.ob("A2", b.defp, "identity-subkey-from-server-key-and-salt", loc(t["sp"]), ok,
                       f"identity sub-key material derives from {len(srcs)} distinct inputs (server key and salt)" if ok else "identity sub-key does not depend on both the server key and the salt")
    # require_eih derives from "the cipher supports identity headers" && "users are registered" on both server paths
    reqs = []
    for b in bodies:
        if b.root != b.defp or not ("decode" in b.defp or "decoder" in b.defp):
            continue
        kind_bool = any(tymatch(c.self_def or "", "codec::aead::CipherKind") and (prog.body(c.target) is not None and prog.body(c.target).local_ty(0) == "bool") and "2022" not in c.method and "eih" in c.method.lower()
                        or c.method == "support_eih" for (_, c, _) in b.calls())
        if not kind_bool:
            continue
        fam_targets = set()
        for fb in prog.family(b.root):
            fam_targets |= {c.target for (_, c, _) in fb.calls()}
        reqs.append((b, bool(fam_targets & count_fns)))
    ctx.floor("A2", "server decode paths deciding whether identity is required", 1, len(reqs))
    for (b, ok) in reqs:
        ctx.ob("A2", b.defp, "identity-required-iff-supported-and-users", loc(b.sp), ok, "require_eih = support_eih() && user_count() > 0" if ok else "identity requirement no longer depends on the user table")
    # reply encoder key derives from the stored user
    for b in bodies:
        if tymatch((b.impl_self_def or ""), "codec::shadowsocks::tcp::AEADCipherCodec") and b.method == "init_payload_encoder" and b.root == b.defp:
            encs = [(blk, c, t) for (blk, c, t) in b.calls() if c.target.endswith("aead_2022::new_encoder")]
            ctx.floor("A2", "2022 reply encoder constructions", 2, len(encs))
            n_user = 0
            for (blk, c, t) in encs:
                p = op_place(t["args"][1])
                locs, _, _ = b.slice_back([p[0]]) if p else (set(), 0, 0)
                if any(is_user_local(b, l) for l in locs):
                    n_user += 1
            ctx.ob("A2", b.defp, "reply-key-from-session-user", loc(b.sp), n_user >= 1, "a reply encoder is keyed by the session's authenticated user" if n_user else "no reply encoder is keyed by the authenticated user")
    for b0 in bodies:
        if tymatch((b0.impl_self_def or ""), "codec::shadowsocks::udp::AEADCipherCodec") and b0.method == "encode_server_packet_aead_2022" and b0.root == b0.defp:
            b = prog.flat(b0.defp)
            ok = False
            for (blk, c, t) in b.calls():
                if c.target.endswith("aes_encrypt_in_place") or c.method == "get_cipher":
                    p = op_place(t["args"][1])
                    locs, _, _ = b.slice_back([p[0]]) if p else (set(), 0, 0)
                    if any(is_user_local(b, l) for l in locs):
                        ok = True
            ctx.ob("A2", b.defp, "udp-reply-key-from-session-user", loc(b.sp), ok, "datagram replies are sealed under session.user's key when present" if ok else "datagram replies ignore session.user")

    # ---------------- A3 who may construct ------------------------------------------------------------
    # role: a "server codec" is code reached from a server Decoder::decode impl; anywhere else a relay item may only be re-wrapped, i.e. its
    # operands derive from the payload of a relay item that was matched (in the same function or, for a helper, in every caller's flat view)
    codec_fns = set()
    for d in prog.methods_of_trait_impls("Decoder", "decode"):
        if d.defp.startswith("octo_squirrel_server"):
            codec_fns |= set(prog.flat(d.defp).origin)
            codec_fns |= {x.defp for x in prog.family(d.root)}
    variants = ("ConnectTcp", "RelayTcp", "RelayUdp")

    def rewraps(body, blk, stmt):
        for o in stmt["rv"]["ops"]:
            p = op_place(o)
            locs, _, _ = body.slice_back([p[0]]) if p else (set(), 0, 0)
            for l in locs:
                for d in body.defs().get(l, []):
                    if d[0] == "assign" and d[3]["rv"]["k"] in ("use", "ref"):
                        pp = op_place(d[3]["rv"]["op"]) if d[3]["rv"]["k"] == "use" else d[3]["rv"]["p"]
                        if pp and any(e[0] == "downcast" and e[1] in variants for e in pp[1]):
                            return True
        return False

    n = 0
    for b in bodies:
        for blk in b.rpo():
            for si, s in enumerate(b.stmts(blk)):
                if s["k"] == "assign" and s["rv"]["k"] == "agg" and s["rv"].get("def", "").endswith(RELAY_ENUM):
                    n += 1
                    in_codec = b.defp in codec_fns or b.root in codec_fns
                    rewrap = False
                    if not in_codec:
                        rewrap = rewraps(b, blk, s)
                        if not rewrap:
                            ctxs = prog.flat_contexts(b.defp)
                            found = []
                            for (fb, m) in ctxs:
                                for fblk in m.get(blk, []):
                                    st = fb.stmts(fblk)
                                    if si < len(st) and st[si]["k"] == "assign" and st[si]["rv"]["k"] == "agg":
                                        found.append(rewraps(fb, fblk, st[si]))
                            rewrap = bool(found) and all(found)
                    ok = in_codec or rewrap
                    ctx.ob("A3", b.defp, f"construct:{s['rv']['variant']}", loc(s["sp"]), ok, "constructed in a server codec" if in_codec else ("re-wraps a matched relay item" if rewrap else "relay item constructed outside the server codecs from something that is not a matched relay item"))
    ctx.floor("A3", "relay item constructor sites", 8, n)
    # ---------------- A4 a cached datagram cipher is only reused under the key it was built from (C12 N4, shared verdict) -----------
    # two servers / users with different keys share the process-wide cipher cache: if the cache key does not identify the key bytes, a
    # datagram sealed under one key is opened (and relayed) by an entry that was created for another
    from ..engine import Ctx
    from . import c12
    sub = Ctx(prog, "C12", ctx.tier)
    c12.run(sub)
    n4 = 0
    for o in sub.obs:
        if o.rule == "N4":
            n4 += 1
            parts = o.key.split("|")
            ctx.ob("A4", parts[1], parts[2], o.where, o.ok or o.verdict == "reviewed-safe", o.detail)
    ctx.floor("A4", "datagram cipher cache key obligations (imported from C12 N4)", 1, n4)


def a5_credentials_not_process_wide(ctx):
    """A5: what a listener accepts is decided by ITS configuration entry. A single process-wide slot (a static that is not a keyed table)
    filled from one entry's configuration hands that entry's credentials to every other listener of the process."""
    from .common import single_slot_static_fills
    fills = single_slot_static_fills(ctx.prog)
    for (it, b, t, reason) in fills:
        ctx.ob("A5", b.defp, f"credential-state-is-per-listener:{last_seg(it['path'])}", loc(t["sp"]), reason is None,
               reason or f"static {last_seg(it['path'])} is filled with a value that has no run-time input")
    ctx.ob("A5", "workspace", "single-slot-statics-inventoried", "-", True, f"{len(fills)} fill site(s) of single-slot statics", nontrivial=False, ordinal=False)


def a6_reply_path_is_the_owners(ctx):
    """A6: answers on a user's association go to the address recorded for it, not to whoever sent the most recent datagram naming its session id (C02 U3 re-evaluated: the reply path is part of "attributed under another user")"""
    from ..engine import Ctx
    from . import c02
    sub = Ctx(ctx.prog, "C02", ctx.tier)
    c02.run(sub)
    n = 0
    for o in sub.obs:
        if o.rule == "U3" and ("reply" in o.key or "association-address" in o.key):
            n += 1
            parts = o.key.split("|")
            ctx.ob("A6", parts[1], parts[2], o.where, o.ok, o.detail)
    ctx.floor("A6", "association reply-path obligations (U3)", 2, n)


def a1p_no_prefilled_key_tables(ctx):
    """A1 (tables): a table of keys / credential hashes (`Vec<[u8; K]>`) holds nothing but derived credentials. A table created with constant
    entries (`vec![[0; K]; n]`) and then filled slot by slot keeps the constant in every slot that is skipped (a malformed entry, an early
    `continue`), and the all-zero key is a credential anybody can present."""
    prog = ctx.prog
    n = 0
    for b in prog.prod_bodies():
        if "::_" in b.defp:
            continue
        for (blk, c, t) in b.calls():
            if not c.target.endswith("vec::from_elem"):
                continue
            ety = " ".join(a.get("s", "") for a in c.args[:1])
            if not re.match(r"^\[u8; (16|28|32|N|\w+)\]$", ety.strip()):
                continue
            n += 1
            k_ = t["args"][1] if len(t["args"]) > 1 else None
            empty = k_ is not None and op_int(k_) == 0
            ctx.ob("A1", b.defp, "key-table-has-no-prefilled-entries", loc(t["sp"]), empty,
                   "empty table" if empty else
                   f"a table of {ety.strip()} keys is created pre-filled with a constant entry per slot: a slot that is not overwritten (an entry that fails to parse and is "
                   "skipped) stays a constant key, and a peer presenting that constant is authenticated as a registered user")
    ctx.ob("A1", "workspace", "key-tables-inventoried", "-", True, f"{n} pre-sized key table(s)", nontrivial=False, ordinal=False)
