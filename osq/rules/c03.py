"""C03 — wire format constants agree with the published specifications (DESIGN.md 4/C03)."""
import json
import os
import re

from ..mir import tymatch, Callee, last_seg, loc, op_const, op_int, op_place
from ..facts import VERIF

EXPLANATION = (
    "S1 labels, salts and hash choices are read at the resolved call sites where they enter a KDF / hash (blake3::derive_key contexts, "
    "HKDF info and hash type, VMess KDF path labels, the user-id salt, Sha224 for Trojan, Md5 for EVP_BytesToKey, Sha256 for VMess response "
    "keys, Shake128 masks, CRC-32/ISO-HDLC, FNV-1a constants) and compared with tables/spec-constants.json, which was written from the "
    "specifications. S2 sender limits: the maximum payload length the chunk encoders can emit (constructor constant minus tag and size "
    "overhead, as computed by the encoder) must respect 0x3FFF (legacy AEAD) / 0xFFFF (2022); padding bounds; protocol enum codes. "
    "S3 only big-endian integer accessors are called in codec/protocol code; the 2022 UDP AES nonce is bytes 4..16 of the header block. "
    "S4 the client and server VMess session views map encoder/decoder accessors to opposite request/response fields.")
ASSUMPTIONS = ["acceptance by an independent implementation and the field order of whole messages are not decided (needs a second implementation as oracle)"]


def body_consts(b, skip_expansion=True):
    out = []
    for blk in b.rpo():
        for s in b.stmts(blk):
            if s["k"] == "assign" and not (skip_expansion and s["sp"][3]):
                for op in b.operands_of_rvalue(s["rv"]):
                    c = op_const(op)
                    if c:
                        out.append((c, s["sp"]))
        t = b.term(blk)
        if t and t["k"] == "call" and not (skip_expansion and t["sp"][3]):
            for a in t["args"]:
                c = op_const(a)
                if c:
                    out.append((c, t["sp"]))
    return out


def str_of(c):
    if "str" in c:
        return c["str"]
    if "bytes" in c:
        return bytes(c["bytes"]).decode("latin1")
    return None


def arg_strs(b, t, i):
    """string/bytes constants from which argument i of the call may derive (direct or via temporaries)"""
    a = t["args"][i]
    c = op_const(a)
    if c is not None:
        s = str_of(c)
        return [s] if s is not None else []
    p = op_place(a)
    if p is None:
        return []
    _, _, consts = b.slice_back([p[0]], stop_call=lambda cc: True)
    return [str_of(c) for (_, c) in consts if str_of(c) is not None]


def s7_padding_and_payload_are_independent(ctx):
    """S7 (SIP022 3.1.3, request header): after the target address the variable-length header carries a padding length, the padding, and then
    whatever initial payload the client chose to send. Padding (0..=900 bytes) and initial payload are independent: a conforming client may
    send padding and payload, padding alone, or payload alone (only `neither` may be refused). The receiver's code after it has skipped the
    padding is evaluated for each of those three cases - the comparisons of the padding length with zero and the `is anything left` tests on
    the buffer behind the padding are the only inputs, so the case fixes every branch that looks at them - and an accepting return must stay
    reachable in each. (Bounds checks made *before* the skip are not part of the evaluation.)"""
    from .common import simulate_cfg, switch_target, returns_variant, accept_blocks
    prog = ctx.prog
    n = 0
    done_sites = set()
    for b0 in prog.prod_bodies():
        if b0.root != b0.defp or not b0.defp.startswith("octo_squirrel::codec::shadowsocks::tcp"):
            continue
        fb = prog.flat(b0.defp)
        if not any("Result<octo_squirrel::protocol::address::Address" in fb.local_ty(t["dest"][0]) or "Result<protocol::address::Address" in fb.local_ty(t["dest"][0]) for (_, c, t) in fb.calls()):
            continue
        flat_calls = list(fb.calls())
        fb_root = fb
        for (ablk, ac, at) in flat_calls:
            fb = fb_root
            if ac.name != "Buf::advance" or len(at["args"]) < 2 or op_place(at["args"][1]) is None:
                continue
            plocals, pcalls, _ = fb.slice_back([op_place(at["args"][1])[0]])
            reads = [(rb, rc, rt) for (rb, rc, rt) in pcalls if rc.name == "Buf::get_u16"]
            addr_before = any(("Address" in fb.local_ty(t["dest"][0]) and "Result<" in fb.local_ty(t["dest"][0])) and fb.can_reach(blk, ablk) for (blk, c, t) in fb.calls())
            if not reads or not addr_before or fb.origin[ablk] != fb.origin[reads[0][0]] and False:
                continue
            # the evaluation is made in the function the skip lives in (a flat view re-joins a helper's Ok and Err returns before the caller's `?`)
            ob = prog.body(fb.origin[ablk])
            twin = [(b2, c2, t2) for (b2, c2, t2) in ob.calls() if c2.name == "Buf::advance" and t2.get("sp") == at.get("sp")] if ob is not None else []
            if not twin or (ob.defp, str(at.get("sp"))) in done_sites:
                continue
            done_sites.add((ob.defp, str(at.get("sp"))))
            fb_flat, fb = fb, ob
            ablk, ac, at = twin[0]
            _, pcalls2, _ = fb.slice_back([op_place(at["args"][1])[0]])
            reads = [(rb, rc, rt) for (rb, rc, rt) in pcalls2 if rc.name == "Buf::get_u16"]
            if not reads:
                fb = fb_flat
                continue
            pad = {reads[0][2]["dest"][0]}
            grew = True
            while grew:          # copies and widening casts of the padding length
                grew = False
                for blk in fb.rpo():
                    for s_ in fb.stmts(blk):
                        if s_["k"] == "assign" and not s_["p"][1] and s_["rv"]["k"] in ("use", "cast") and s_["p"][0] not in pad:
                            q = op_place(s_["rv"]["op"])
                            if q is not None and not q[1] and q[0] in pad:
                                pad.add(s_["p"][0])
                                grew = True
            after = fb.reach_from(at["t"]) if at["t"] is not None else set()
            if not after:
                continue
            n += 1

            def val(l, case, depth=0):
                """value set of a local under the case (padding>0?, payload?): a set of representative integers, or None if it does not depend on the case alone"""
                a, pl = case
                if depth > 10:
                    return None
                if l in pad:
                    return {1, 900} if a else {0}
                ds = fb.defs().get(l, [])
                if len(ds) != 1:
                    return None
                d = ds[0]
                if d[0] == "call":
                    c_ = Callee(d[2]["f"])
                    if d[1] not in after:
                        return None
                    if c_.method == "has_remaining":
                        return {1} if pl else {0}
                    if c_.method == "is_empty":
                        return {0} if pl else {1}
                    if c_.method in ("remaining", "len") and ("Buf" in c_.name or "BytesMut" in (c_.self_s or "") or "Bytes" in (c_.self_s or "")):
                        return {1, 70000} if pl else {0}
                    return None
                rv = d[3]["rv"]
                if rv["k"] in ("use", "cast"):
                    q = op_place(rv["op"])
                    if q is not None and not q[1]:
                        return val(q[0], case, depth + 1)
                    k = op_int(rv["op"])
                    return {k} if k is not None else None
                if rv["k"] == "un" and rv["op"] == "Not":
                    q = op_place(rv["a"])
                    v = val(q[0], case, depth + 1) if q and not q[1] else None
                    return {1 - x for x in v} if v is not None and v <= {0, 1} else None
                if rv["k"] == "bin":
                    def side(o):
                        q = op_place(o)
                        if q is not None and not q[1]:
                            return val(q[0], case, depth + 1)
                        k = op_int(o)
                        return {k} if k is not None else None
                    va, vb = side(rv["a"]), side(rv["b"])
                    if va is None or vb is None:
                        return None
                    f = {"Eq": lambda x, y: int(x == y), "Ne": lambda x, y: int(x != y), "Lt": lambda x, y: int(x < y), "Le": lambda x, y: int(x <= y),
                         "Gt": lambda x, y: int(x > y), "Ge": lambda x, y: int(x >= y), "BitAnd": lambda x, y: x & y, "BitOr": lambda x, y: x | y, "BitXor": lambda x, y: x ^ y}.get(rv["op"])
                    if f is None:
                        return None
                    out = {f(x, y) for x in va for y in vb}
                    return out if len(out) == 1 else None
                return None
            rvs = returns_variant(fb)
            acc = {x for x, v in rvs.items() if v in ("Ok", "Some")} or set(fb.return_blocks())
            for case, label in (((1, 1), "padding and initial payload"), ((1, 0), "padding only"), ((0, 1), "initial payload only")):
                def decide(blk, t, case=case):
                    if blk not in after:
                        return None
                    p = op_place(t["d"])
                    if p is None or p[1]:
                        return None
                    v = val(p[0], case)
                    if v is None or len(v) != 1:
                        return None
                    return switch_target(t, next(iter(v)))
                seen = set()
                work = [at["t"]]
                while work:
                    x = work.pop()
                    if x in seen:
                        continue
                    seen.add(x)
                    t = fb.term(x)
                    if t and t["k"] == "switch":
                        forced = decide(x, t)
                        if forced is not None:
                            work.append(forced)
                            continue
                    work.extend(fb.succ(x))
                ok = bool(acc & seen) or not (acc & after)
                ctx.ob("S7", fb.defp, f"request-accepted-with:{label.replace(' ', '-')}", loc(at["sp"]), ok,
                       f"a request header with {label} can reach the accepting return" if ok else
                       f"once the padding is skipped, no accepting return is reachable for a request header with {label}: the receiver refuses a request the specification allows "
                       "(padding and initial payload are independent; only a header with neither may be refused), so a conforming peer that pads requests which carry payload is locked out")
    ctx.floor("S7", "request-header decoders that skip padding behind the target address", 1, n)


def s8_timestamp_tolerance_is_two_sided(ctx):
    """S8: SIP022 accepts a message whose timestamp differs from the receiver's clock by at most 30 seconds *in either direction*; a receiver that
    only tolerates stamps from the past refuses every conforming peer whose clock runs slightly ahead. C10's V1a window obligations for the
    Shadowsocks-2022 window function re-evaluated (accept set = |now - ts| <= 30, symmetric)."""
    from ..engine import Ctx
    from . import c10
    sub = Ctx(ctx.prog, "C10", ctx.tier)
    c10.run(sub)
    n = 0
    for o in sub.obs:
        if o.rule == "V1a" and "|ss2022:" in o.key and ("window" in o.key):
            n += 1
            parts = o.key.split("|")
            ctx.ob("S8", parts[1], parts[2], o.where, o.ok, o.detail)
    ctx.floor("S8", "2022 timestamp window obligations (C10 V1a)", 1, n)


def run(ctx):
    s7_padding_and_payload_are_independent(ctx)
    s8_timestamp_tolerance_is_two_sided(ctx)
    prog = ctx.prog
    spec = json.load(open(os.path.join(VERIF, "tables", "spec-constants.json")))
    bodies = [b for b in prog.prod_bodies() if "::_" not in b.defp]

    # ---------------- S1a blake3 contexts -----------------------------------------------------
    sites = prog.callers_of(lambda c: c.target.startswith("blake3::derive_key") or c.path == "blake3::derive_key")
    ctx.floor("S1", "blake3::derive_key call sites", 2, len(sites))
    seen = {}
    for (b, blk, c, t) in sites:
        strs = arg_strs(b, t, 0)
        ok = len(strs) == 1 and strs[0] in spec["blake3_contexts"]
        ctx.ob("S1", b.defp, "blake3-context", loc(t["sp"]), ok, f"derive_key context {strs} must be one of {sorted(spec['blake3_contexts'])}")
        for s in strs:
            seen[s] = seen.get(s, 0) + 1
    for lab, n in spec["blake3_contexts"].items():
        ctx.ob("S1", "workspace", f"blake3-context-used:{lab}", "-", seen.get(lab, 0) >= 1, f"context {lab!r} used at {seen.get(lab, 0)} call site(s) (a shared helper counts once)", ordinal=False)
    # S5 the identity-header chain: header i is sealed under the subkey of iPSK i; the last header (the one that carries the user key's
    # hash) under the subkey of the *last* iPSK. A subkey taken from the first element of the key chain for the closing header is wrong
    # for every chain longer than one key (and byte-identical for a single iPSK).
    eih = [b for b in bodies if b.root == b.defp and any("[[u8; N]]" in b.local_ty(i) or "[[u8;" in b.local_ty(i) for i in range(1, b.argc + 1))
           and "BytesMut" in " ".join(b.local_ty(i) for i in range(1, b.argc + 1))
           and any(c.target.startswith("blake3::derive_key") or c.path == "blake3::derive_key" for (_, c, _) in prog.flat(b.defp).calls())]
    ctx.floor("S5", "identity-header chain builders", 1, len(eih))
    for b in eih:
        fb = prog.flat(b.defp)
        firsts = [(blk, c, t) for (blk, c, t) in fb.calls() if c.method in ("first", "first_chunk") or (c.method == "get" and t["args"][1:] and op_int(t["args"][1]) == 0)]
        bad = []
        for (blk, c, t) in firsts:
            rp = op_place(t["args"][0])
            if rp is None or not any("[[u8;" in fb.local_ty(l) for l in fb.slice_back([rp[0]])[0]):
                continue
            fwd, fcalls, _ = fb.slice_fwd([t["dest"][0]])
            if any(cc.target.startswith("blake3::derive_key") or cc.path == "blake3::derive_key" for (_, cc, _, _) in fcalls):
                bad.append(loc(t["sp"]))
        ctx.ob("S5", b.defp, "closing-identity-header-under-last-ipsk", loc(b.sp), not bad,
               "no identity subkey is derived from the first element of the key chain" if not bad else
               f"an identity subkey is derived from the *first* key of the chain ({bad}): the closing identity header must be sealed under the subkey of the last iPSK; "
               "with a chain of two or more iPSKs the last relay cannot open its header", ordinal=False)
    # session subkey material = key || salt ; identity subkey = key || salt : the material must be a concat of two slices
    # ---------------- S1b HKDF ---------------------------------------------------------------
    sites = prog.callers_of(lambda c: c.method == "expand" and "hkdf" in c.target)
    ctx.floor("S1", "HKDF expand call sites", 1, len(sites))
    for (b, blk, c, t) in sites:
        strs = arg_strs(b, t, 1)
        ctx.ob("S1", b.defp, "hkdf-info", loc(t["sp"]), strs == [spec["hkdf_info"]], f"HKDF info {strs}, spec {spec['hkdf_info']!r}")
        hty = " ".join(a.get("s", "") for a in c.args)
        ctx.ob("S1", b.defp, "hkdf-hash", loc(t["sp"]), "Sha1Core" in hty or "sha1::Sha1" in hty, f"HKDF instantiated with {hty[:90]} (spec: HKDF-SHA1)")
    # ---------------- S1c VMess labels -------------------------------------------------------
    uses = {}
    for b in bodies:
        if b.kind in ("Const",):
            continue
        for (c, sp) in body_consts(b):
            s = str_of(c)
            if s is not None:
                uses.setdefault(s, set()).add(b.defp)
    for lab, n in spec["vmess_labels"].items():
        got = len(uses.get(lab, ()))
        ctx.ob("S1", "workspace", f"vmess-label:{lab}", "-", got >= n, f"label {lab!r} is used by {got} function(s); specification needs it in >= {n}", ordinal=False)
    # every KDF path element that is a constant must be a spec label
    kdf_sites = prog.callers_of(lambda c: re.search(r"vmess::aead::kdf::kdf(16|n)?$", c.target) is not None)
    ctx.floor("S1", "VMess KDF call sites", 16, len(kdf_sites))
    for (b, blk, c, t) in kdf_sites:
        if len(t["args"]) < 2 or b.defp.endswith("kdf::kdf16") or b.defp.endswith("kdf::kdfn"):
            continue
        strs = [s for s in arg_strs_deep(b, t, 1) if len(s) >= 4]
        bad = [s for s in strs if s not in spec["vmess_labels"]]
        ctx.ob("S1", b.defp, "kdf-path-labels", loc(t["sp"]), bool(strs) and not bad, f"KDF path constants {strs}" + (f"; not in the specification: {bad}" if bad else ""))
    # sibling pairs use the same label sequences
    for (fa, fb) in (("encrypt::seal_header", "encrypt::open_header"),):
        A = [b for b in bodies if b.defp.endswith(fa)]
        B = [b for b in bodies if b.defp.endswith(fb)]
        if A and B:
            sa = [str_of(c) for (c, _) in body_consts(A[0]) if str_of(c) in spec["vmess_labels"]]
            sb = [str_of(c) for (c, _) in body_consts(B[0]) if str_of(c) in spec["vmess_labels"]]
            ctx.ob("S1", A[0].defp, "seal/open-label-agreement", loc(A[0].sp), sa == sb and len(sa) == 4, f"seal uses {sa}; open uses {sb}", ordinal=False)
    # ---------------- S1d hash choices ---------------------------------------------------------
    def uses_type(b, frag):
        return any(frag in b.local_ty(i) for i in range(len(b.locals))) or any(frag in (a.get("s", "")) for (_, c, _) in b.calls() for a in c.args) \
            or any(frag in c.self_s for (_, c, _) in b.calls())

    trojan = [b for b in bodies if ("trojan" in b.defp) and uses_type(b, "Sha224")]
    ctx.floor("S1", "Trojan key derivations using SHA-224", 3, len(trojan))
    for b in bodies:
        if "trojan" in b.defp and any(c.name in ("Digest::finalize",) for (_, c, _) in b.calls()):
            ctx.ob("S1", b.defp, "trojan-sha224", loc(b.sp), uses_type(b, "Sha224"), "Trojan credential hash is SHA-224")
            if "client" in b.defp:
                hexed = any(c.target.endswith("util::hex::encode") for (_, c, _) in b.calls())
                ctx.ob("S1", b.defp, "trojan-hex", loc(b.sp), hexed, "client sends hex(SHA-224(password))")
    evp = [b for b in bodies if b.defp.endswith("openssl_bytes_to_key")]
    ctx.floor("S1", "EVP_BytesToKey implementation", 1, len(evp))
    for b in evp:
        ctx.ob("S1", b.defp, "evp-md5", loc(b.sp), uses_type(b, "Md5"), "EVP_BytesToKey uses MD5")
    for b in bodies:
        strs = {str_of(c) for (c, _) in body_consts(b)}
        if "c48619fe-8f02-49e0-b9e9-edf763e17e21" in strs:
            ctx.ob("S1", b.defp, "vmess-id-md5", loc(b.sp), uses_type(b, "Md5"), "VMess cmd key = MD5(uuid || salt)")
    sess = [b for b in bodies if "vmess::session" in b.defp and b.defp.endswith("::init")]
    for b in sess:
        ctx.ob("S1", b.defp, "vmess-resp-sha256", loc(b.sp), uses_type(b, "Sha256"), "response key/iv = SHA-256(request key/iv)[..16]")
    shake = [b for b in bodies if "ShakeSizeParser" in (b.impl_self_def or "") and b.method == "new"]
    ctx.floor("S1", "Shake mask constructors", 1, len(shake))
    for b in shake:
        ctx.ob("S1", b.defp, "vmess-shake128", loc(b.sp), uses_type(b, "Shake128"), "chunk masks come from SHAKE-128")
    crc = [b for b in bodies if any((c.get("item") or "").endswith("CRC_32_ISO_HDLC") for (c, _) in body_consts(b, False))]
    ctx.ob("S1", "workspace", "vmess-crc32-iso-hdlc", "-", len(crc) >= 1, f"CRC-32/ISO-HDLC referenced by {len(crc)} function(s)", ordinal=False)
    fnv = [b for b in bodies if b.defp.endswith("fnv1a32")]
    ctx.floor("S1", "FNV-1a implementation", 1, len(fnv))
    for b in fnv:
        ints = {c.get("int") for (c, _) in body_consts(b, False)}
        ok = spec["fnv1a32"]["offset"] in ints and spec["fnv1a32"]["prime"] in ints
        ctx.ob("S1", b.defp, "fnv-constants", loc(b.sp), ok, f"FNV-1a offset/prime present: {ok}")
        xor_first = _xor_before_mul(b)
        ctx.ob("S1", b.defp, "fnv-1a-order", loc(b.sp), xor_first, "hash ^= byte precedes hash *= prime (FNV-1a, not FNV-1)")

    # ---------------- S2 numeric limits --------------------------------------------------------
    enc = []
    for b in bodies:
        for (blk, c, t) in b.calls():
            if c.name == "ChunkEncoder::new" and "shadowsocks" in c.target:
                enc.append((b, blk, c, t))
    ctx.floor("S2", "Shadowsocks chunk-encoder constructions", 2, len(enc))
    shape_ok = _encoder_limit_shape(prog)
    ctx.ob("S2", "octo_squirrel::codec::shadowsocks::ChunkEncoder::encode_payload", "limit-shape", "-", shape_ok,
           "chunk length = min(remaining, payload_limit - tag - size_bytes) and that length is what is written", ordinal=False)
    for (b, blk, c, t) in enc:
        k = op_int(t["args"][0])
        if k is None:
            k = _eval_int_arg(prog, b, blk, 0)
        if k is None:
            ctx.ob("S2", b.defp, "chunk-limit-constant", loc(t["sp"]), False, "payload limit does not evaluate to a constant")
            continue
        tag, size_bytes = 16, 2 + 16
        maxlen = k - tag - size_bytes
        is2022 = "aead_2022" in b.defp
        limit = spec["ss2022_max_payload"] if is2022 else spec["legacy_max_payload"]
        ctx.ob("S2", b.defp, "max-chunk-payload", loc(t["sp"]), maxlen <= limit,
               f"encoder may emit payload chunks of up to {k} - {tag} - {size_bytes} = {maxlen} bytes; the specification allows at most {limit} (0x{limit:X})")
    s6_length_read_exactly(ctx, bodies)
    # first-chunk length in the 2022 header
    for b in bodies:
        if b.defp.endswith("aead_2022::tcp::new_header"):
            mins = [op_int(t["args"][1]) for (_, c, t) in b.calls() if c.name == "Ord::min" and len(t["args"]) == 2]
            ctx.ob("S2", b.defp, "first-chunk-limit", loc(b.sp), mins == [0xFFFF], f"first payload chunk is limited to {mins}")
    for it in prog.items:
        if it["k"] == "const" and it["path"].endswith("aead_2022::MAX_PADDING_LENGTH"):
            ctx.ob("S2", it["path"], "max-padding", loc(it["sp"]), it.get("int") == spec["ss2022_max_padding"], f"MAX_PADDING_LENGTH = {it.get('int')}, spec {spec['ss2022_max_padding']}", ordinal=False)
    for path, table in spec["enums"].items():
        its = prog.item("enum", path)
        if not its:
            ctx.anchor_lost("S2", f"enum {path}")
            continue
        got = {v["name"]: v["discr"] for v in its[0]["variants"]}
        for name, val in table.items():
            ctx.ob("S2", its[0]["path"], f"code:{name}", loc(its[0]["sp"]), got.get(name) == val, f"{last_seg(path)}::{name} = {got.get(name)}, specification {val}", ordinal=False)
    for path, val in spec["int_consts"].items():
        its = [it for it in prog.items if it["k"] == "const" and it["path"].endswith(path)]
        if not its:
            ctx.anchor_lost("S2", f"const {path}")
            continue
        ctx.ob("S2", its[0]["path"], "value", loc(its[0]["sp"]), its[0].get("int") == val, f"{path} = {its[0].get('int')}, specification {val}", ordinal=False)
    # VMess security nibble mapping From<u8>
    for b in bodies:
        if tymatch((b.impl_self_def or ""), "header::SecurityType") and b.method == "from" and "u8" in b.local_ty(1):
            tab = {}
            for blk in b.rpo():
                t = b.term(blk)
                if t and t["k"] == "switch":
                    for v, tgt in t["arms"]:
                        for s in _stmts_until_join(b, tgt):
                            if s["k"] == "assign" and s["p"][0] == 0 and s["rv"]["k"] == "agg":
                                tab[v] = s["rv"]["variant"]
                    break
            ok = tab.get(3) == "Aes128Gcm" and tab.get(4) == "Chacha20Poly1305"
            ctx.ob("S2", b.defp, "security-code-table", loc(b.sp), ok, f"wire code -> security: {tab}")

    # ---------------- S3 byte order --------------------------------------------------------------
    le = re.compile(r"(_le|_ne)$|^(to|from)_(le|ne)(_bytes)?$|^swap_bytes$")
    n_be = 0
    for b in bodies:
        if not any(k in b.defp for k in ("::codec", "::protocol", "client::shadowsocks", "client::vmess", "client::trojan", "server::shadowsocks", "server::vmess", "server::trojan", "::util")):
            continue
        for (blk, c, t) in b.calls():
            m = c.method or ""
            if re.search(r"^(get|put)_[ui](16|32|64|128)", m) or m in ("to_be_bytes", "from_be_bytes", "from_be", "to_be"):
                n_be += 1
            if le.search(m) and ("bytes::buf" in c.target or "core::num" in c.target):
                ctx.ob("S3", b.defp, f"little-endian:{m}", loc(t["sp"]), False, f"{c.name} in wire-format code: every multi-byte integer of these protocols is big-endian")
    ctx.floor("S3", "big-endian integer accessors in codec/protocol code", 40, n_be)
    ctx.ob("S3", "workspace", "only-big-endian-accessors", "-", True, f"{n_be} big-endian accessor calls inspected", nontrivial=False, ordinal=False)
    # 2022 UDP AES nonce = header[4..16]
    n_nonce = 0
    for b0 in bodies:
        if "shadowsocks::udp" not in b0.defp or "aead_2022" not in b0.defp or b0.root != b0.defp:
            continue
        b = prog.flat(b0.defp)        # a helper that cuts the nonce out of the header is judged where it is used
        for (blk, c, t) in b.calls():
            if c.name not in ("Index::index",) or len(t["args"]) < 2:
                continue
            p = op_place(t["args"][1])
            if p is None:
                continue
            rng = None
            for d in b.defs().get(p[0], []):
                if d[0] == "assign" and d[3]["rv"]["k"] == "agg" and d[3]["rv"].get("def", "").endswith("ops::range::Range"):
                    rng = [op_int(o) for o in d[3]["rv"]["ops"]]
            if rng and rng[1] == 16:
                n_nonce += 1
                ctx.ob("S3", b.defp, "udp-aes-nonce-slice", loc(t["sp"]), rng == [4, 16], f"nonce = header[{rng[0]}..{rng[1]}], specification: last 12 bytes of (session id || packet id) = [4..16]")
    ctx.floor("S3", "2022 UDP AES nonce slices", 4, n_nonce)
    # increasing nonce little-endian: loop index starts at 0 (Range{0, len})
    for b in bodies:
        if (b.impl_self_def or "") in _inc_gen_types(prog) and b.root == b.defp and b.argc == 1 and b.local_ty(1).startswith("&mut") and "[u8]" in b.local_ty(0):
            starts = []
            for blk in b.rpo():
                for s in b.stmts(blk):
                    if s["k"] == "assign" and s["rv"]["k"] == "agg" and s["rv"].get("def", "").endswith("ops::range::Range"):
                        starts.append(op_int(s["rv"]["ops"][0]))
            names = [c.name for (_, c, _) in b.calls()]
            fwd_iter = any(n.endswith("::iter_mut") or n.endswith("::iter") or n == "IntoIterator::into_iter" for n in names) and not any(n.endswith("::rev") or n == "Iterator::rev" or n.endswith("next_back") for n in names)
            ok = starts == [0] or (not starts and fwd_iter)
            ctx.ob("S3", b.defp, "counter-little-endian", loc(b.sp), ok,
                   f"carry loop starts at index {starts} (SIP004: little-endian counter)" if starts else ("carry loop walks the counter bytes front to back (little-endian)" if ok else "carry loop does not start at the least significant (first) byte"))
        if (b.impl_self_def or "") in _inc_gen_types(prog) and b.root == b.defp and b.argc == 0 and last_seg(b.impl_self_def) in b.local_ty(0):
            ints = [c.get("int") for (c, _) in body_consts(b, False)]
            ctx.ob("S3", b.defp, "counter-starts-before-zero", loc(b.sp), 255 in ints or any((c.get("item") or "").endswith("MAX") for (c, _) in body_consts(b, False)), "initial state 0xFF.. so the first generated nonce is 0")

    # an integer chunk counter (VMess: `count(uint16)` in front of the IV bytes) wraps modulo its width, as every other implementation's does:
    # a generator that saturates or refuses at the maximum puts different nonces on the wire from chunk 65536 on
    from .common import aead_roles
    _, gen_types = aead_roles(prog)
    n_cnt = 0
    for b in bodies:
        if (b.impl_self_def or "") not in gen_types or b.root != b.defp or b.argc < 1:
            continue
        it_ = [it for it in prog.items if it["k"] == "struct" and it["path"] == b.impl_self_def]
        cnt_fields = [fn for (fn, fty) in (it_[0]["fields"] if it_ else []) if fty.strip() in ("u16", "u32", "u64")]
        if not cnt_fields:
            continue
        writes = [(blk, s_) for blk in b.rpo() for s_ in b.stmts(blk) if s_["k"] == "assign" and any(e[0] == "field" and len(e) > 2 and e[2] in cnt_fields for e in s_["p"][1])]
        if not writes:
            continue
        n_cnt += 1
        steps = [c.method for (_, c, _) in b.calls() if c.method in ("overflowing_add", "wrapping_add", "saturating_add", "checked_add", "strict_add", "unchecked_add")]
        plain = [1 for blk in b.rpo() for s_ in b.stmts(blk) if s_["k"] == "assign" and s_["rv"]["k"] == "bin" and s_["rv"]["op"] == "AddWithOverflow"]
        ok = bool(steps) and all(m in ("overflowing_add", "wrapping_add") for m in steps) and not plain
        ctx.ob("S3", b.defp, "chunk-counter-wraps", loc(b.sp), ok,
               f"the {'/'.join(cnt_fields)} counter advances with {steps or 'wrapping arithmetic'} (wraps at its width)" if ok else
               f"the {'/'.join(cnt_fields)} counter advances with {steps or 'a checked `+`'}: at the maximum it sticks / fails instead of wrapping to 0 as the specification's "
               "uint16 counter does — from that chunk on a conforming peer derives a different nonce and every chunk fails authentication, in both directions")
    ctx.floor("S3", "integer chunk counters of nonce generators", 1, n_cnt)

    # one SHAKE stream per direction: V2Ray's ShakeSizeParser draws the padding length and the length mask of every chunk alternately from ONE
    # reader seeded with the body IV. Two readers (one for the masker, one for the padding generator) both start at offset 0 and produce a
    # different mask sequence from the first chunk on — self-consistent, but no other implementation can follow it.
    shake_types = {b.impl_self_def for b in bodies if b.impl_self_def and any(c.name == "XofReader::read" for (_, c, _) in b.calls())}
    users = {}
    for b in bodies:
        if not b.impl_self_def or b.impl_self_def in shake_types or b.root != b.defp:
            continue
        for (blk, c, t) in b.calls():
            if (c.self_def or "") in shake_types and c.method != "new" and t["args"]:
                rp = op_place(t["args"][0])
                if rp is None:
                    continue
                chains = set()
                for l in b.slice_back([rp[0]], stop_call=lambda cc: True)[0] | {rp[0]}:
                    for d in b.defs().get(l, []):
                        if d[0] == "assign" and d[3]["rv"]["k"] == "ref" and d[3]["rv"]["p"][0] == 1:
                            chains.add(tuple(str(e[2] if e[0] == "field" and len(e) > 2 else e[1]) for e in d[3]["rv"]["p"][1] if e[0] in ("field", "downcast")))
                for ch in chains:
                    users.setdefault(b.impl_self_def, {}).setdefault(ch, []).append((b, t))
    ctx.floor("S3", "codec types drawing from a SHAKE reader", 1, len(users))
    for ty_, chs in sorted(users.items()):
        ok = len(chs) == 1
        (b0, t0) = sorted(chs.items())[0][1][0]
        ctx.ob("S3", ty_, "one-shake-stream-for-mask-and-padding", loc(t0["sp"]), ok,
               f"every draw (padding length, length mask) goes through the one reader at self.{'.'.join(sorted(chs)[0])}" if ok else
               f"draws go through {len(chs)} different readers ({', '.join('self.' + '.'.join(c) for c in sorted(chs))}): the specification's single SHAKE stream, drawn alternately "
               "for padding length and length mask, is replaced by independent streams that both start at offset 0 — masked lengths differ from a conforming peer's from chunk 0 on", ordinal=False)

    # ---------------- S4 session sibling agreement ----------------------------------------------
    maps = {}
    for b in bodies:
        if b.impl_trait and last_seg(b.impl_trait) == "Session" and "vmess::session" in b.defp and b.root == b.defp:
            side = last_seg(b.impl_self_def or "")
            fld = _returned_field(b)
            maps.setdefault(side, {})[b.method] = fld
    ctx.floor("S4", "VMess Session impls", 2, len(maps))
    if len(maps) == 2 and "ClientSession" in maps and "ServerSession" in maps:
        cl, sv = maps["ClientSession"], maps["ServerSession"]
        pairs = [("encoder_key", "decoder_key"), ("encoder_nonce", "decoder_nonce"), ("encoder_nonce_mut", "decoder_nonce_mut"),
                 ("decoder_key", "encoder_key"), ("decoder_nonce", "encoder_nonce"), ("decoder_nonce_mut", "encoder_nonce_mut"),
                 ("chunk_key", "chunk_key"), ("chunk_nonce", "chunk_nonce")]
        for a, b_ in pairs:
            ok = cl.get(a) is not None and cl.get(a) == sv.get(b_)
            ctx.ob("S4", "octo_squirrel::protocol::vmess::session", f"client.{a}==server.{b_}", "octo-squirrel/src/protocol/vmess/session.rs", ok, f"client.{a} -> {cl.get(a)}; server.{b_} -> {sv.get(b_)}", ordinal=False)
        for side, m in maps.items():
            ok = m.get("encoder_key") != m.get("decoder_key") and m.get("encoder_nonce") != m.get("decoder_nonce")
            ctx.ob("S4", "octo_squirrel::protocol::vmess::session", f"{side}:directions-use-distinct-keys", "octo-squirrel/src/protocol/vmess/session.rs", ok, f"{side}: {m}", ordinal=False)
        ok = cl.get("encoder_key") == "request_body_key" and cl.get("encoder_nonce") == "request_body_iv" and cl.get("chunk_key") == "request_body_key"
        ctx.ob("S4", "octo_squirrel::protocol::vmess::session", "client-encodes-with-request-key", "octo-squirrel/src/protocol/vmess/session.rs", ok, f"client map {cl}", ordinal=False)


def _eval_int_arg(prog, b, blk, i):
    """constant value of an integer call argument, evaluated with the buffer-length interpreter (constant functions such as
    tag_size() / size_bytes() are folded)"""
    from .. import bla
    an = bla.Analysis(prog)
    found = {}
    orig = an.exec_call

    def spy(body, bk, t, st, ctx, depth):
        if body is b and bk == blk:
            v = an.eval_op(st, body, t["args"][i])
            if v is not None and v.is_const():
                found["v"] = v.c
        return orig(body, bk, t, st, ctx, depth)

    an.exec_call = spy
    an.analyse_entry(b)
    return found.get("v")


def arg_strs_deep(b, t, i):
    p = op_place(t["args"][i])
    if p is None:
        return []
    _, _, consts = b.slice_back([p[0]])
    out = []
    for (_, c) in consts:
        s = str_of(c)
        if s is not None and s not in out:
            out.append(s)
    return out


def _returned_field(b):
    """name of the `self` field a one-line accessor returns a reference to"""
    locs, _, _ = b.slice_back([0])
    for l in list(locs) + [0]:
        for d in b.defs().get(l, []):
            if d[0] == "assign" and d[3]["rv"]["k"] == "ref":
                p = d[3]["rv"]["p"]
                if p[0] == 1:
                    f = [e[2] for e in p[1] if e[0] == "field"]
                    if f:
                        return f[0]
    return None


def _stmts_until_join(b, blk):
    out = []
    seen = set()
    while blk not in seen:
        seen.add(blk)
        out += b.stmts(blk)
        s = b.succ(blk)
        if len(s) != 1:
            break
        blk = s[0]
    return out


def _xor_before_mul(b):
    # in the loop body: BitXor assignment block index order precedes wrapping_mul call
    xor_blk = mul_blk = None
    order = {blk: i for i, blk in enumerate(b.rpo())}
    for blk in b.rpo():
        for s in b.stmts(blk):
            if s["k"] == "assign" and s["rv"]["k"] == "bin" and s["rv"]["op"] == "BitXor":
                xor_blk = blk
        t = b.term(blk)
        if t and t["k"] == "call" and Callee(t["f"]).method == "wrapping_mul":
            mul_blk = blk
    return xor_blk is not None and mul_blk is not None and order[xor_blk] <= order[mul_blk] and b.dominates(xor_blk, mul_blk)


def _inc_gen_types(prog):
    """the increasing (Shadowsocks) nonce generator type, by role: the generator type whose step takes no buffer (`fn(&mut self) -> &[u8]`)"""
    c = prog.__dict__.get("_inc_gen")
    if c is None:
        from .common import aead_roles
        _, gens = aead_roles(prog)
        c = set()
        for b in prog.prod_bodies():
            if (b.impl_self_def or "") in gens and b.root == b.defp and b.argc == 1 and b.local_ty(1).startswith("&mut") and "[u8]" in b.local_ty(0):
                c.add(b.impl_self_def)
        prog._inc_gen = c
    return c


def _encoder_limit_shape(prog):
    """the chunk encoder (the type built by the `enc` constructor calls) has a method that bounds the chunk with
    `min(remaining, <limit field> - a - b)` and hands that length on to the chunk writer. Identified by shape, not by method / field names."""
    ctor_types = set()
    for b in prog.prod_bodies():
        for (blk, c, t) in b.calls():
            if c.name == "ChunkEncoder::new" and "shadowsocks" in c.target:
                ctor_types.add(c.self_def)
    for b in prog.prod_bodies():
        if b.impl_self_def not in ctor_types or b.root != b.defp:
            continue
        mins = [(blk, c, t) for (blk, c, t) in b.calls() if c.name == "Ord::min"]
        if len(mins) != 1:
            continue
        (blk, c, t) = mins[0]
        ok_arg = False
        for a in t["args"]:
            p = op_place(a)
            if p is None:
                continue
            locs, calls, _ = b.slice_back([p[0]])
            subs = 0
            from_field = False
            for l in locs:
                for d in b.defs().get(l, []):
                    if d[0] == "assign":
                        rv = d[3]["rv"]
                        if rv["k"] == "bin" and rv["op"].startswith("Sub"):
                            subs += 1
                        if rv["k"] == "use":
                            pp = op_place(rv["op"])
                            if pp and pp[0] == 1 and any(e[0] == "field" for e in pp[1]) and b.local_ty(d[3]["p"][0]) == "usize":
                                from_field = True
            size_calls = [cc for (_, cc, _) in calls if cc.target.startswith("octo_squirrel")]
            if subs == 2 and from_field and len(size_calls) >= 2:
                ok_arg = True
        fwd, fcalls, _ = b.slice_fwd([t["dest"][0]])
        to_chunk = any(cc.target.startswith("octo_squirrel") for (_, cc, _, i) in fcalls)
        if ok_arg and to_chunk:
            return True
    return False


LEN_READS = ("Buf::get_u16", "Buf::get_u16_le", "u16::from_be_bytes")


def s6_length_read_exactly(ctx, bodies):
    """S6: receivers take a chunk's length field at face value. In the authenticators (the structs that own the AEAD primitive and its nonce
    generator) the value read from the opened length field reaches the function's result through casts and additions only: a mask, modulo,
    shift or clamp applied on every path shortens chunks that a conforming sender may emit (Shadowsocks 2022: 0..=0xFFFF, VMess: 16 bits)."""
    from .common import aead_roles
    prog = ctx.prog
    auths, _ = aead_roles(prog)
    n = 0
    for b in bodies:
        if (b.impl_self_def or "") not in auths or b.root != b.defp:
            continue
        reads = [(blk, c, t) for (blk, c, t) in b.calls() if c.name in LEN_READS]
        if not reads:
            continue
        # which 2022 constructors build this authenticator (a legacy-only authenticator may mask the two reserved SIP004 bits)
        a_path = b.impl_self_def
        used_2022 = _built_next_to(prog, a_path, lambda c: c.target.startswith("blake3::derive_key") or c.path == "blake3::derive_key")
        rets = b.return_blocks()
        for (blk, c, t) in reads:
            n += 1
            fwd, _, _ = b.slice_fwd([t["dest"][0]])
            bad = []
            for blk2 in b.rpo():
                for s in b.stmts(blk2):
                    if s["k"] != "assign" or s["rv"]["k"] not in ("bin", "checked_bin") or s["p"][0] not in fwd:
                        continue
                    op = s["rv"]["op"].replace("WithOverflow", "")
                    if op in ("Add",):
                        continue
                    if not any(op_place(o) and op_place(o)[0] in fwd for o in b.operands_of_rvalue(s["rv"])):
                        continue
                    k = [op_int(o) for o in b.operands_of_rvalue(s["rv"]) if op_int(o) is not None]
                    if not k:
                        continue        # combined with a run-time value (a per-protocol mask kept in the authenticator, a tag size): not decided here
                    if op == "BitAnd" and k and k[0] >= 0xFFFF:
                        continue
                    if op == "BitAnd" and k and k[0] == 0x3FFF and not used_2022 and "vmess" not in b.defp:
                        continue        # SIP004 receivers may ignore the two reserved bits of a legacy chunk length
                    # the places where the (derived) length becomes the function's result
                    sinks = [bx for bx in b.rpo() for sx in b.stmts(bx) if sx["k"] == "assign" and sx["p"][0] == 0
                             and any(op_place(o) and op_place(o)[0] in fwd for o in b.operands_of_rvalue(sx["rv"]))]
                    sinks += [bx for (bx, cx, tx) in b.calls() if tx["dest"][0] == 0 and any(op_place(a) and op_place(a)[0] in fwd for a in tx["args"])]
                    if sinks and all(b.dominates(blk2, bx) for bx in sinks):
                        bad.append((op, k, s))
            for (blk2, c2, t2) in b.calls():
                if c2.method in ("min", "clamp") and any(op_place(a) and op_place(a)[0] in fwd for a in t2["args"]):
                    bad.append((c2.name, [], t2))
            ctx.ob("S6", b.defp, "length-field-taken-at-face-value", loc(t["sp"]), not bad,
                   "the opened length reaches the result through casts and additions only" if not bad else
                   f"the length read from the wire is reduced on every path ({', '.join(op + (' ' + hex(k[0]) if k else '') for (op, k, _) in bad)})"
                   + (": this authenticator also decodes Shadowsocks 2022 chunks, whose length field uses all 16 bits (0..=0xFFFF) — a conforming peer's larger chunk is cut short and the stream fails authentication" if used_2022 else ""))
    ctx.floor("S6", "length-field reads in authenticators", 2, n)


def _built_next_to(prog, struct_path, pred, depth=3):
    """is the struct constructed (its `new` called or an aggregate built) by a function whose flattened body also makes a call matching pred?"""
    for b in prog.prod_bodies():
        if b.root != b.defp or "::_" in b.defp:
            continue
        direct = any((c.self_def or "") == struct_path and c.method == "new" for (_, c, _) in b.calls()) or \
            any(s["k"] == "assign" and s["rv"]["k"] == "agg" and s["rv"].get("def") == struct_path for blk in b.rpo() for s in b.stmts(blk))
        if not direct or (b.impl_self_def or "") == struct_path:
            continue
        fb = prog.flat(b.defp, max_depth=depth)
        if any(pred(c) for (_, c, _) in fb.calls()):
            return True
    return False
