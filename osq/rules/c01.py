"""C01 — TCP relay is byte-transparent end to end: wiring clauses (DESIGN.md 4/C01)."""
import itertools
import re

from ..mir import Callee, last_seg, loc, op_place
from .common import (discr_source_field, gates_of_value, ok_some_blocks, returns_variant, simulate_cfg, success_edge_dominates,
                     switch_target)

EXPLANATION = (
    "W1 transport table: the client's transport selector and the server's TCP listener are evaluated for every combination of the (ssl, ws, quic) "
    "options (finite configuration space); the outbound constructor / relay reached must be exactly one and its resolved stream type must contain "
    "TlsStream iff ssl, be a WebSocketFramed iff ws, contain QuicStream iff quic. W2 the two forward pumps of every relay function are instantiated "
    "from one side's stream into the *other* side's sink. W3 the server dials the address bound in the ConnectTcp pattern (through to_socket_addr) "
    "and hands the payload bound in the same pattern to the relay as the first item. W4 a server codec never returns need-more on a path where its "
    "inner (authenticated) decode already produced plaintext: decoded bytes are not swallowed. W5 re-entrancy of need-more (C04 R4a/R4e/R4f re-evaluated): "
    "no consumed-then-wait, no replay-cache insert on a path that still answers need-more, no need-more after taking bytes without storing progress.")
ASSUMPTIONS = ["byte equality over all traffic scripts and interleavings is value/schedule-level and is not decided; these are necessary wiring conditions"]


def simulate_with_variants(b, decide_option, max_states=40000):
    """Finite-configuration walk of a (flat) body that also follows *enum values built on the way*: once the configuration has forced the path
    through a helper such as `config.transport()`, the helper returns one known variant, and a later `match` on that value has one known arm.
    Tracks, per path, which locals hold a known variant (aggregate construction, copies, moves, the discriminant read) and forces switches on
    them; switches that depend on neither the configuration nor a known variant fork. Returns the set of visited blocks."""
    seen_blocks, seen_states = set(), set()
    work = [(0, ())]
    while work and len(seen_states) < max_states:
        blk, envt = work.pop()
        key = (blk, envt)
        if key in seen_states:
            continue
        seen_states.add(key)
        seen_blocks.add(blk)
        env = dict(envt)
        for s_ in b.stmts(blk):
            if s_["k"] == "assign" and not s_["p"][1]:
                dst = s_["p"][0]
                rv = s_["rv"]
                env.pop(dst, None)
                if rv["k"] == "agg" and rv.get("ak") == "adt" and "vidx" in rv:
                    env[dst] = ("v", rv["vidx"])
                elif rv["k"] in ("use", "cast"):
                    q = op_place(rv["op"])
                    if q is not None and not q[1] and q[0] in env:
                        env[dst] = env[q[0]]
                elif rv["k"] == "ref":
                    q = rv["p"]
                    if not q[1] and q[0] in env:
                        env[dst] = env[q[0]]
                elif rv["k"] == "discr":
                    q = rv["p"]
                    base_ = q[0]
                    if base_ in env and env[base_][0] == "v" and all(e[0] == "deref" for e in q[1]):
                        env[dst] = ("d", env[base_][1])
            elif s_["k"] == "assign":
                pass
        t = b.term(blk)
        if t and t["k"] == "call" and not t["dest"][1]:
            env.pop(t["dest"][0], None)
        nxt = None
        if t and t["k"] == "switch":
            forced = decide_option(blk, t)
            if forced is None:
                q = op_place(t["d"])
                if q is not None and not q[1] and q[0] in env and env[q[0]][0] == "d":
                    forced = switch_target(t, env[q[0]][1])
            if forced is not None:
                nxt = [forced]
        if nxt is None:
            nxt = list(b.succ(blk))
        envt2 = tuple(sorted(env.items()))
        for x in nxt:
            work.append((x, envt2))
    return seen_blocks


class OptionEval:
    """Which configuration option (presence of `ssl` / `ws` / `quic` ..) a switch operand stands for, followed through copies, references, tuples of
    references, `is_some()` / `is_none()` booleans, negation, helper parameters and the state of a spliced `async fn` (flat views)."""

    def __init__(self, b, names):
        self.b = b
        self.names = tuple(names)

    def switches(self):
        out = {}
        for blk in self.b.rpo():
            t = self.b.term(blk)
            if t and t["k"] == "switch" and op_place(t["d"]) is not None and not op_place(t["d"])[1]:
                o = self.option_of(op_place(t["d"])[0])
                if o:
                    out[blk] = o
        return out

    def decide(self, cfg):
        sw = self.switches()

        def _decide(blk, t):
            o = sw.get(blk)
            if o is None:
                return None
            nm, neg, kind = o
            val = cfg[nm] if kind == "discr" else int(bool(cfg[nm]) != neg)
            return switch_target(t, val)
        return _decide

    def option_of(self, local, depth=0, neg=False):
        """(`ssl` | `ws`, negated, kind) if the local is the discriminant / an is_some() boolean of that configuration option"""
        if depth > 10:
            return None
        for d in self.b.defs().get(local, []):
            if d[0] == "assign":
                rv = d[3]["rv"]
                if rv["k"] == "discr":
                    nm = self.field_of(rv["p"])
                    return (nm, neg, "discr") if nm else None
                if rv["k"] == "un" and rv["op"] == "Not":
                    q = op_place(rv["a"])
                    return self.option_of(q[0], depth + 1, not neg) if q and not q[1] else None
                if rv["k"] in ("use", "cast"):
                    q = op_place(rv["op"])
                    if q is not None and not q[1]:
                        return self.option_of(q[0], depth + 1, neg)
                    if q is not None:
                        # a slot of a value that was built here: the state of a spliced `async fn` (its parameters), a tuple, a struct
                        src = self.agg_slot(q, 0)
                        if src is not None:
                            return self.option_of(src, depth + 1, neg)
                    return None
            elif d[0] == "call":
                c_ = Callee(d[2]["f"])
                if c_.name in ("Option::is_some", "Option::is_none") and d[2]["args"]:
                    q = op_place(d[2]["args"][0])
                    nm = self.field_of(q) if q else None
                    return (nm, neg != (c_.name == "Option::is_none"), "bool") if nm else None
        return None

    def agg_slot(self, place, depth):
        """the local that was put into the aggregate slot `place` reads (through references, copies and the pinning of a spliced future)"""
        if depth > 10:
            return None
        proj = list(place[1])
        last_deref = max([i for i, e in enumerate(proj) if e[0] == "deref"], default=-1)
        idx = [e[1] for e in proj[last_deref + 1:] if e[0] == "field"] or [e[1] for e in proj if e[0] == "field"]      # `((*(_1.0)).2)`: slot 2 of what the pin points to
        if not idx:
            return None
        work, seen_ = [place[0]], set()
        while work:
            l = work.pop()
            if l in seen_ or len(seen_) > 40:
                continue
            seen_.add(l)
            for d in self.b.defs().get(l, []):
                if d[0] == "assign":
                    rv = d[3]["rv"]
                    if rv["k"] == "agg" and idx[0] < len(rv["ops"]):
                        q = op_place(rv["ops"][idx[0]])
                        if q is not None and not q[1]:
                            return q[0]
                        if q is not None:
                            return self.agg_slot(q, depth + 1)
                    elif rv["k"] in ("use", "cast"):
                        q = op_place(rv["op"])
                        if q is not None:
                            work.append(q[0])
                    elif rv["k"] in ("ref", "rawptr"):
                        work.append(rv["p"][0])
                elif d[0] == "call" and d[2]["args"]:
                    # Pin::new_unchecked(&mut fut), IntoFuture::into_future(fut), get_unchecked_mut ...: the same object
                    if Callee(d[2]["f"]).name in ("Pin::new_unchecked", "IntoFuture::into_future", "Pin::get_unchecked_mut", "Pin::as_mut", "Pin::new", "Pin::get_mut", "Deref::deref", "DerefMut::deref_mut"):
                        q = op_place(d[2]["args"][0])
                        if q is not None:
                            work.append(q[0])
        return None

    def field_of(self, place, depth=0):
        """the configuration option a place is (a reference to / a tuple slot holding a reference to)"""
        if place is None or depth > 10:
            return None
        names = [e[2] for e in place[1] if e[0] == "field" and len(e) > 2 and e[2]]
        if names and names[-1] in self.names:
            return names[-1]
        idx = [e[1] for e in place[1] if e[0] == "field"]
        for d in self.b.defs().get(place[0], []):
            if d[0] != "assign":
                continue
            rv = d[3]["rv"]
            if rv["k"] == "ref":
                r = self.field_of(rv["p"], depth + 1)
                if r:
                    return r
            elif rv["k"] in ("use", "cast"):
                q = op_place(rv["op"])
                if q is not None:
                    r = self.field_of([q[0], list(q[1]) + list(place[1])], depth + 1)
                    if r:
                        return r
            elif rv["k"] == "agg" and rv.get("ak") == "tuple" and idx and idx[0] < len(rv["ops"]):
                q = op_place(rv["ops"][idx[0]])
                r = self.field_of(q, depth + 1) if q else None
                if r:
                    return r
        return None


def w1_only(ctx):
    """W1 (client selector and server listener) alone - imported by C16 G9"""
    prog = ctx.prog
    bodies = [b for b in prog.prod_bodies() if "::_" not in b.defp]

    # ---------------- W1 client -----------------------------------------------------------------
    # role: an outbound constructor is a client `async fn` whose result is a transport stack (`Framed<..>` / `WebSocketFramed<..>` over TcpStream,
    # TlsStream or QuicStream); the transport selector is the client function whose flat view reaches at least four different ones. It is
    # evaluated for each of the eight configurations with the same value tracking as the server's listener.
    _ctor_memo = {}

    def is_outbound_ctor(target):
        if target not in _ctor_memo:
            ok = False
            if target.startswith("octo_squirrel_client") and prog.body(target) is not None:
                rty = _async_ret_type(prog, target) or ""
                ok = "Result<" in rty and ("Framed<" in rty) and any(w in rty for w in ("TcpStream", "QuicStream", "TlsStream"))
            _ctor_memo[target] = ok
        return _ctor_memo[target]
    sel = []
    for b0 in bodies:
        if not b0.defp.startswith("octo_squirrel_client") or b0.root == b0.defp and prog.body(b0.defp) is None:
            continue
        if len({c.target for (_, c, _) in b0.calls() if is_outbound_ctor(c.target)}) < 1:
            continue
        fb0 = prog.flat(b0.defp, stop=lambda cb: is_outbound_ctor(cb.defp) or not (cb.defp.startswith("octo_squirrel_client") or cb.defp.startswith("octo_squirrel::config")), key="w1-selector2")
        if len({c.target for (_, c, _) in fb0.calls() if is_outbound_ctor(c.target)}) >= 4:
            sel.append(fb0)
    sel = [x for x in sel if not any(y is not x and x.defp in set(y.origin) for y in sel)] or sel
    ctx.floor("W1", "client transport selector", 1, len(sel))
    for b in sel:
        oe = OptionEval(b, ("ssl", "ws", "quic"))
        found = {o[0] for o in oe.switches().values()}
        if found != {"ssl", "ws", "quic"}:
            ctx.anchor_lost("W1", f"the client selector's tests of the ssl / ws / quic options (found: {sorted(found)})")
            continue
        for combo in itertools.product((0, 1), repeat=3):
            cfg = dict(zip(("ssl", "ws", "quic"), combo))
            seen = simulate_with_variants(b, oe.decide(cfg))
            ctors = []
            for (blk, c, t) in b.calls():
                if blk in seen and c.name != "Future::poll" and is_outbound_ctor(c.target):
                    ctors.append((c, t))
            label = "ssl=%d,ws=%d,quic=%d" % combo
            if len({c.target for (c, _) in ctors}) != 1:
                ctx.ob("W1", b.defp, f"client:{label}:one-transport", loc(b.sp), False, f"configuration {label} reaches {len(ctors)} outbound constructors", ordinal=False)
                continue
            c, t = ctors[0]
            rty = _async_ret_type(prog, c.target)
            has_tls, is_ws, has_quic = "TlsStream" in rty, "WebSocketFramed" in rty, "QuicStream" in rty
            if cfg["quic"]:
                ok = has_quic
                exp = "QuicStream"
            else:
                ok = (has_tls == bool(cfg["ssl"])) and (is_ws == bool(cfg["ws"])) and not has_quic
                exp = ("WebSocketFramed<" if cfg["ws"] else "Framed<") + ("TlsStream<TcpStream>" if cfg["ssl"] else "TcpStream")
            ctx.ob("W1", b.defp, f"client:{label}:stack", loc(t["sp"]), ok, f"{label} builds {last_seg(c.target)} -> {_short(rty)}; expected {exp}", ordinal=False)

    # ---------------- W1 server ---------------------------------------------------------------------
    # the listener = the server function that accepts TCP connections and (itself or through same-crate helpers, spawned or not) starts a relay.
    # Judged on its flat view (helpers such as a `serve(inbound, codec, websocket)` are spliced in), by finite-configuration evaluation: every
    # switch whose operand is the presence of the `ssl` / `ws` option - matched on directly, through a tuple of references, or as an
    # `is_some()` boolean carried through locals and helper parameters - is forced to the configuration under evaluation.
    srv = []
    for b0 in bodies:
        if not b0.defp.startswith("octo_squirrel_server") or not any(c.name == "TcpListener::accept" for (_, c, _) in b0.calls()):
            continue
        fb = prog.flat(b0.defp, stop=lambda cb: not cb.defp.startswith("octo_squirrel_server") or _relay_kind(prog, cb.defp) is not None, key="w1-listener")
        if any(_relay_kind(prog, c.target) is not None for (_, c, _) in fb.calls()):
            srv.append(fb)
    ctx.floor("W1", "server TCP listener", 1, len(srv))
    for b in srv:
        oe = OptionEval(b, ("ssl", "ws"))
        found_opts = {o[0] for o in oe.switches().values()}
        if found_opts != {"ssl", "ws"}:
            ctx.anchor_lost("W1", f"the listener's tests of the ssl / ws options (found: {sorted(found_opts)})")
            continue
        tls_accepts = {blk for (blk, c, t) in b.calls() if c.name == "TlsAcceptor::accept"}
        for combo in itertools.product((0, 1), repeat=2):
            cfg = dict(zip(("ssl", "ws"), combo))

            decide = oe.decide(cfg)
            seen = simulate_cfg(b, decide)
            relays = []
            for blk in seen:
                for (cb_, c, t) in [x for x in b.calls() if x[0] == blk]:
                    k = _relay_kind(prog, c.target) if c.name != "Future::poll" else None
                    if k is not None:
                        relays.append((c, t, k))
            # ... or inside an async block that is created (and spawned) on this configuration's path
            nested_calls = []
            spliced_here = set(b.origin)
            for blk in seen:
                for s_ in b.stmts(blk):
                    if s_["k"] == "assign" and s_["rv"]["k"] == "agg" and s_["rv"].get("ak") in ("closure", "coroutine") and s_["rv"].get("def") and prog.body(s_["rv"]["def"]) is not None \
                            and s_["rv"]["def"] not in spliced_here:        # (the body of an awaited async fn is already part of this view)
                        nfb = prog.flat(s_["rv"]["def"], stop=lambda cb: not cb.defp.startswith("octo_squirrel_server") or _relay_kind(prog, cb.defp) is not None, key="w1-listener")
                        nested_calls += [(nfb, x) for x in nfb.calls()]
            relay_body = {id(t): b for (_, t, _) in relays}
            for (nfb_, (cb_, c, t)) in nested_calls:
                k = _relay_kind(prog, c.target) if c.name != "Future::poll" else None
                if k is not None:
                    relays.append((c, t, k))
                    relay_body[id(t)] = nfb_
            label = "ssl=%d,ws=%d" % combo
            kinds = {k for (_, _, k) in relays}
            import os as _os
            if _os.environ.get("OSQ_DEBUG_W1"):
                print("W1-DEBUG", label, [(c.name, loc(t["sp"])) for (c, t, _) in relays], len(nested_calls))
            # a relay whose function takes an already-upgraded WebSocket stream is WebSocket-accepting when the upgrade is made on the way to it
            ws_upgrade = any(("ServerBuilder" in (c.self_s or c.target) and c.method == "accept") for (cb_, c, t) in [x for x in b.calls() if x[0] in seen] + [x for (_, x) in nested_calls])
            if ws_upgrade and kinds == {"plain relay"} and all("WebSocket" in " ".join(a.get("s", "") for a in c.args) or "WebSocket" in " ".join(relay_body[id(t)].local_ty(op_place(a)[0]) for a in t["args"] if op_place(a)) for (c, t, _) in relays):
                kinds = {"websocket-accepting relay"}
            exp_kind = "websocket-accepting relay" if cfg["ws"] else "plain relay"
            ctx.ob("W1", b.defp, f"server:{label}:relay-kind", loc(b.sp), kinds == {exp_kind}, f"{label} spawns {sorted(kinds)}; expected {exp_kind}", ordinal=False)
            tls_here = bool(tls_accepts & seen)
            for (c, t, _) in relays:
                ity = c.args[0].get("s", "") if c.args else ""
                if "::" in ity or "<" in ity:
                    ok = ("TlsStream" in ity) == bool(cfg["ssl"])
                    why = f"{label}: relay over {_short(ity)}; expected " + ("TlsStream<TcpStream>" if cfg["ssl"] else "TcpStream")
                else:       # the relay is started from a helper that is generic over the inbound: judge by whether the TLS accept is on this configuration's path
                    ok = tls_here == bool(cfg["ssl"])
                    why = f"{label}: the TLS accept is " + ("" if tls_here else "not ") + "on the path to the relay; expected " + ("TLS" if cfg["ssl"] else "no TLS")
                ctx.ob("W1", b.defp, f"server:{label}:inbound-type", loc(t["sp"]), ok, why, ordinal=False)
            # every relay is spawned, not awaited (shared with C08-L3)


def run(ctx):
    w1_only(ctx)
    prog = ctx.prog
    bodies = [b for b in prog.prod_bodies() if "::_" not in b.defp]
    # ---------------- W2 pump cross-wiring -----------------------------------------------------------------
    fams = {}
    for b in bodies:
        fw = [(blk, c, t) for (blk, c, t) in b.calls() if c.name == "StreamExt::forward"]
        if fw:
            fams.setdefault(b.root, []).extend((b, x) for x in fw)
    ctx.floor("W2", "relay functions with forward pumps", 2, len([r for r, v in fams.items() if len(v) >= 2]))
    for root, fws in sorted(fams.items()):
        if len(fws) < 2:
            continue
        sides = []
        for (b, (blk, c, t)) in fws:
            st = c.args[0].get("s", "")
            sk = c.args[1].get("s", "") if len(c.args) > 1 else ""
            sides.append((b, t, _side_param(st, stream=True), _side_param(sk, stream=False), st, sk))
        for (b, t, s_from, s_to, st, sk) in sides:
            ok = s_from is not None and s_to is not None and s_from != s_to
            ctx.ob("W2", b.defp, "pump-into-opposite-side", loc(t["sp"]), ok, f"stream of side {s_from} is forwarded into the sink of side {s_to}" + ("" if ok else " (must be the opposite side)"))
        froms = sorted(s[2] or "?" for s in sides)
        ctx.ob("W2", root, "both-directions-pumped", loc(prog.body(root).sp), len(set(froms)) == 2, f"pump sources: {froms}", ordinal=False)

    # ---------------- W3 dial what was decoded ---------------------------------------------------------------
    # roles: the inbound message enum (a variant with (bytes, Address), a variant with bytes only); the first-item handler is the server
    # code whose flat view binds the addressed variant's payload and dials TcpStream::connect
    from .common import first_item_handlers, partial_key_caches
    enum_it, addressed, first = first_item_handlers(prog)
    if enum_it is None:
        ctx.anchor_lost("W3", "inbound message enum (variant with (bytes, Address) and variant with bytes)")
    ctx.floor("W3", "server first-item handler", 1, len(first))
    for fb, binds in first:
        ctx.floor("W3", "addressed-variant pattern bindings", 2, len(binds))
        root = fb.root
        for (blk, c, t) in fb.calls():
            if c.name == "TcpStream::connect":
                p = op_place(t["args"][0])
                locs, calls, _ = fb.slice_back([p[0]]) if p else (set(), [], [])
                src = {binds[l] for l in locs if l in binds and binds[l][1] == 1}
                ok = bool(src)
                ctx.ob("W3", root, "dial-decoded-address", loc(t["sp"]), ok,
                       f"connect() target derives from the address bound in the {sorted(v for v, _ in src)} pattern" if ok else "connect() target does not derive from the decoded address of the first message")
        # the first payload is forwarded: some send into the outbound sink takes an item that derives from the payload bound with the address
        sends = [(blk, c, t) for (blk, c, t) in fb.calls() if c.name in ("SinkExt::send", "SinkExt::feed")]
        for var in sorted({v for (v, i) in binds.values()}):
            pay = {l for l, (v, i) in binds.items() if v == var and i == 0}
            ok = False
            for (blk, c, t) in sends:
                p = op_place(t["args"][1]) if len(t["args"]) > 1 else None
                if p is None:
                    continue
                locs, _, _ = fb.slice_back([p[0]])
                if pay & locs:
                    ok = True
            ctx.ob("W3", root, f"first-payload-forwarded:{var}", loc(fb.sp), ok,
                   f"the payload bound with the {var} address is sent on" if ok else f"the payload bound in the {var} pattern never reaches a send: the first bytes of the flow are dropped")
    # a cache between the decoded address and the dial must be keyed by the whole address
    pk = partial_key_caches(prog)
    for (b, blk, t, mty, why, kind) in pk:
        if kind == "udp":
            continue          # a per-datagram cache is C02's business (U6)
        ctx.ob("W3", b.defp, "address-cache-keyed-by-whole-address", loc(t["sp"]), False,
               f"lookup in {mty[:80]}: {why}: a later flow to the same host on another port is dialled to the first flow's port")
    # codecs: the ConnectTcp address operand derives from this codec's decoded header
    for b in prog.methods_of_trait_impls("Decoder", "decode"):
        if not b.defp.startswith("octo_squirrel_server"):
            continue
        for fb in [b] + [prog.body(c.target) for (_, c, _) in b.calls() if prog.body(c.target) is not None and c.target.startswith("octo_squirrel_server")]:
            for blk in fb.rpo():
                for s in fb.stmts(blk):
                    if s["k"] == "assign" and s["rv"]["k"] == "agg" and s["rv"].get("variant") == "ConnectTcp":
                        p = op_place(s["rv"]["ops"][1])
                        locs, calls, consts = fb.slice_back([p[0]]) if p else (set(), [], [])
                        from_decode = any(cc.method in ("decode", "read_address_port", "clone") for (_, cc, _) in calls)
                        ctx.ob("W3", fb.defp, "connect-address-from-decoded-header", loc(s["sp"]), from_decode and not any(c.get("str") for (_, c) in consts),
                               "ConnectTcp address derives from the decoded header" if from_decode else "ConnectTcp address does not derive from a decode result")

    # ---------------- W4 decoded payload never swallowed ----------------------------------------------------
    n = 0
    from .c04 import is_datagram
    for b in prog.methods_of_trait_impls("Decoder", "decode"):
        if not (b.defp.startswith("octo_squirrel_server") or b.defp.startswith("octo_squirrel_client")):
            continue
        if is_datagram(prog, b):
            continue  # a datagram codec may drop a datagram (replay filter): C11-F2 requires exactly that
        rv = returns_variant(b)
        none_rets = [blk for blk, v in rv.items() if v == "Ok" and blk not in ok_some_blocks(b)]
        for (blk, c, t) in b.calls():
            if c.method not in ("decode", "decode_payload", "decode_packet") or not c.target.startswith("octo_squirrel"):
                continue
            if "Option<" not in b.local_ty(t["dest"][0]):
                continue
            n += 1
            gs = [g for g in gates_of_value(b, t["dest"][0]) if g.kind == "option"]
            swallowed = False
            for g in gs:
                some_t = g.target_for(1)
                # a need-more return reachable from the Some edge without re-entering the call
                reach = b.reach_from(some_t, avoid=frozenset([blk]))
                if any(x in reach for x in none_rets):
                    swallowed = True
            ctx.ob("W4", b.defp, "decoded-payload-not-swallowed", loc(t["sp"]), not swallowed,
                   "every path after the inner decode produced plaintext returns it" if not swallowed else
                   "after the inner (authenticated) decode returned plaintext the codec can still answer need-more: the decrypted bytes are dropped "
                   "(server Shadowsocks: whenever no target address has been parsed, i.e. always for the three legacy ciphers)")
    ctx.floor("W4", "inner decode call sites in stream codecs", 3, n)
    w5(ctx)
    w6(ctx)
    w7(ctx)
    w8(ctx)
    w9(ctx)


def w6(ctx):
    """W6: "the application receives the complete answer followed by end-of-stream" also when the target's connection ends with a reset
    right behind the answer (it closed with unread request bytes): C15's D6 re-evaluated for the relay pumps"""
    from ..engine import Ctx
    from . import c15
    sub = Ctx(ctx.prog, "C15", ctx.tier)
    c15.run(sub)
    n = 0
    for o in sub.obs:
        if o.rule == "D6":
            n += 1
            parts = o.key.split("|")
            ctx.ob("W6", parts[1], parts[2], o.where, o.ok, o.detail)
        elif o.rule == "D7" and o.nontrivial:
            # an abortive close discards bytes the application (or the target) had already written: "every byte ... arrives"
            parts = o.key.split("|")
            ctx.ob("W6", parts[1], parts[2], o.where, o.ok, o.detail)
    ctx.floor("W6", "forward pumps", 4, n)


def w7(ctx):
    """W7: "for every supported configuration ... arrives at the other end" quantifies over flows that run next to other peers. A TCP accept loop
    that awaits a per-flow handshake (TLS, WebSocket upgrade) itself serves one peer at a time: a peer that connects and stays silent holds the
    loop, later flows are never accepted into a tunnel and none of their bytes arrive. C08's L2 re-evaluated for the TCP listeners."""
    from ..engine import Ctx
    from . import c08
    sub = Ctx(ctx.prog, "C08", ctx.tier)
    sub.repo = getattr(ctx, "repo", None)
    c08.run(sub)
    n = 0
    for o in sub.obs:
        if o.rule == "L2" and "udp" not in o.key.split("|")[1]:
            n += 1
            parts = o.key.split("|")
            ctx.ob("W7", parts[1], parts[2], o.where, o.ok, o.detail)
    ctx.floor("W7", "handshake awaits inspected in TCP accept loops (C08 L2)", 1, n)


def w9(ctx):
    """W9: a flow whose first byte in a direction comes after a pause is still a flow: the header that direction is opened with must be stamped when it is
    written (C10 V1c re-evaluated), otherwise the peer refuses it as stale and nothing of that direction arrives."""
    from ..engine import Ctx
    from . import c10
    sub = Ctx(ctx.prog, "C10", ctx.tier)
    c10.run(sub)
    n = 0
    for o in sub.obs:
        if o.rule == "V1c":
            n += 1
            parts = o.key.split("|")
            ctx.ob("W9", parts[1], parts[2], o.where, o.ok, o.detail)
    ctx.floor("W9", "header timestamps inspected (C10 V1c)", 1, n)


def w8(ctx):
    """W8: no chunk is held by a future that `select!` may drop (cancellation safety of relay loops)"""
    from .common import select_arms_carrying_data
    rows, n = select_arms_carrying_data(ctx.prog)
    ctx.floor("W8", "select! loops inspected", 3, n)
    seen = set()
    for (b, t, arm, take, give, where) in rows:
        if (b.defp, arm) in seen:
            continue
        seen.add((b.defp, arm))
        ctx.ob("W8", b.defp, f"select-arm-holds-no-data-across-an-await:{arm.split('::')[-1]}", where, False,
               f"a branch of a `select!` that is re-created on every loop iteration ({arm}) takes an item with `{take}` and then awaits `{give}`: when another branch completes "
               "while this one waits for the sink (back-pressure), `select!` drops it together with the item it had already taken out of the source - bytes disappear from the "
               "middle of the stream and the receiver still sees a normal end")
    ctx.ob("W8", "workspace", "scan", "-", True, f"{n} select! loops scanned for branches that carry data across an await", nontrivial=False, ordinal=False)


def w5(ctx):
    """W5: a re-parse after need-more must see the same world (re-evaluates C04's R4a / R4e clauses: they are necessary for transparency
    whenever the first chunk of a flow is split across reads)"""
    from ..engine import Ctx
    from . import c04
    sub = Ctx(ctx.prog, "C04", ctx.tier)
    c04.run(sub)
    n = 0
    for o in sub.obs:
        if o.rule in ("R4a", "R4b", "R4e", "R4f", "R4h", "R4j", "R4k", "R4l"):
            if o.rule == "R4b" and ("::udp::" in o.key or o.key.split("|")[1].endswith("decode_packet")):
                continue        # datagram framings belong to C02
            n += 1
            parts = o.key.split("|")
            ctx.ob("W5", parts[1], f"{o.rule}:{parts[2]}", o.where, o.ok, o.detail)
    ctx.floor("W5", "need-more re-entrancy obligations", 10, n)


def _relay_kind(prog, target):
    """role of a server function called from the TCP listener: a relay is a function whose (awaited) code reaches the first-item handler;
    it is the WebSocket-accepting one iff it performs the server-side WebSocket accept on the way"""
    _RK = prog.__dict__.setdefault("_relay_kind_cache", {})
    if target in _RK:
        return _RK[target]
    from .common import first_item_handlers
    kind = None
    tb = prog.body(target)
    if tb is not None and tb.defp.startswith("octo_squirrel_server"):
        _, _, handlers = first_item_handlers(prog)
        hroots = {fb.root for (fb, _) in handlers}
        from .common import inline_family
        for fb0 in inline_family(prog, tb.root):       # a helper that only *spawns* the relay is not the relay
            fb = prog.flat(fb0.defp)
            if any(prog.body(o).root in hroots for o in set(fb.origin)) and tb.root not in hroots:
                ws = any("ServerBuilder" in (c.self_s or c.target) and c.method == "accept" for (_, c, _) in fb.calls())
                kind = "websocket-accepting relay" if ws else (kind or "plain relay")
    _RK[target] = kind
    return kind


def _async_ret_type(prog, target):
    """return type of an `async fn`: `_0` of its coroutine body"""
    for fb in prog.family(target):
        if fb.defp != target and fb.parent == target:
            return fb.local_ty(0)
    b = prog.body(target)
    return b.local_ty(0) if b else ""


def _short(ty):
    ty = re.sub(r"(\w+::)+", "", ty)
    return ty[:110]


def _side_param(ty, stream):
    """the generic parameter / concrete side a SplitStream<..> / SplitSink<..> / wrapped stream type belongs to"""
    m = re.search(r"SplitStream<(\w+)>" if stream else r"SplitSink<(\w+)", ty)
    if m:
        return m.group(1)
    for name, side in (("OStream", "O"), ("IStream", "I"), ("OSink", "O"), ("ISink", "I")):
        if re.search(r"\b" + name + r"\b", ty):
            return side
    return None
