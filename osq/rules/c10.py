"""C10 — stale, replayed, mis-typed or unbound handshakes are rejected (DESIGN.md 4/C10)."""
from ..mir import tymatch, Callee, last_seg, loc, op_const, op_int, op_place
from .common import (ty_kind, const_cmp_of_switch, err_return_reachable_only, gates_of_value, ok_some_blocks, returns_variant,
                     success_edge_dominates, outermost, accept_blocks, err_only)

EXPLANATION = (
    "V1 window functions: the comparison of |now - ts| with a constant is normalised to an accept interval [0,T]; "
    "T must be 30 (Shadowsocks 2022) / 120 with CRC equality (VMess auth-id), and every Ok return must lie behind the accept edge. "
    "V1b/V2: in every Shadowsocks-2022 header/datagram decoder each accepting return is dominated by the success edge of the "
    "timestamp check on a value read from the opened header and by the equal-edge of the stream-type comparison with the "
    "receiver's expected type. V3: salt lookup precedes the first AEAD open, its hit edge only reaches Err, the same salt is "
    "recorded on the accept path, and the cache expiry constant is >= 2x the window. V4: the client compares the echoed request "
    "salt with its own salt (2022) / the response byte with the one sent (VMess) before accepting.")
ASSUMPTIONS = ["run-time expiry behaviour of the LRU cache as the clock advances is not decided (time)",
               "lru_time_cache, SystemTime behave as documented"]

WINDOW_2022 = 30
WINDOW_VMESS = 120


def accept_interval(op, a, b):
    """For `a <op> b` with exactly one constant side: return (which_edge, T) such that on that edge x <= T."""
    ca, cb = op_int(a), op_int(b)
    if cb is not None and ca is None:
        k = cb
        return {"Gt": (False, k), "Ge": (False, k - 1), "Le": (True, k), "Lt": (True, k - 1)}.get(op)
    if ca is not None and cb is None:
        k = ca  # k <op> x
        return {"Lt": (False, k), "Le": (False, k - 1), "Ge": (True, k), "Gt": (True, k - 1)}.get(op)
    return None


def window_rule(ctx, body, rule, source_methods, expected, accept_blocks, what):
    """Find the window comparison in `body` and check constant + dominance."""
    found = 0
    for b in body.rpo():
        t = body.term(b)
        if not t or t["k"] != "switch":
            continue
        cmp_ = const_cmp_of_switch(body, b)
        if cmp_ is None:
            continue
        op, a, bb_, ft, tt = cmp_
        var = a if op_int(bb_) is not None else bb_
        p = op_place(var)
        if p is None:
            continue
        _, calls, _ = body.slice_back([p[0]])
        if not any(c.method in source_methods for (_, c, _) in calls):
            continue
        iv = accept_interval(op, a, bb_)
        if iv is None:
            continue
        found += 1
        edge_truth, T = iv
        tgt = tt if edge_truth else ft
        ctx.ob(rule, body.defp, f"{what}:window-constant", loc(t["sp"]), T == expected,
               f"accept set is |diff| <= {T}; required {expected}")
        for ab in accept_blocks:
            ok = body.edge_dominates(b, tgt, ab)
            ctx.ob(rule, body.defp, f"{what}:accept-behind-window", loc(t["sp"]), ok,
                   "accepting return is " + ("" if ok else "NOT ") + "dominated by the in-window edge")
    return found


def _diff_operands(body, t):
    """operands of the difference whose magnitude a window test takes: the two arguments of `a.abs_diff(b)`; for `(a - b).abs()` the
    operands of the subtraction (followed through copies and the checked-arithmetic tuple)"""
    c = Callee(t["f"])
    if c.method == "abs_diff":
        return [op_place(a)[0] for a in t["args"][:2] if op_place(a) is not None]
    p = op_place(t["args"][0]) if t["args"] else None
    work, seen = ([p[0]] if p else []), set()
    while work:
        l = work.pop()
        if l in seen or len(seen) > 12:
            continue
        seen.add(l)
        for d in body.defs().get(l, []):
            if d[0] != "assign":
                continue
            rv = d[3]["rv"]
            if rv["k"] == "bin" and rv["op"].startswith("Sub"):
                return [op_place(x)[0] for x in (rv["a"], rv["b"]) if op_place(x) is not None]
            if rv["k"] in ("use", "cast"):
                q = op_place(rv["op"])
                if q is not None:
                    work.append(q[0])
    return []


def _is_clock_call(prog, c):
    def clock(cc):
        return cc.method == "now" and any(w in (cc.name + " " + (cc.self_s or "")) for w in ("SystemTime", "Instant"))
    if clock(c):
        return True
    cb = prog.body(c.target)
    if cb is None or cb.argc != 0:
        return False
    return any(clock(cc) for (_, cc, _) in prog.flat(cb.defp).calls())


def clock_read_at_check_time(prog, body, local, depth=0):
    """`local` (an operand of a freshness comparison) is a clock reading taken in the activation that makes the comparison: a clock call lies
    in its backward slice here, or it is a parameter and every caller passes such a reading. A value that comes out of a field of the
    codec / context, or into an entry point from outside, was read at some *other* time (construction, accept, first use): the window is
    then measured from that moment, and a token stays acceptable for as long as the object lives. Returns (ok, why)."""
    seen, calls, _ = body.slice_back([local])
    if any(_is_clock_call(prog, c) for (_, c, _) in calls):
        return True, "clock read in this activation"
    params = sorted(l for l in seen if 1 <= l <= body.argc)
    if not params:
        return False, f"the value compared with the timestamp in {last_seg(body.defp)} has no clock read behind it"
    if depth >= 4:
        return False, "clock provenance not found within 4 callers"
    if body.root != body.defp:          # a closure: its captures are the 'arguments', the enclosing function the 'caller'
        parent = prog.body(body.root)
        for fb0 in ([parent] if parent is not None else []):
            for blk in fb0.rpo():
                for s_ in fb0.stmts(blk):
                    if s_["k"] == "assign" and s_["rv"]["k"] == "agg" and s_["rv"].get("ak") == "closure" and s_["rv"].get("def") == body.defp:
                        for o in s_["rv"]["ops"]:
                            q = op_place(o)
                            if q is not None and clock_read_at_check_time(prog, fb0, q[0], depth + 1)[0]:
                                return True, "captured clock reading of the enclosing activation"
        return False, f"the closure {last_seg(body.defp)} compares the timestamp with a captured value that is not a clock reading of the enclosing activation"
    sites = []
    for cb in prog.prod_bodies():
        for (blk, c, t) in cb.calls():
            tb = prog.body(c.target)
            if tb is not None and tb.defp == body.defp:
                sites.append((cb, t))
    if not sites:
        what = "a field of the receiver" if 1 in params and body.local_name(1) == "self" else "a parameter of an entry point"
        return False, (f"the value compared with the timestamp comes from {what} of {last_seg(body.defp)}, not from a clock read made when the token is "
                       "judged: the window is measured from whenever that value was stored, so a token that has long expired is still accepted on an object that is old enough")
    for (cb, t) in sites:
        ok_site, why_site = False, ""
        for k in params:
            q = op_place(t["args"][k - 1]) if k - 1 < len(t["args"]) else None
            if q is None:
                why_site = why_site or f"{last_seg(cb.defp)} passes a constant"
                continue
            ok1, why1 = clock_read_at_check_time(prog, cb, q[0], depth + 1)
            if ok1:
                ok_site = True
                break
            why_site = why1
        if not ok_site:
            return False, why_site
    return True, "every caller passes a clock reading of its own activation"


def window_clock_rule(ctx, prog, body, rule, what, methods):
    n = 0
    for (blk, c, t) in body.calls():
        if c.method not in methods or not t["args"]:
            continue
        if c.method == "abs" and c.self_s not in ("i64", "i128", "i32", "isize"):
            continue
        ops = _diff_operands(body, t)
        if not ops:
            continue
        n += 1
        res = [clock_read_at_check_time(prog, body, l) for l in ops]
        ok = any(r[0] for r in res)
        ctx.ob(rule, body.defp, f"{what}:clock", loc(t["sp"]), ok,
               "one side of the window comparison is a clock reading taken when the timestamp is judged" if ok else
               "; ".join(dict.fromkeys(r[1] for r in res)))
    return n


def accept_blocks_of(body):
    """accepting returns of a decoder: Ok(Some(..)) if the function returns Result<Option<..>>, else every Ok(..)"""
    if getattr(body, "is_flat", False):
        return accept_blocks(body)
    ret_ty = body.local_ty(0)
    rv = returns_variant(body)
    if "Option<" in ret_ty.split("Result<", 1)[-1][:40]:
        return ok_some_blocks(body)
    return [b for b, v in rv.items() if v == "Ok"]


def run(ctx):
    prog = ctx.prog
    # ---------------- V1a: the 2022 window function ------------------------------------------
    # by role: a workspace function returning Result that a Shadowsocks decoder calls on a u64 read from the header
    cand = {}
    for b in prog.prod_bodies():
        if "shadowsocks" not in b.defp:
            continue
        for (blk, c, t) in b.calls():
            if not c.target.startswith("octo_squirrel") or not t["args"]:
                continue
            callee = prog.body(c.target)
            if callee is None or ty_kind(callee.local_ty(0)) != "result" or callee.argc != 1 or callee.local_ty(1) != "u64":
                continue
            p = op_place(t["args"][0])
            if p is None:
                continue
            _, calls, _ = b.slice_back([p[0]])
            if any(cc.name == "Buf::get_u64" for (_, cc, _) in calls):
                cand[callee.defp] = callee
    for b in prog.prod_bodies():
        if b.root == b.defp and "shadowsocks" in b.defp and any(c.method == "abs_diff" for (_, c, _) in b.calls()):
            cand[b.defp] = b
    vt = sorted(cand.values(), key=lambda b: b.defp)
    ctx.floor("V1a", "timestamp window functions (called by 2022 decoders on a header u64)", 1, len(vt))
    vt_paths = set()
    for body in vt:
        rv = returns_variant(body)
        acc = [b for b, v in rv.items() if v == "Ok"]
        n = window_rule(ctx, body, "V1a", {"abs_diff", "abs"}, WINDOW_2022, acc, "ss2022")
        if n == 0:
            ctx.ob("V1a", body.defp, "ss2022:window-comparison", loc(body.sp), False,
                   "no two-sided window: the function never compares |now - timestamp| (abs_diff/abs) with a constant, so stale or future timestamps pass")
        vt_paths.add(body.defp)
        # `now` must be a clock reading made when the timestamp is judged (in the function, or handed in by every caller)
        if window_clock_rule(ctx, prog, body, "V1a", "ss2022", {"abs_diff", "abs"}) == 0:
            ctx.ob("V1a", body.defp, "ss2022:clock", loc(body.sp), False, "no |now - timestamp| difference found in the window function")

    # ---------------- V1a': VMess auth-id ------------------------------------------------------
    am = [b for b in prog.prod_bodies() if b.root == b.defp and "vmess" in b.defp and
          any(c.method == "abs" and c.self_s in ("i64",) for (_, c, _) in b.calls())]
    ctx.floor("V1a", "VMess auth-id matcher (|t-now| test)", 1, len(am))
    for body in am:
        acc = ok_some_blocks(body)
        if not acc and "Result<" not in body.local_ty(0):       # the matcher may answer `Option<key>` itself (clock error handled by its caller)
            acc = [b for b, v in returns_variant(body).items() if v == "Some"]
        ctx.floor("V1a", f"accepting returns in {last_seg(body.defp)}", 1, len(acc))
        n = window_rule(ctx, body, "V1a", {"abs"}, WINDOW_VMESS, acc, "vmess-authid")
        if n == 0:
            ctx.ob("V1a", body.defp, "vmess-authid:window-comparison", loc(body.sp), False, "no |t-now| comparison found")
        window_clock_rule(ctx, prog, body, "V1a", "vmess-authid", {"abs"})
        # CRC equality on the same path
        crc_ok = False
        for b in body.rpo():
            t = body.term(b)
            if not t or t["k"] != "switch":
                continue
            cmp_ = const_cmp_of_switch(body, b)
            if not cmp_ or cmp_[0] not in ("Eq", "Ne"):
                continue
            op, a, bb_, ft, tt = cmp_
            locs = [op_place(x)[0] for x in (a, bb_) if op_place(x)]
            _, calls, _ = body.slice_back(locs)
            if any(c.target.endswith("::crc32") or "crc" in c.target.lower() for (_, c, _) in calls):
                eq_t = tt if op == "Eq" else ft
                if acc and all(body.edge_dominates(b, eq_t, ab) for ab in acc):
                    crc_ok = True
        ctx.ob("V1a", body.defp, "vmess-authid:crc-equality", loc(body.sp), crc_ok,
               "accepting return is " + ("" if crc_ok else "NOT ") + "dominated by the CRC-equal edge")

    # ---------------- roles ------------------------------------------------------------------------
    # (a) the two type-byte tables of the Shadowsocks Mode: by their *tables*, not their names: own = {client:0, server:1}, peer = 1 - own
    own_fns, peer_fns, tabs = set(), set(), {}
    for body in prog.prod_bodies():
        if body.impl_self_def and tymatch(body.impl_self_def, "protocol::shadowsocks::Mode") and body.root == body.defp and body.local_ty(0) == "u8" and body.argc == 1:
            tb = mode_table(body)
            if tb == {0: 0, 1: 1}:
                own_fns.add(body.defp)
                tabs["own"] = tb
            elif tb == {0: 1, 1: 0}:
                peer_fns.add(body.defp)
                tabs["peer"] = tb
            else:
                tabs[body.method] = tb

    def is_own(c):
        return c.target in own_fns

    def is_peer(c):
        return c.target in peer_fns
    # (b) the replay-cache accessors: methods that lock a Mutex and query / fill an LruCache
    lookup_fns, record_fns = set(), set()
    from .common import is_lock_call
    for body in prog.prod_bodies():
        if body.root != body.defp or "shadowsocks" not in body.defp:
            continue
        fcalls = prog.flat(body.defp).calls()        # the lock may be taken in a small private helper
        names = {c.name for (_, c, _) in fcalls}
        meths = {c.method for (_, c, _) in fcalls if "LruCache" in (c.self_s or "")}
        if not any(is_lock_call(c) for (_, c, _) in fcalls) or not meths or body.argc < 2 or body.local_ty(0) not in ("bool", "()"):
            continue
        if "insert" in meths:
            record_fns.add(body.defp)
        elif meths & {"contains_key", "get", "peek"}:
            lookup_fns.add(body.defp)

    def is_lookup(c):
        return c.target in lookup_fns

    def is_record(c):
        return c.target in record_fns

    # ---------------- V1c: the timestamp a header is stamped with is read when the header is written ------------------
    # role: the u64 that is put into the buffer that also received the sender's own type byte. A receiver refuses a header more than 30 s old, and a
    # header is only written with the first payload byte of its direction: a stamp taken earlier (when the session object was made) is stale by
    # however long the application - or the target - waited before its first byte, and the peer drops the flow.
    n_stamp = 0
    for b in prog.prod_bodies():
        if "shadowsocks" not in b.defp:
            continue
        type_puts = []
        for (blk, c, t) in b.calls():
            if c.name == "BufMut::put_u8" and len(t["args"]) > 1 and op_place(t["args"][1]) is not None:
                if any(is_own(cc) for (_, cc, _) in b.slice_back([op_place(t["args"][1])[0]])[1]):
                    type_puts.append((blk, t))
        for (tb_, tt_) in type_puts:
            rq = op_place(tt_["args"][0])
            rroots = b.slice_back([rq[0]], stop_call=lambda c_: True)[0] if rq else set()
            for (blk, c, t) in b.calls():
                if c.name != "BufMut::put_u64" or len(t["args"]) < 2 or not b.dominates(tb_, blk):
                    continue
                q0, q1 = op_place(t["args"][0]), op_place(t["args"][1])
                if q0 is None or q1 is None or not (b.slice_back([q0[0]], stop_call=lambda c_: True)[0] & rroots):
                    continue
                # only the first u64 behind the type byte is the timestamp
                n_stamp += 1
                okc, why = clock_read_at_check_time(prog, b, q1[0])
                ctx.ob("V1c", b.defp, "timestamp-written-is-read-at-write-time", loc(t["sp"]), okc,
                       "the timestamp put behind the type byte is a clock reading of the activation that writes the header" if okc else
                       "the timestamp written behind the type byte is not read from the clock when the header is written (" + why + "): the header of a direction is written with "
                       "that direction's first payload byte, so a stamp taken when the session object was created is as old as the pause before that byte - past 30 s the peer "
                       "refuses it and the flow delivers nothing")
                break
    ctx.floor("V1c", "timestamps written behind a type byte (2022 header / datagram encoders)", 2, n_stamp)

    # ---------------- V1b / V2: every 2022 header decoder ---------------------------------------
    def is_vt(c):
        return c.target in vt_paths

    typed_checks = []
    mode_path = next((body.impl_self_def for body in prog.prod_bodies() if body.defp in own_fns), None)
    side_decoders = {b_.defp for b_ in prog.prod_bodies() if b_.root == b_.defp and b_.argc == 1 and b_.local_ty(1) == "u8" and mode_path and last_seg(mode_path) in b_.local_ty(0) and (b_.impl_self_def == mode_path)}
    decs = []
    for b in prog.prod_bodies():
        if "shadowsocks" not in b.defp or b.root != b.defp:
            continue
        names = [c for (_, c, _) in b.calls()]
        if any(c.target in side_decoders for c in names) and any(c.name == "Buf::get_u8" for c in names) and "decode" in b.defp:
            decs.append(b)
            continue
        reads = any(c.name in ("Buf::get_u8", "Buf::get_u64") for c in names)
        if not reads:
            continue
        if any(is_vt(c) for c in names) or any(is_peer(c) for c in names) or \
                (any(is_own(c) for c in names) and any(c.name == "Buf::get_u8" for c in names) and "decode" in b.defp):
            decs.append(b)
    # a check extracted into a helper is analysed inside the decoder that calls it (flat view), not as a decoder of its own
    from .common import lift_to_decoders, succ_dom, edge_dom
    decs = [prog.flat(b.defp) for b in outermost(prog, lift_to_decoders(prog, decs))]
    ctx.floor("V1b", "Shadowsocks-2022 header/datagram decoders", 3, len(decs))
    for body in decs:
        acc = accept_blocks_of(body)
        ctx.floor("V1b", f"accepting returns in {last_seg(body.defp)}", 1, len(acc))
        # --- timestamp
        vcalls = [(blk, c, t) for (blk, c, t) in body.calls() if is_vt(c)]
        if not vcalls:
            ctx.ob("V1b", body.defp, "timestamp-check", loc(body.sp), False, "decoder never calls the timestamp window function")
        for (blk, c, t) in vcalls:
            p = op_place(t["args"][0]) if t["args"] else None
            src_ok = False
            if p is not None:
                _, calls, _ = body.slice_back([p[0]])
                src_ok = any(cc.name == "Buf::get_u64" for (_, cc, _) in calls)
            ctx.ob("V1b", body.defp, "timestamp-from-header", loc(t["sp"]), src_ok,
                   "timestamp argument " + ("derives" if src_ok else "does NOT derive") + " from get_u64 of the header")
            for ab in acc:
                ok, why = succ_dom(prog, body, blk, ab)
                ctx.ob("V1b", body.defp, "accept-behind-timestamp", loc(t["sp"]), ok, why)
        # --- type byte
        type_ok_sites = 0
        for b in body.rpo():
            t = body.term(b)
            if not t or t["k"] != "switch":
                continue
            cmp_ = const_cmp_of_switch(body, b)
            if not cmp_ or cmp_[0] not in ("Eq", "Ne"):
                continue
            op, a, bb_, ft, tt = cmp_
            pa, pb = op_place(a), op_place(bb_)
            if pa is None or pb is None:
                continue
            _, ca, _ = body.slice_back([pa[0]])
            _, cb, _ = body.slice_back([pb[0]])
            na = {("peer-type" if is_peer(c) else "own-type" if is_own(c) else c.name) for (_, c, _) in ca}
            nb = {("peer-type" if is_peer(c) else "own-type" if is_own(c) else c.name) for (_, c, _) in cb}
            exp = {"peer-type", "own-type"}
            if ("Buf::get_u8" in na and nb & exp) or ("Buf::get_u8" in nb and na & exp):
                type_ok_sites += 1
                eq_t = tt if op == "Eq" else ft
                ne_t = ft if op == "Eq" else tt
                for ab in acc:
                    ok = edge_dom(prog, body, b, eq_t, ab)
                    ctx.ob("V2", body.defp, "accept-behind-type-check", loc(t["sp"]), ok,
                           "accepting return is " + ("" if ok else "NOT ") + "dominated by the type-equal edge")
                ok = err_only(prog, body, ne_t)
                ctx.ob("V2", body.defp, "type-mismatch-rejects", loc(t["sp"]), ok, "type mismatch edge only reaches an Err return" if ok else "type mismatch edge can reach a non-Err return")
                # the expectation must be the *receiver's* expectation: expect_u8() of own mode, or to_u8() of the opposite constant
                which = (nb if "Buf::get_u8" in na else na) & exp
                ctx.ob("V2", body.defp, "type-expectation-source", loc(t["sp"]), bool(which), f"expected type comes from {sorted(which)}")
        if type_ok_sites == 0:
            # the same check written over the side enum: the byte is decoded into a side and compared with the side this receiver reads from
            got = _typed_type_check(ctx, prog, body, acc, mode_path)
            if got:
                type_ok_sites += got
                typed_checks.append(body.defp)
        if type_ok_sites == 0:
            ctx.ob("V2", body.defp, "type-check", loc(body.sp), False, "no comparison of the header's type byte with the expected type")
    # the own-type / peer-type tables exist and are complementary (B7)
    # where the decoders compare sides (typed check) the `expected byte` table is replaced by the byte->side decoder, judged at the comparison
    ctx.floor("V2", "Mode type-byte tables (own = {client:0, server:1}, peer = 1 - own)", 2, len(own_fns) + len(peer_fns) + (1 if typed_checks else 0))
    ok = bool(own_fns) and (bool(peer_fns) or bool(typed_checks))
    ctx.ob("V2", "protocol::shadowsocks::Mode", "to/expect complementary", "octo-squirrel/src/protocol/shadowsocks.rs", ok,
           f"u8 tables of Mode: {tabs}; need one with client=0, server=1 and one with the complement", ordinal=False)

    # ---------------- V3: salt replay (server stream) -------------------------------------------
    ctx.floor("V3", "replay-cache accessors (lookup / record under the mutex)", 2, len(lookup_fns) + len(record_fns))
    stream_decs = [b for b in decs if any(is_lookup(c) or is_record(c) for (_, c, _) in b.calls()) or "::tcp::" in b.defp]
    chk = [b for b in decs if any(is_lookup(c) or (is_record(c) and prog.body(c.target).local_ty(0) == "bool") for (_, c, _) in b.calls())]
    ctx.floor("V3", "stream header decoders that look the salt up", 1, len(chk))
    for body in stream_decs:
        acc = accept_blocks_of(body)
        # (a lookup made *inside* the record function is part of recording, not the decoder's lookup step)
        def _inside_record(blk_):
            o_ = getattr(body, "origin", None)
            return bool(o_) and prog.body(o_[blk_]) is not None and prog.body(o_[blk_]).root in record_fns
        cn = [(blk, c, t) for (blk, c, t) in body.calls() if is_lookup(c) and not _inside_record(blk)]
        # a test-and-set (a record function that answers `was it new?`) made before any open is this decoder's lookup step as well
        tas = [(blk, c, t) for (blk, c, t) in body.calls() if is_record(c) and prog.body(c.target).local_ty(0) == "bool"]
        if not cn:
            cn = [x for x in tas if not any(body.dominates(ob_, x[0]) and ob_ != x[0] for (ob_, _, _) in
                                            [(b2, c2, t2) for (b2, c2, t2) in body.calls() if c2.name == "Authenticator::open" or c2.method in ("decrypt_in_place", "new_decoder_with_eih")])]
        tas_blocks = {x[0] for x in tas}
        sn = [(blk, c, t) for (blk, c, t) in body.calls() if is_record(c)]
        opens = [(blk, c, t) for (blk, c, t) in body.calls() if c.name == "Authenticator::open" or c.method in ("decrypt_in_place", "new_decoder_with_eih")]
        if not cn:
            ctx.ob("V3", body.defp, "salt-lookup", loc(body.sp), False, "stream header decoder never looks the salt up in the replay cache")
            continue
        for (blk, c, t) in cn:
            gates = [g for g in gates_of_value(body, t["dest"][0]) if g.kind == "bool"]
            ok_dom = False
            ok_rej = False
            for g in gates:
                miss_t = g.bool_target(blk in tas_blocks)       # lookup: true = seen before; test-and-set: true = was new
                hit_t = g.bool_target(blk not in tas_blocks)
                if acc and all(edge_dom(prog, body, g.block, miss_t, ab) for ab in acc):
                    ok_dom = True
                if err_only(prog, body, hit_t):
                    ok_rej = True
            ctx.ob("V3", body.defp, "accept-behind-salt-miss", loc(t["sp"]), ok_dom, "accepting return dominated by the cache-miss edge" if ok_dom else "accepting return NOT dominated by the cache-miss edge of the salt lookup")
            ctx.ob("V3", body.defp, "salt-hit-rejects", loc(t["sp"]), ok_rej, "cache hit only reaches Err" if ok_rej else "cache hit can reach a non-Err return")
            for (ob_, oc, ot) in opens:
                ok = body.dominates(blk, ob_) and blk != ob_
                ctx.ob("V3", body.defp, "lookup-before-open", loc(ot["sp"]), ok, f"salt lookup dominates {oc.name}" if ok else f"{oc.name} is reachable without a prior salt lookup")
        if not sn:
            ctx.ob("V3", body.defp, "salt-recorded", loc(body.sp), False, "accepted salt is never recorded")
        for (blk, c, t) in sn:
            # the replay cache is bounded (an LRU with a capacity): an entry made for bytes that nobody has authenticated lets anyone
            # without the key push recorded salts out (each garbage connection costs one entry), after which a captured request is accepted again
            auth_first = any(succ_dom(prog, body, ob_, blk)[0] for (ob_, _, _) in opens if ob_ != blk)
            ctx.ob("V3", body.defp, "salt-recorded-only-after-authentication", loc(t["sp"]), auth_first,
                   "the salt enters the replay cache only behind a successful AEAD open of the header" if auth_first else
                   f"`{c.name}` puts the salt into the (bounded, evict-on-insert) replay cache on a path where no AEAD open of this request has succeeded yet: unauthenticated "
                   "connections fill the cache and evict the salts of accepted requests, which can then be replayed inside their timestamp window")
            for ab in acc:
                ok = body.dominates(blk, ab)
                ctx.ob("V3", body.defp, "salt-recorded-before-accept", loc(t["sp"]), ok, "set_nonce dominates the accepting return" if ok else "accepting return reachable without recording the salt")
            # the established state (the session decoder kept in the codec) is installed only after the salt is recorded:
            # otherwise a later call continues with that decoder although this request never entered the replay cache
            gs = [g for g in gates_of_value(body, t["dest"][0]) if g.kind == "bool"]
            for bb in body.rpo():
                for s_ in body.stmts(bb):
                    if s_["k"] not in ("assign", "setdiscr"):
                        continue
                    pl = s_["p"]
                    if pl[0] != 1 or not pl[1] or pl[1][0][0] != "deref" or len(pl[1]) < 2:
                        continue
                    if gs:
                        ok = any(edge_dom(prog, body, g.block, g.bool_target(True), bb) for g in gs)
                    else:
                        ok = body.dominates(blk, bb) and blk != bb
                    ctx.ob("V3", body.defp, "state-installed-after-salt-recorded", loc(s_["sp"]), ok,
                           "the codec's state is written only behind the successful recording of the salt" if ok else
                           "the codec's own state (session decoder) is written on a path that has not recorded the salt: the request is continued "
                           "by later calls without ever entering the replay cache, so a copy of it is accepted again")
            # same salt local as the lookup
            same = False
            p_set = op_place(t["args"][1]) if len(t["args"]) > 1 else None
            if p_set is not None:
                s1, _, _ = body.slice_back([p_set[0]])
                for (_, _, t2) in cn:
                    p_chk = op_place(t2["args"][1]) if len(t2["args"]) > 1 else None
                    if p_chk is not None:
                        s2, _, _ = body.slice_back([p_chk[0]])
                        named1 = {body.local_name(l) for l in s1 if body.local_name(l)}
                        named2 = {body.local_name(l) for l in s2 if body.local_name(l)}
                        roots1 = {l for l in s1 if body.locals[l].get("user")}
                        roots2 = {l for l in s2 if body.locals[l].get("user")}
                        if roots1 & roots2:
                            same = True
            ctx.ob("V3", body.defp, "recorded-salt-is-looked-up-salt", loc(t["sp"]), same, "set_nonce and check_nonce take the same salt variable" if same else "set_nonce argument does not derive from the looked-up salt")
    # cache expiry constant
    ctor = []
    for body in prog.prod_bodies():
        if "shadowsocks" not in body.defp:
            continue
        for (blk, c, t) in body.calls():
            if (c.method == "with_expiry_duration_and_capacity" or c.method == "with_expiry_duration") and c.args and c.args[0].get("s", "").startswith("[u8;"):
                ctor.append((body, blk, c, t))
    ctx.floor("V3", "salt cache constructors", 1, len(ctor))
    for (body, blk, c, t) in ctor:
        secs = None
        p = op_place(t["args"][0])
        k0 = op_const(t["args"][0])
        if p is None and k0 is not None and k0.get("item"):
            # a named constant (`const SALT_TTL: Duration = Duration::from_secs(60)`): evaluate its initialiser
            cb_ = prog.bodies.get(k0["item"])
            for (_, cc, tt) in (cb_.calls() if cb_ is not None else []):
                if cc.name == "Duration::from_secs":
                    secs = op_int(tt["args"][0])
                elif cc.name == "Duration::from_millis" and op_int(tt["args"][0]) is not None:
                    secs = op_int(tt["args"][0]) / 1000.0
        if p is not None:
            for d in body.defs().get(p[0], []):
                if d[0] == "call":
                    cc = Callee(d[2]["f"])
                    if cc.name == "Duration::from_secs":
                        secs = op_int(d[2]["args"][0])
                    elif cc.name == "Duration::from_millis" and op_int(d[2]["args"][0]) is not None:
                        secs = op_int(d[2]["args"][0]) / 1000.0
        ok = secs is not None and secs >= 2 * WINDOW_2022
        ctx.ob("V3", body.defp, "salt-cache-expiry", loc(t["sp"]), ok,
               f"salt cache expiry = {secs}s; must be >= 2 x {WINDOW_2022}s = {2 * WINDOW_2022}s (a request stamped now+30 stays fresh for 60 s)")

    # "... also when copies arrive concurrently": the test-and-set discipline of the replay cache (C09 K3 re-evaluated)
    from ..engine import Ctx
    from . import c09
    sub = Ctx(prog, "C09", ctx.tier)
    c09.run(sub)
    nk3 = 0
    for o in sub.obs:
        if o.rule == "K3":
            nk3 += 1
            parts = o.key.split("|")
            ctx.ob("V3", parts[1], "concurrent:" + parts[2], o.where, o.ok, o.detail)
    ctx.floor("V3", "replay-cache concurrency obligations (K3)", 1, nk3)
    # ---------------- V4: response bound to request ---------------------------------------------
    for body in stream_decs:
        acc = accept_blocks_of(body)
        # comparison (PartialEq::eq/ne or array compare) between header-derived bytes and identity.salt
        found = False
        from .common import bytes_equality_kind
        for (blk, c, t) in body.calls():
            helper_kind = bytes_equality_kind(prog, c.target) if c.name not in ("PartialEq::eq", "PartialEq::ne") else None
            if c.name not in ("PartialEq::eq", "PartialEq::ne") and helper_kind is None:
                continue
            if getattr(body, "is_flat", False) and body.term(blk)["k"] != "call" and helper_kind is None:
                pass
            locs = [op_place(a)[0] for a in t["args"] if op_place(a)]
            touches_salt = False
            for l in locs:
                s, _, _ = body.slice_back([l])
                for ll in s:
                    for d in body.defs().get(ll, []):
                        if d[0] == "assign" and d[3]["rv"]["k"] in ("ref", "use"):
                            pp = d[3]["rv"].get("p") or op_place(d[3]["rv"].get("op"))
                            if pp and any(e[0] == "field" and e[2] == "salt" for e in pp[1]) and any(e[0] == "field" and e[2] == "identity" for e in pp[1]):
                                touches_salt = True
            if not touches_salt:
                continue
            if helper_kind == "not-equality":
                ctx.ob("V4", body.defp, "request-salt-compare-is-an-equality", loc(t["sp"]), False,
                       f"the echoed request salt is compared with `{c.name}`, which folds the byte differences with XOR (no OR): differences in two positions cancel, so a "
                       "response bound to another request (a salt that differs by the same delta in two bytes) is accepted")
                continue
            gates = [g for g in gates_of_value(body, t["dest"][0]) if g.kind == "bool"]
            for g in gates:
                eq_truth = (c.name != "PartialEq::ne")
                eq_t = g.bool_target(eq_truth)
                ne_t = g.bool_target(not eq_truth)
                if err_only(prog, body, ne_t):
                    found = True
        ctx.ob("V4", body.defp, "request-salt-compared", loc(body.sp), found,
               "client compares the echoed request salt with its own salt, mismatch => Err" if found else
               "the request salt echoed in a response header is never compared with the salt this client sent (copied into the session instead)")
    # VMess client: response byte
    vm = [b for b in prog.methods_of_trait_impls("Decoder", "decode") if "vmess" in b.defp and "client" in b.defp]
    ctx.floor("V4", "VMess client response decoder", 1, len(vm))
    for body in vm:
        found = False
        for b in body.rpo():
            t = body.term(b)
            if not t or t["k"] != "switch":
                continue
            cmp_ = const_cmp_of_switch(body, b)
            if not cmp_ or cmp_[0] not in ("Eq", "Ne"):
                continue
            op, a, bb_, ft, tt = cmp_
            fields = []
            for x in (a, bb_):
                p = op_place(x)
                if p is None:
                    continue
                s, calls, _ = body.slice_back([p[0]])
                for l in s:
                    for d in body.defs().get(l, []):
                        if d[0] == "assign":
                            pp = d[3]["rv"].get("p") or op_place(d[3]["rv"].get("op")) if d[3]["rv"]["k"] in ("ref", "use") else None
                            if pp:
                                fields += [e[2] for e in pp[1] if e[0] == "field" and e[2]]
            if "response_header" in fields:
                ne_t = ft if op == "Eq" else tt
                if err_only(prog, body, ne_t):
                    found = True
                    # the body decoder may only be installed behind the equal edge
                    eq_t = tt if op == "Eq" else ft
                    for (blk, c, t2) in body.calls():
                        if c.method == "new_decoder":
                            ok = edge_dom(prog, body, b, eq_t, blk)
                            ctx.ob("V4", body.defp, "body-decoder-behind-response-byte", loc(t2["sp"]), ok,
                                   "body decoder is only created behind the response-byte-equal edge" if ok else "body decoder can be created without the response byte check")
        ctx.ob("V4", body.defp, "response-byte-compared", loc(body.sp), found,
               "first byte of the opened response header is compared with the byte sent; mismatch => Err" if found else "response authentication byte is not checked")
    # VMess response keys derive from SHA-256 of request key/iv
    ss = [b for b in prog.prod_bodies() if b.defp.endswith("::init") and "vmess::session" in b.defp]
    ctx.floor("V4", "VMess session constructors", 2, len(ss))
    for body in ss:
        names = {c.name for (_, c, _) in body.calls()}
        uses_sha = any("Sha256" in (a.get("s", "") if isinstance(a, dict) else "") for (_, c, _) in body.calls() for a in c.args) or \
            any("sha2" in body.local_ty(i).lower() for i in range(len(body.locals)))
        ok = uses_sha and ("Digest::update" in names or "Update::update" in names)
        ctx.ob("V4", body.defp, "response-keys-from-request", loc(body.sp), ok, "response key/iv derive from SHA-256 of the request key/iv" if ok else "response key/iv no longer derived with SHA-256")


def _typed_type_check(ctx, prog, body, acc, mode_path):
    """V2 over the side enum: `Mode::decode(byte) == expected_side`. The decoder of the byte must be *strict* - every byte value that is not
    one of the defined types is refused (Err / None), never mapped onto a side: a catch-all arm makes 254 undefined type bytes pass as the
    side the catch-all names. The comparison's equal edge must dominate every accepting return. Returns the number of sound comparisons."""
    if mode_path is None:
        return 0
    n_ok = 0
    for (blk, c, t) in body.calls():
        fb = prog.body(c.target)
        if fb is None or fb.root != fb.defp or fb.argc != 1 or fb.local_ty(1) != "u8" or last_seg(mode_path) not in fb.local_ty(0) or not t["args"]:
            continue
        p = op_place(t["args"][0])
        if p is None or not any(cc.name == "Buf::get_u8" for (_, cc, _) in body.slice_back([p[0]])[1]):
            continue
        # strictness of the byte -> side decoder
        strict = None
        for sb in fb.rpo():
            st = fb.term(sb)
            sp_ = op_place(st["d"]) if st and st["k"] == "switch" else None
            if sp_ is None:
                continue
            if 1 not in fb.slice_back([sp_[0]])[0]:
                continue
            other = st["otherwise"]
            listed = {v for v, _ in st["arms"]}
            builds_side = False
            for x in fb.reach_from(other):
                for s_ in fb.stmts(x):
                    if s_["k"] == "assign" and s_["rv"]["k"] == "agg" and s_["rv"].get("ak") == "adt" and s_["rv"].get("def") == mode_path and not any(fb.can_reach(a_, x) for _, a_ in st["arms"] if a_ != other):
                        builds_side = True
            strict = not builds_side
            break
        ctx.ob("V2", body.defp, "type-byte-decoding-is-strict", loc(t["sp"]), bool(strict),
               f"`{last_seg(fb.defp)}` maps only the defined type bytes onto a side and refuses every other value" if strict else
               f"`{last_seg(fb.defp)}` has a catch-all arm that maps every type byte it does not list onto a side: on the receiver that expects that side, headers "
               "whose type byte is any of the undefined values are accepted as well-typed (the comparison that follows is between sides, not bytes)")
        # the comparison of the decoded side with the expected side gates every accept
        fwd, fcalls, _ = body.slice_fwd([t["dest"][0]])
        for (cb_, cc, ct, _i) in fcalls:
            if cc.name in ("PartialEq::eq", "PartialEq::ne"):
                for g in gates_of_value(body, ct["dest"][0]):
                    if g.kind != "bool":
                        continue
                    eq_t = g.bool_target(cc.name == "PartialEq::eq")
                    okd = bool(acc) and all(edge_dom_(prog, body, g.block, eq_t, ab) for ab in acc)
                    ctx.ob("V2", body.defp, "accept-behind-type-check", loc(ct["sp"]), okd,
                           "accepting return is " + ("" if okd else "NOT ") + "dominated by the side-equal edge")
                    if okd and strict:
                        n_ok += 1
    return n_ok


def edge_dom_(prog, body, src, dst, site):
    from .common import edge_dom
    return edge_dom(prog, body, src, dst, site) if getattr(body, "is_flat", False) else body.edge_dominates(src, dst, site)


def mode_table(body):
    """variant discriminant -> returned integer constant, for a `match self { A => k, B => k' }` function"""
    out = {}
    for b in body.rpo():
        t = body.term(b)
        if t and t["k"] == "switch":
            # follow each arm to the constant assigned to _0
            arms = [(v, tgt) for v, tgt in t["arms"]]
            vals_seen = {v for v, _ in arms}
            arms.append((None, t["otherwise"]))
            for v, tgt in arms:
                k = _ret_const(body, tgt)
                if k is not None:
                    if v is None:
                        # otherwise arm: the remaining variant (two-variant enums)
                        rest = {0, 1} - vals_seen
                        for r in rest:
                            out[r] = k
                    else:
                        out[v] = k
            break
    return out


def _ret_const(body, blk, depth=0):
    if depth > 6:
        return None
    for s in body.stmts(blk):
        if s["k"] == "assign" and s["p"][0] == 0 and s["rv"]["k"] == "use":
            return op_int(s["rv"]["op"])
    succ = body.succ(blk)
    if len(succ) == 1:
        return _ret_const(body, succ[0], depth + 1)
    return None
