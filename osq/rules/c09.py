"""C09 — concurrent flows are independent: shared-state discipline (DESIGN.md 4/C09)."""
import re

from ..mir import Callee, last_seg, loc, op_const, op_place
from .common import gates_of_value, returns_variant

EXPLANATION = (
    "K0 inventory: every static and every interior-mutability field (Mutex/RwLock/Cell/RefCell/Atomic*/OnceLock/UnsafeCell) of the workspace "
    "is enumerated and each access is classified by its discipline (atomics: no store that derives from a separate load of the same static; "
    "`static mut`: no access; routing tables: plain locals never captured by a spawned task). K1 no expression turns a shared reference / "
    "pointer into a mutable one (cast_mut, *const->*mut casts, transmute, raw as_mut) on a value that derives from a static, an Arc payload or "
    "a shared borrow. K2 a try_lock whose failure edge skips the guarded security operation is a violation. K3 salt-cache membership test and "
    "insert on the accept path must be one guarded operation. K4 no std lock guard is live across an await. K5 no hand-written unsafe impl Send/Sync.")
ASSUMPTIONS = ["equality of concurrent and serial results is schedule-level and is not decided; the rules decide absence of unsynchronised shared mutation",
               "Rust's Send/Sync checking is trusted for everything that is not inventoried here"]

INTERIOR = ("Mutex<", "RwLock<", "Cell<", "RefCell<", "Atomic", "OnceLock<", "OnceCell<", "UnsafeCell<", "LazyLock<", "LazyCell<")


def run(ctx):
    k6b_cipher_cache_key(ctx)
    k8_reply_path_not_shared(ctx)
    k6_shared_table_keys(ctx)
    k7_process_wide_slots(ctx)
    prog = ctx.prog
    bodies = [b for b in prog.prod_bodies() if "::_" not in b.defp]
    # ---------------- K0 inventory ---------------------------------------------------------------
    statics = [it for it in prog.items if it["k"] == "static" and "::test" not in it["path"] and "::_" not in it["path"]]
    fields = []
    for it in prog.items:
        if it["k"] == "struct" and "::test" not in it["path"]:
            for (fn, fty) in it["fields"]:
                if any(k in fty for k in INTERIOR):
                    fields.append((it, fn, fty))
    ctx.floor("K0", "shared mutable objects (statics + interior-mutability fields)", 2, len(statics) + len(fields))
    for it in statics:
        ty = it["ty"]
        where = loc(it["sp"])
        uses = []
        for b in bodies:
            for blk in b.rpo():
                for s in b.stmts(blk):
                    if s["k"] == "assign":
                        for o in b.operands_of_rvalue(s["rv"]):
                            c = op_const(o)
                            if c and c.get("static") == it["path"]:
                                uses.append((b, blk, s))
        if it.get("mut"):
            ctx.ob("K0", it["path"], "static-mut", where, not uses, f"`static mut` of type {ty} is accessed at {len(uses)} site(s): unsynchronised shared mutation", ordinal=False)
            continue
        if not any(k in ty for k in INTERIOR):
            ctx.ob("K0", it["path"], "immutable-static", where, True, f"static of type {ty[:60]} has no interior mutability", nontrivial=False, ordinal=False)
            continue
        if "Atomic" in ty:
            # read-modify-write must be one atomic operation
            for b in {u[0].defp: u[0] for u in uses}.values():
                loads = [(blk, c, t) for (blk, c, t) in b.calls() if c.method == "load" and "Atomic" in c.self_s]
                stores = [(blk, c, t) for (blk, c, t) in b.calls() if c.method == "store" and "Atomic" in c.self_s]
                for (sb, sc, st) in stores:
                    p = op_place(st["args"][1]) if len(st["args"]) > 1 else None
                    bad = False
                    if p is not None:
                        _, calls, _ = b.slice_back([p[0]])
                        bad = any(cc.method == "load" and "Atomic" in cc.self_s for (_, cc, _) in calls)
                    ctx.ob("K0", b.defp, f"atomic-rmw:{last_seg(it['path'])}", loc(st["sp"]), not bad,
                           "store does not depend on a separate load" if not bad else
                           f"value stored into static {last_seg(it['path'])} derives from a separate load of it: two concurrent flows can read the same value (lost update / duplicate id); use one fetch_* / compare_exchange")
            ctx.ob("K0", it["path"], "atomic-static-inventoried", where, True, f"atomic static used in {len(uses)} site(s)", ordinal=False)
            continue
        if any(k in ty for k in ("Mutex<", "RwLock<")):
            ctx.ob("K0", it["path"], "lock-protected-static", where, True, f"static guarded by its own lock ({ty[:50]}); K2/K4 apply", ordinal=False)
            continue
        # OnceLock / LazyLock etc.: contents are shared immutably -> any path to &mut is K1's business
        ctx.ob("K0", it["path"], "once-initialised-static", where, True, f"{ty[:70]}: contents shared by reference after initialisation (mutation must go through K1-clean code)", ordinal=False)
    for (it, fn, fty) in fields:
        ctx.ob("K0", it["path"], f"field:{fn}", loc(it["sp"]), True, f"interior-mutability field of type {fty[:70]}", nontrivial=False, ordinal=False)

    # routing tables are single-owner: never captured by a spawned task, never placed in an Arc
    tables = 0
    for b in bodies:
        lru_locals = [i for i, l in enumerate(b.locals) if "LruCache<" in l["ty"].get("s", "") and l.get("user") and not l["ty"].get("s", "").startswith("&")]
        if not lru_locals or "get_cipher" in b.defp:
            continue
        for l in lru_locals:
            tables += 1
            fwd, calls, _ = b.slice_fwd([l])
            leaked = [c for (_, c, _, _) in calls if c.target.endswith("task::spawn::spawn") or c.name in ("Arc::new", "Mutex::new")]
            # by-value moves only (references passed to methods are fine)
            moved = False
            for (blk, c, t, i) in calls:
                if c.target.endswith("task::spawn::spawn") or c.name == "Arc::new":
                    moved = True
            ctx.ob("K0", b.defp, f"table-single-owner:{b.local_name(l)}", loc(b.sp), not moved,
                   "routing table is a plain local owned by one task" if not moved else "routing table is moved into a spawned task / Arc: no longer single-owner")
    ctx.floor("K0", "single-owner routing tables", 2, tables)

    # ---------------- K1 shared -> mutable ---------------------------------------------------------------
    n_k1 = 0
    for b in bodies:
        for (blk, c, t) in b.calls():
            bad = None
            if c.target.endswith("const_ptr::{impl#0}::cast_mut") or c.name.endswith("::cast_mut"):
                bad = "cast_mut()"
            elif c.target.startswith("core::intrinsics::transmute") or c.target.endswith("mem::transmute"):
                tys = " ".join(a.get("s", "") for a in c.args)
                if re.search(r"&mut |\*mut ", tys.split(" ", 1)[-1] if " " in tys else tys) and "&mut" not in (c.args[0].get("s", "") if c.args else ""):
                    bad = "transmute to a mutable reference/pointer"
            if bad is None:
                continue
            n_k1 += 1
            p = op_place(t["args"][0]) if t["args"] else None
            src = "?"
            shared = True
            if p is not None:
                locs, calls, consts = b.slice_back([p[0]])
                st = [cc.get("static") for (_, cc) in consts if cc.get("static")]
                if st:
                    src = "static " + last_seg(st[0])
                elif any(cc.name in ("OnceLock::get_or_init", "OnceLock::get", "Arc::as_ptr", "Deref::deref") for (_, cc, _) in calls):
                    src = "shared container"
                elif any(cc.target == "core::ptr::from_ref" for (_, cc, _) in calls):
                    src = "a shared reference"
            ctx.ob("K1", b.defp, f"shared-to-mut:{bad.split('(')[0]}", loc(t["sp"]), False,
                   f"{bad} on a pointer that derives from {src}: every thread that calls this function gets `&mut` to the same storage without a lock (data race; references handed out may dangle after another thread's insert/evict)")
        for blk in b.rpo():
            for s in b.stmts(blk):
                if s["k"] == "assign" and s["rv"]["k"] == "cast" and "PtrToPtr" in s["rv"]["ck"] and s["rv"]["from"].startswith("*const") and s["rv"]["to"].startswith("*mut") and not s["sp"][3]:
                    n_k1 += 1
                    ctx.ob("K1", b.defp, "shared-to-mut:as-mut-ptr", loc(s["sp"]), False, f"`{s['rv']['from']}` cast to `{s['rv']['to']}`: mutable access through a shared pointer")
    ctx.ob("K1", "workspace", "scan", "-", True, f"{n_k1} shared->mutable conversion site(s) inspected in {len(bodies)} bodies", nontrivial=False, ordinal=False)

    # ---------------- K2 try_lock ------------------------------------------------------------------------
    for b in bodies:
        for (blk, c, t) in b.calls():
            if c.method in ("try_lock", "try_write", "try_read") and ("Mutex" in c.self_s or "RwLock" in c.self_s or "sync" in c.target):
                gates = [g for g in gates_of_value(b, t["dest"][0]) if g.kind == "result"]
                skipped = False
                for g in gates:
                    err_t = g.target_for(1)
                    ok_t = g.target_for(0)
                    # the contended edge reaches a return without the guarded operation
                    ok_calls = {x for x in b.reach_from(ok_t) if b.term(x) and b.term(x)["k"] == "call"} - {x for x in b.reach_from(err_t)}
                    if ok_calls and any(b.term(x)["k"] == "return" for x in b.reach_from(err_t) if b.term(x)):
                        skipped = True
                ctx.ob("K2", b.defp, "try-lock-skips-guarded-operation", loc(t["sp"]), not skipped,
                       "lock acquisition cannot be skipped" if not skipped else
                       f"{c.name}: when another flow holds the lock the guarded operation is silently skipped (replay lookup answers 'not seen' / the salt is not recorded)")

    # ---------------- K3 test-and-set under one guard --------------------------------------------------
    accessors = {}
    for b in bodies:
        if b.root != b.defp:
            continue
        fcalls = prog.flat(b.defp).calls()      # the lock may be taken in a private helper of the cache type
        from .common import is_lock_call
        locks = [(blk, c, t) for (blk, c, t) in fcalls if is_lock_call(c)]
        if not locks:
            continue
        ops = {c.method for (_, c, _) in fcalls if "LruCache" in c.self_s or "lru_time_cache" in c.target}
        if "with_expiry_duration_and_capacity" in ops or "with_expiry_duration" in ops or "new" in ops and len(ops) == 1:
            continue
        kind = set()
        if ops & {"get", "contains_key", "peek", "get_mut"}:
            kind.add("lookup")
        if ops & {"insert", "entry"}:
            kind.add("insert")
            # an insert whose "was it new?" answer is the function's result is a test-and-set
            if b.local_ty(0) == "bool":
                fb_ = prog.flat(b.defp)
                locs, calls, _ = fb_.slice_back([0])
                if any(cc.method == "insert" for (_, cc, _) in calls):
                    kind.add("test-and-set")
        if {"lookup", "insert"} <= kind and "test-and-set" not in kind:
            # membership test and insert in one function are one operation only under ONE guard: which acquisition does each go through?
            fb_ = prog.flat(b.defp)

            def guard_sites(meths):
                out = set()
                for (blk2, c2, t2) in fb_.calls():
                    if c2.method in meths and ("LruCache" in c2.self_s or "lru_time_cache" in c2.target) and t2["args"] and op_place(t2["args"][0]):
                        _, cs2, _ = fb_.slice_back([op_place(t2["args"][0])[0]])
                        out |= {bb for (bb, cc, _) in cs2 if is_lock_call(cc)}
                return out
            g_look, g_ins = guard_sites(("get", "contains_key", "peek", "get_mut")), guard_sites(("insert", "entry"))
            if g_look and g_ins and not (g_look & g_ins):
                kind.add("split-guard")
        if kind and b.argc >= 2 and b.local_ty(0) in ("bool", "()"):
            accessors[b.defp] = kind
    # K3b a recorded salt stays recorded: nothing on the decode path may take entries out of the replay cache. (A flow that fails after
    # another flow recorded the same salt would otherwise delete the other flow's record, and a later copy is accepted as new.)
    for b in bodies:
        for (blk, c, t) in b.calls():
            if c.method in ("remove", "clear", "pop", "retain", "remove_expired") and ("LruCache" in c.self_s or "lru_time_cache" in c.target):
                rp = op_place(t["args"][0]) if t["args"] else None
                kty = b.local_ty(rp[0]) if rp is not None else ""
                if "[u8;" in kty.split(",")[0] or "[u8;" in " ".join(a.get("s", "") for a in c.args[:1]):
                    ctx.ob("K3", b.defp, f"recorded-salt-is-never-removed:{c.method}", loc(t["sp"]), False,
                           f"`{c.name}` takes an entry out of the salt replay cache: a salt that was recorded for an accepted handshake can be forgotten before its lifetime "
                           "ends (e.g. by a concurrent copy of the same handshake that fails), after which a replay of that handshake is accepted")
    ctx.floor("K3", "salt-cache accessor functions", 1, len(accessors))
    # users: the decode step that uses the cache. A decoder split into helper stages is judged as a whole: climb from the function that
    # calls an accessor to the outermost method of the same type that (transitively) contains it
    callers = {}
    for b in bodies:
        for (blk, c, t) in b.calls():
            cb = prog.body(c.target)
            if cb is not None and cb.root != b.root:
                callers.setdefault(cb.root, set()).add(b.root)
    direct = {b.root for b in bodies if b.defp not in accessors and any(c.target in accessors for (_, c, _) in b.calls())}
    tops = set()
    for r in direct:
        cur = r
        seen_up = {r}
        for _ in range(4):
            ty = prog.body(cur).impl_self_def
            ups = [u for u in callers.get(cur, ()) if prog.body(u) is not None and prog.body(u).impl_self_def == ty and ty is not None and u not in accessors and not prog.body(u).impl_trait]
            if len(ups) != 1 or ups[0] in seen_up:
                break
            cur = ups[0]
            seen_up.add(cur)
        tops.add(cur)
    users = []
    for r in sorted(tops | direct):
        if r in direct and r not in tops and any(u[0].root != r and r in {prog.body(o).root for o in u[0].origin} for u in users):
            continue
        fb_ = prog.flat(r)
        cs = [(blk, c, t) for (blk, c, t) in fb_.calls() if c.target in accessors and prog.body(fb_.origin[blk]).root not in accessors]
        if cs:
            users.append((fb_, cs))
    # a stage that is spliced into another user's flat view is judged there
    kept = [u for u in users if not any(w is not u and u[0].root in {prog.body(o).root for o in w[0].origin} and w[0].root != u[0].root for w in users)]
    users = kept or sorted(users, key=lambda u: -u[0].n)[:1]      # mutually recursive stages contain each other: judge the larger view
    ctx.floor("K3", "accept paths using the salt cache", 1, len(users))
    for (b, cs) in users:
        combined = [x for x in cs if accessors[x[1].target] >= {"lookup", "insert"} and "split-guard" not in accessors[x[1].target]]
        for x in cs:
            if "split-guard" in accessors[x[1].target]:
                ctx.ob("K3", b.defp, "test-and-set-under-one-guard", loc(x[2]["sp"]), False,
                       f"`{x[1].name}` tests membership under one lock acquisition and inserts under another: of two concurrent copies of one handshake both can pass the test "
                       "before either records the salt, and both are accepted")
        for x in cs:
            if "test-and-set" in accessors[x[1].target]:
                # the caller must refuse when the salt was already there
                gs = [g for g in gates_of_value(b, x[2]["dest"][0]) if g.kind == "bool"]
                from .common import err_only
                decides = bool(gs) and any(err_only(prog, b, g.bool_target(False)) for g in gs)
                if decides:
                    combined.append(x)
                # every call, not just one of them: a second call site that records the salt and ignores the answer accepts a handshake whose
                # salt a concurrent copy recorded first (the earlier separate lookup is not the same locked step)
                ctx.ob("K3", b.defp, "test-and-set-answer-decides", loc(x[2]["sp"]), decides,
                       "the `already recorded` answer of the atomic test-and-set only reaches a refusal" if decides else
                       f"`{x[1].name}` answers whether the salt was already recorded, and this call site does not refuse on that answer (result unused or not leading to Err): "
                       "the membership test that protects this path is a separate, earlier lock acquisition, so of several concurrent copies of one handshake that all passed "
                       "it, all are accepted")
        inserts_plain = [x for x in cs if accessors[x[1].target] == {"insert"}]
        lookups = [x for x in cs if accessors[x[1].target] == {"lookup"}]
        inserts = [x for x in cs if accessors[x[1].target] == {"insert"}]
        ok = bool(combined) and not inserts
        ctx.ob("K3", b.defp, "test-and-set-under-one-guard", loc(cs[0][2]["sp"]), ok,
               "membership test and insert are one locked operation" if ok else
               f"salt lookup ({len(lookups)} call) and insert ({len(inserts)} call) take the lock separately: of two concurrent copies of one handshake both can pass the lookup before either records the salt")

    # ---------------- K4 guard across await -----------------------------------------------------------
    n_cor = 0
    for b in bodies:
        ys = [blk for blk in b.rpo() if b.term(blk) and b.term(blk)["k"] == "yield"]
        if not ys:
            continue
        n_cor += 1
        for (blk, c, t) in b.calls():
            if c.method in ("lock", "read", "write") and ("std::sync" in c.target) and ("Mutex" in c.self_s or "RwLock" in c.self_s):
                g = t["dest"][0]
                carriers, _, _ = b.slice_fwd([g])
                # blocks that end the guard's life
                dead = set()
                for x in b.rpo():
                    tt = b.term(x)
                    if tt and tt["k"] == "drop" and tt["p"][0] in carriers:
                        dead.add(x)
                    for s in b.stmts(x):
                        if s["k"] == "dead" and s["l"] in carriers:
                            dead.add(x)
                reach = b.reach_from(t["t"], avoid=frozenset(dead)) if t["t"] is not None else set()
                bad = [y for y in ys if y in reach]
                ctx.ob("K4", b.defp, "std-guard-across-await", loc(t["sp"]), not bad, "guard dropped before the next await" if not bad else "a std lock guard is live across an .await: the worker thread can block every other flow scheduled on it")
    ctx.ob("K4", "workspace", "scan", "-", True, f"{n_cor} coroutine bodies scanned for std lock guards across await", nontrivial=False, ordinal=False)

    # ---------------- K9 a lock is not taken again while its guard is alive --------------------------------
    from .common import relock_sites, is_lock_call
    n_locks = sum(1 for b in bodies for (_, c, _) in b.calls() if is_lock_call(c) and "tokio::sync" not in c.target)
    ctx.floor("K9", "blocking lock acquisitions scanned", 1, n_locks)
    for (b, t, t2, c2, how) in relock_sites(prog):
        ctx.ob("K9", b.defp, f"no-relock-while-guard-alive:{c2.method}", loc(t2["sp"]), False,
               f"`{c2.name}` acquires the lock {how} while the guard taken at {loc(t['sp'])} is still alive (a guard that is a temporary of a match / if-let scrutinee lives "
               "to the end of that statement): the lock is not re-entrant, so the thread blocks forever holding the guard, and every other flow that needs this shared state blocks behind it")
    ctx.ob("K9", "workspace", "scan", "-", True, f"{n_locks} blocking lock acquisitions scanned for re-acquisition under a live guard", nontrivial=False, ordinal=False)

    # ---------------- K10 the task that serves several flows polls them fairly ---------------------------------
    from .common import biased_selects
    rows, n_sel = biased_selects(prog)
    ctx.floor("K10", "select! loops with two or more branches", 3, n_sel)
    for (b, t, k) in rows:
        ctx.ob("K10", b.defp, "shared-loop-select-is-fair", loc(t["sp"]), False,
               f"a `biased;` select over {k} branches in a loop: a later branch is polled only when every earlier one is idle, so sustained work on an early branch (e.g. replies "
               "queued for some sessions) keeps the loop from reading what the other flows send for as long as it lasts")
    ctx.ob("K10", "workspace", "select-scan", "-", True, f"{n_sel} select! loops scanned for `biased;`", nontrivial=False, ordinal=False)

    # ---------------- K11 no per-thread (or process-wide) scratch buffer in per-flow code -----------------------------
    # a `thread_local!` buffer is shared by every flow the runtime happens to poll on that worker thread. What one flow leaves in it - on an error
    # path that returns before the buffer is handed out or cleared - is delivered to whichever flow decodes next on that thread. Per-flow data
    # lives in per-flow objects; a thread-local that holds bytes and is touched by codec / relay code is refused.
    n_tls = 0
    for b in bodies:
        for (blk, c, t) in b.calls():
            if "LocalKey" in ((c.self_s or "") + " " + c.name) and (c.method or "").startswith(("with", "take", "replace", "set")):
                n_tls += 1
                holds = any(w in (c.self_s or "") + " " + " ".join(a.get("s", "") for a in c.args) for w in ("BytesMut", "Vec<u8>", "Bytes", "[u8;", "String"))
                ctx.ob("K11", b.defp, "no-thread-local-byte-buffer-in-flow-code", loc(t["sp"]), not holds,
                       "thread-local value holds no flow data" if not holds else
                       f"`{c.name}` works on a thread-local byte buffer from per-flow code: whatever a flow leaves in it when it returns early (an authentication error after some "
                       "chunks were already opened) is handed to the next flow that is polled on the same worker thread - one flow's plaintext delivered inside another's stream")
    ctx.ob("K11", "workspace", "tls-scan", "-", True, f"{n_tls} thread-local accesses in production code", nontrivial=False, ordinal=False)

    # ---------------- K5 unsafe impl Send/Sync ---------------------------------------------------------
    n_imp = 0
    for it in prog.items:
        if it["k"] == "impl" and it.get("trait"):
            n_imp += 1
            if it.get("unsafe") and last_seg(it["trait"]) in ("Send", "Sync") and not it.get("from_expansion"):
                ctx.ob("K5", it["path"], f"unsafe-impl-{last_seg(it['trait'])}", loc(it["sp"]), False, f"unsafe impl {last_seg(it['trait'])} for {it['self']}: bypasses the compiler's data-race checking")
    ctx.floor("K5", "trait impls scanned", 60, n_imp)
    ctx.ob("K5", "workspace", "scan", "-", True, f"{n_imp} trait impls scanned", nontrivial=False, ordinal=False)


def k6_shared_table_keys(ctx):
    """K6: a table that several flows of one task share (the client's UDP binding table) must be keyed by everything that tells those
    flows apart — C02's U2 (binding-key components), re-evaluated here: with a coarser key two flows that run at the same time use each
    other's outbound and receive each other's answers, i.e. they are no longer independent."""
    from ..engine import Ctx
    from . import c02
    sub = Ctx(ctx.prog, "C02", ctx.tier)
    c02.run(sub)
    n = 0
    for o in sub.obs:
        if o.rule == "U2":
            n += 1
            parts = o.key.split("|")
            ctx.ob("K6", parts[1], parts[2], o.where, o.ok, o.detail)
    ctx.floor("K6", "binding-table key obligations (imported from C02 U2)", 3, n)


def k7_process_wide_slots(ctx):
    """K7: a static that is not a keyed table is ONE slot for every listener and flow of the process; what it holds must not depend on
    who fills it first (a flow's result must be what it would have been had it run alone)"""
    from .common import single_slot_static_fills
    fills = single_slot_static_fills(ctx.prog)
    for (it, b, t, reason) in fills:
        ctx.ob("K7", b.defp, f"process-wide-slot-independent-of-first-caller:{last_seg(it['path'])}", loc(t["sp"]), reason is None,
               reason or f"static {last_seg(it['path'])} is filled with a value that has no run-time input")
    ctx.ob("K7", "workspace", "single-slot-statics-inventoried", "-", True, f"{len(fills)} fill site(s) of single-slot statics (keyed tables are K6's business)", nontrivial=False, ordinal=False)


def k8_reply_path_not_shared(ctx):
    """K8: the reply path of a session is not rewritten by another flow's datagram (C02 U3 re-evaluated: delivery to the wrong flow)"""
    from ..engine import Ctx
    from . import c02
    sub = Ctx(ctx.prog, "C02", ctx.tier)
    c02.run(sub)
    n = 0
    for o in sub.obs:
        if o.rule == "U3" and ("reply" in o.key or "association-address" in o.key):
            n += 1
            parts = o.key.split("|")
            ctx.ob("K8", parts[1], parts[2], o.where, o.ok, o.detail)
    ctx.floor("K8", "association reply-path obligations (U3)", 2, n)


def k6b_cipher_cache_key(ctx):
    """K6 (cipher cache): the process-wide datagram cipher cache is shared by every flow; its key must name everything the cached value depends
    on (cipher kind, key identity, session id) — C12 N4 re-evaluated: with a component missing, the first flow to use a session id decides
    the cipher for every other flow that carries the same id."""
    from ..engine import Ctx
    from . import c12
    sub = Ctx(ctx.prog, "C12", ctx.tier)
    c12.run(sub)
    n = 0
    for o in sub.obs:
        if o.rule == "N4":
            n += 1
            parts = o.key.split("|")
            ctx.ob("K6", parts[1], "cipher-cache:" + parts[2], o.where, o.ok, o.detail)
    ctx.floor("K6", "cipher-cache key obligations (N4)", 1, n)
