"""C12 — no key ever encrypts two messages with the same nonce (provenance / once-per-unit clauses; DESIGN.md 4/C12)."""
import re

from ..mir import tymatch, Callee, last_seg, loc, op_int, op_place
from .common import gates_of_value

EXPLANATION = (
    "N1 every per-session secret (stream salt, datagram salt/nonce, client and server UDP session ids, VMess request key / IV / response "
    "byte, auth-id random word, header connection nonce) derives, inside the per-session constructor itself, from a CSPRNG call "
    "(rand::rng / rand::random / the repo's dice helpers); seedable or mock RNGs are never called. N2 in both Authenticators every AEAD "
    "primitive call takes its nonce from a generator step in the same function (one step per call), the generators mutate their state on "
    "every step, and nobody else in the stream codecs calls the primitives. N3 the client's datagram encode is dominated by the packet-id "
    "increment, which must not wrap; the server's increment is checked and its overflow edge ends the association. N4 the datagram "
    "cipher-cache key is built from cipher kind, key identity and session id. N5 the material hashed into a per-session subkey "
    "(blake3::derive_key) is exactly key||salt: `[key, salt].concat()` or buffer copies whose ranges provably tile the hashed slice.")
ASSUMPTIONS = ["actual distinctness of random draws and ThreadRng entropy quality are not decided (probabilistic / library)",
               "uniqueness over whole histories is decided only through its structural causes"]

CSPRNG = ("rand::random", "rand::rng", "rand::rngs::thread::rng")


def is_csprng_call(prog, c, depth=0):
    t = c.target
    if t.startswith("rand::random") or t in ("rand::rng", "rand::rngs::thread::rng") or t.endswith("::thread_rng"):
        return True
    if c.trait and last_seg(c.trait) in ("Rng", "RngCore") and c.method in ("fill", "fill_bytes", "random", "random_range", "next_u64", "next_u32", "sample_iter"):
        return True
    # repo helpers that (transitively) draw from the thread rng
    b = prog.body(t)
    if b is not None and depth < 3 and b.defp.startswith("octo_squirrel::util::dice"):
        return any(is_csprng_call(prog, cc, depth + 1) for (_, cc, _) in b.calls())
    return False


FORBIDDEN = ("SmallRng", "StdRng", "seed_from_u64", "from_seed", "rngs::mock", "SeedableRng", "StepRng", "from_os_rng", "from_rng")


def random_locals(prog, b):
    """locals that receive CSPRNG output: call destinations and buffers passed by &mut to a fill function"""
    out = set()
    for (blk, c, t) in b.calls():
        if not is_csprng_call(prog, c):
            continue
        out.add(t["dest"][0])
        for a in t["args"]:
            p = op_place(a)
            if p is None:
                continue
            locs, _, _ = b.slice_back([p[0]], stop_call=lambda cc: not cc.name.startswith("IndexMut") and not cc.name.startswith("DerefMut") and cc.name not in ("Index::index", "IndexMut::index_mut"))
            for l in locs:
                if b.locals[l].get("user") or b.local_ty(l).startswith("[u8") or "BytesMut" in b.local_ty(l) or "Vec<u8>" in b.local_ty(l):
                    out.add(l)
    return out


def derives_from_random(prog, b, local):
    rl = random_locals(prog, b)
    locs, calls, consts = b.slice_back([local])
    return bool(locs & rl) or any(is_csprng_call(prog, c) for (_, c, _) in calls)


def _session_value_root(b, p, sess_path, depth=0):
    """which session *value* a part of a session aggregate is copied from, following copies and moves only: ("state", text) for a value stored
    in the owner's state (behind a dereference: a field of self / of a captured self), ("local", text) for a local session value (a decoded
    one, a parameter); None when the part is not read out of a session value (a constant, a call result, arithmetic)"""
    if p is None or depth > 8:
        return None
    l, proj = p[0], p[1]
    fields = [e for e in proj if e[0] == "field"]
    if fields and len(proj) >= 1:
        holder = proj[:-1]
        # the value the last field is read from
        if not holder and (b.local_ty_def(l) or "") == sess_path:
            r = _session_value_root(b, [l, []], sess_path, depth + 1)
            return r if r and r[0] == "state" else ("local", f"_{l}" + (f" ({b.local_name(l)})" if b.local_name(l) else ""))
        if any(e[0] == "deref" for e in holder):
            names = [e[2] for e in holder if e[0] == "field" and len(e) > 2 and e[2]]
            return ("state", "the stored `" + ".".join(names) + "`") if names else None
        return None
    for d in b.defs().get(l, []):
        if d[0] != "assign":
            return None
        rv = d[3]["rv"]
        q = op_place(rv.get("op")) if rv["k"] in ("use", "cast") else (rv.get("p") if rv["k"] == "ref" else None)
        if q is None:
            return None
        if not q[1] and (b.local_ty_def(l) or "") == sess_path and (b.local_ty_def(q[0]) or "") != sess_path:
            return None
        if any(e[0] == "deref" for e in q[1]) and (b.local_ty_def(l) or "") == sess_path:
            names = [e[2] for e in q[1] if e[0] == "field" and len(e) > 2 and e[2]]
            return ("state", "the stored `" + ".".join(names) + "`") if names else None
        return _session_value_root(b, q, sess_path, depth + 1)
    return None


def n6_one_nonce_sequence_per_subkey(ctx, prog, bodies, rule="N6"):
    """N6: a per-session subkey is determined by (key, salt); the nonce under it is a counter that starts at zero in whoever is built around
    that subkey. Deriving the *same* subkey twice on one path of a stream codec's set-up (same derivation function, salt from the same value)
    means two cipher states - two counters that both start at zero - seal or open under one key: the second one repeats the nonces the first
    one used (header chunks and the first payload chunks share (key, nonce)). Branches that exclude each other (with / without identity
    header) may each derive it once."""
    sub = {b.defp for b in bodies if b.root == b.defp and ("Vec<u8>" in b.local_ty(0) or "[u8;" in b.local_ty(0)) and
           any(c.target.startswith("blake3::derive_key") or (c.method == "expand" and "Hkdf" in (c.self_s or "")) for (_, c, _) in b.calls())}
    ctx.floor(rule, "session-subkey derivation functions", 2, len(sub))
    n = 0
    for b in bodies:
        if b.root != b.defp or not b.defp.startswith("octo_squirrel::codec::shadowsocks::tcp") or b.defp in sub:
            continue
        fb = prog.flat(b.defp)
        sites = [(blk, c, t) for (blk, c, t) in fb.calls() if c.target in sub and len(t["args"]) >= 2]
        if not sites:
            continue
        n += 1
        bad = None
        for i in range(len(sites)):
            for j in range(i + 1, len(sites)):
                (b1, c1, t1), (b2, c2, t2) = sites[i], sites[j]
                if c1.target != c2.target or not (fb.can_reach(b1, b2) or fb.can_reach(b2, b1)):
                    continue
                p1, p2 = op_place(t1["args"][1]), op_place(t2["args"][1])
                if p1 is None or p2 is None:
                    continue
                r1 = {l for l in fb.slice_back([p1[0]], stop_call=lambda c_: True)[0] if fb.locals[l].get("user") or 1 <= l <= fb.argc}
                r2 = {l for l in fb.slice_back([p2[0]], stop_call=lambda c_: True)[0] if fb.locals[l].get("user") or 1 <= l <= fb.argc}
                if r1 & r2:
                    bad = (t1, t2, c1)
        ctx.ob(rule, b.defp, "one-cipher-state-per-derived-subkey", loc(bad[1]["sp"]) if bad else loc(b.sp), bad is None,
               "on every path the session subkey of a (key, salt) pair is derived for one cipher state only" if bad is None else
               f"`{last_seg(bad[2].target)}` derives the subkey of one (key, salt) pair twice on one path ({loc(bad[0]['sp'])} and {loc(bad[1]['sp'])}): two cipher states with "
               "their own nonce counters, both starting at zero, work under one key - what the second one seals or opens reuses the (key, nonce) pairs of the first")
    ctx.floor(rule, "stream-codec functions that derive a session subkey", 2, n)


def n7_derived_key_on_every_path(ctx, prog, bodies, rule="N7"):
    """N7: a direction of a VMess stream has two cipher states with counters of their own that both start at zero - the body cipher and the cipher of
    the authenticated chunk length. They must never share a key; what separates them is the labelled KDF step the length cipher's key goes
    through. In the function that builds a cipher state from a labelled derivation, that derivation must lie on *every* path to the
    construction (it dominates it): an arm that skips it (e.g. for one of the algorithms) hands the body key to the second counter, and
    chunk n's length and chunk n's body are sealed under one (key, nonce)."""
    n = 0
    for b in bodies:
        if b.root != b.defp or "vmess" not in b.defp:
            continue
        fb = prog.flat(b.defp, stop=lambda cb: "::kdf::" in cb.defp, key="n7")
        kdfs = [(blk, c, t) for (blk, c, t) in fb.calls() if "::kdf::" in c.target and last_seg(c.target).startswith("kdf")]
        news = [(blk, c, t) for (blk, c, t) in fb.calls() if c.method == "new" and "Authenticator" in ((c.self_s or "") + c.target) and "vmess" in c.target]
        if not kdfs or not news or "Authenticator" not in (b.local_ty(0) or ""):
            continue
        for (nb, nc, nt) in news:
            n += 1
            ok = any(fb.dominates(kb, nb) for (kb, _, _) in kdfs)
            ctx.ob(rule, b.defp, "labelled-derivation-on-every-path-to-the-cipher-state", loc(nt["sp"]), ok,
                   "the labelled key derivation dominates the construction of the cipher state" if ok else
                   "the cipher state is constructed on a path that skips the labelled key derivation made on the other paths: on that path it is keyed with the key it was given "
                   "(the body key), so two cipher states whose counters both start at zero work under one key and seal different plaintexts under the same (key, nonce)")
    ctx.floor(rule, "cipher states built from a labelled derivation (VMess chunk-length cipher)", 1, n)


def n8_keyed_state_is_never_reset(ctx, prog, bodies, rule="N8"):
    """N8: a direction's cipher state (its subkey and its nonce counter) is created once, lazily, from the session's one salt. If the object that
    holds it is put back to its initial value while the session lives on - `*self = Self::default()`, `self.encoder = None` - the next write
    creates it again from the *same* salt: same subkey, counter back at zero, and every unit from then on is sealed under a (key, nonce) pair
    the start of the stream already used. Codecs that hold an encoder: no whole-object overwrite and no reset of the encoder field outside
    constructors."""
    holders = {it["path"]: [fn for (fn, fty) in it["fields"] if "Encoder" in fty and "Option<" in fty] for it in prog.items
               if it["k"] == "struct" and any("Encoder" in fty and "Option<" in fty for (_, fty) in it["fields"])}
    ctx.floor(rule, "codecs that hold a lazily keyed encoder", 1, len(holders))
    n = 0
    for b in bodies:
        sd = b.impl_self_def or (prog.body(b.root).impl_self_def if prog.body(b.root) is not None else None)
        if sd not in holders or b.argc < 1 or not b.local_ty(1).lstrip().startswith("&mut"):
            continue
        n += 1
        for blk in b.rpo():
            for s_ in b.stmts(blk):
                if s_["k"] != "assign" or s_["p"][0] != 1:
                    continue
                proj = s_["p"][1]
                fields = [e[2] for e in proj if e[0] == "field" and len(e) > 2]
                whole = proj == [["deref"]] or (len(proj) == 1 and proj[0][0] == "deref")
                enc_field = len(fields) == 1 and fields[0] in holders[sd] and len([e for e in proj if e[0] in ("field", "downcast")]) == 1
                if not whole and not enc_field:
                    continue
                rv = s_["rv"]
                is_reset = whole
                if enc_field:
                    if rv["k"] == "agg" and rv.get("variant") == "None":
                        is_reset = True
                    q = op_place(rv["op"]) if rv["k"] == "use" else None
                    if q is not None and any(d[0] == "call" and Callee(d[2]["f"]).name in ("Default::default", "Option::take") for d in b.defs().get(q[0], [])):
                        is_reset = True
                    if q is not None and any(d[0] == "assign" and d[3]["rv"]["k"] == "agg" and d[3]["rv"].get("variant") == "None" for d in b.defs().get(q[0], [])):
                        is_reset = True
                if is_reset:
                    ctx.ob(rule, b.defp, "keyed-direction-state-is-never-reset", loc(s_["sp"]), False,
                           ("the whole codec object is overwritten" if whole else f"`{fields[0]}` is put back to `None`") + " while the session it belongs to lives on: the encoder is "
                           "keyed lazily from the session's one salt, so the next write sends that salt again, derives the same subkey and restarts the nonce counter at zero - "
                           "every later unit repeats a (key, nonce) pair of the start of the stream")
    ctx.ob(rule, "workspace", "scan", "-", True, f"{n} `&mut self` methods of encoder-holding codecs scanned", nontrivial=False, ordinal=False)


def n5(ctx, prog, bodies):
    """N5: the per-session subkey binds the salt — the key material handed to blake3::derive_key is exactly `key || salt`.
    Accepted constructions: `[key, salt].concat()` (array of the two slices, the second one not a constant), or copies into a buffer
    whose ranges provably tile the slice that is hashed (start of each piece == end of the previous one, as symbolic lengths)."""
    from .. import bla
    from ..bla import Lin
    sites = [(b, blk, c, t) for b in bodies for (blk, c, t) in b.calls() if c.target.startswith("blake3::derive_key") or c.path == "blake3::derive_key"]
    ctx.floor("N5", "blake3::derive_key call sites", 2, len(sites))
    for (b, blk, c, t) in sites:
        where = loc(t["sp"])
        mp = op_place(t["args"][1]) if len(t["args"]) > 1 else None
        if mp is None:
            ctx.ob("N5", b.defp, "subkey-material-is-key-then-salt", where, False, "key material operand is a constant")
            continue
        # (1) concat of an array of two slices
        _, calls, _ = b.slice_back([mp[0]], stop_call=lambda cc: (cc.method or "") in ("concat", "join"))
        cc_ = [(cb, cx, ct) for (cb, cx, ct) in calls if (cx.method or "") == "concat"]
        verdict = None
        if cc_:
            (cb, cx, ct) = cc_[0]
            ap = op_place(ct["args"][0])
            arr = None
            locs, _, _ = b.slice_back([ap[0]], stop_call=lambda q: True) if ap else (set(), [], [])
            for l in sorted(locs):
                for d in b.defs().get(l, []):
                    if d[0] == "assign" and d[3]["rv"]["k"] == "agg" and d[3]["rv"]["ak"] == "array":
                        arr = d[3]["rv"]["ops"]
            if arr is not None and len(arr) == 2:
                roots = []
                for o in arr:
                    q = op_place(o)
                    ls, _, _ = b.slice_back([q[0]], stop_call=lambda q_: True) if q else (set(), [], [])
                    roots.append({l for l in ls if 1 <= l <= b.argc} | {l for l in ls if b.locals[l].get("user")})
                ok = bool(roots[0]) and bool(roots[1]) and roots[0] != roots[1]
                verdict = (ok, "key material is `[a, b].concat()` of two different inputs of this function" if ok else
                           f"key material is a concat whose parts derive from {roots}: the second part must be the per-session salt")
            else:
                verdict = (False, f"key material is a concat of {len(arr) if arr is not None else '?'} parts; expected exactly key and salt")
        else:
            # (2) copies into ranges of a buffer: prove the tiling with symbolic lengths
            an = bla.Analysis(prog)
            try:
                an.analyse_entry(prog.bodies[b.root] if b.root in prog.bodies else b)
            except Exception as e:   # the interpreter must not take the rule down
                an = None
            w = [x for x in (an.watch.get(b.defp, []) if an else []) if x[0] == blk]
            if not w or len(w[0][2]) < 2 or w[0][2][1] is None:
                verdict = (False, "key material is neither `[key, salt].concat()` nor a tracked buffer: cannot show that the salt is part of what is hashed")
            else:
                M = w[0][2][1]
                P, lo, hi = an.view_of.get(M, (M, Lin(0), None))
                pieces = []
                for (cblk, d, s_) in an.copies.get(b.defp, []):
                    if d in an.view_of and an.view_of[d][0] == P:
                        pieces.append((an.view_of[d][1], an.view_of[d][2], s_))
                    elif d == P:
                        pieces.append((Lin(0), None, s_))
                pieces.sort(key=lambda x: (0 if x[0].is_const() and x[0].c == 0 else 1, repr(x[0])))
                ok = len(pieces) >= 2 and pieces[0][0] == lo and all(p_[1] is not None for p_ in pieces)
                if ok:
                    for i in range(len(pieces) - 1):
                        if not (pieces[i][1] == pieces[i + 1][0]):
                            ok = False
                    if hi is not None and not (pieces[-1][1] == hi):
                        ok = False
                desc = "; ".join(f"[{p_[0]} .. {p_[1]}) <- {p_[2]}" for p_ in pieces)
                verdict = (ok, f"the pieces copied into the buffer tile the hashed range [{lo} .. {hi}): {desc}" if ok else
                           f"the hashed range is [{lo} .. {hi}) but the pieces written are {desc or 'none'}: they do not tile it (a gap or an offset that is not the end of "
                           f"the previous piece), so for some key/salt sizes the salt is not part of the subkey derivation and every session under that key shares one subkey")
        ctx.ob("N5", b.defp, "subkey-material-is-key-then-salt", where, verdict[0], verdict[1])


def run(ctx):
    prog = ctx.prog
    bodies = [b for b in prog.prod_bodies() if "::_" not in b.defp]
    n5(ctx, prog, bodies)
    n6_one_nonce_sequence_per_subkey(ctx, prog, bodies)
    n7_derived_key_on_every_path(ctx, prog, bodies)
    n8_keyed_state_is_never_reset(ctx, prog, bodies)
    # ---------------- who-may-call -------------------------------------------------------------
    n_rng = 0
    for b in bodies:
        for (blk, c, t) in b.calls():
            if is_csprng_call(prog, c):
                n_rng += 1
            tgt = c.target + " " + " ".join(a.get("s", "") for a in c.args)
            bad = [f for f in FORBIDDEN if f in tgt]
            if bad and ("rand" in tgt):
                ctx.ob("N1", b.defp, f"forbidden-rng:{bad[0]}", loc(t["sp"]), False, f"{c.name} ({c.target}) is a seedable / non-cryptographic RNG; per-session secrets must come from the thread CSPRNG")
    ctx.floor("N1", "CSPRNG draw sites in production code", 14, n_rng)
    ctx.ob("N1", "workspace", "no-seedable-rng", "-", True, f"{n_rng} CSPRNG call sites; no SmallRng/StdRng/seeded construction called", nontrivial=False, ordinal=False)

    # ---------------- N1 struct-field sinks ----------------------------------------------------
    field_sinks = [
        ("codec::shadowsocks::tcp::Identity", ["salt"], "stream salt"),
        ("server::shadowsocks::UdpAssociateContext", ["server_session_id"], "server UDP session id"),
    ]
    for (sfx, fields, what) in field_sinks:
        its = prog.item("struct", sfx)
        if not its:
            ctx.anchor_lost("N1", f"struct {sfx}")
            continue
        it = its[0]
        n = 0
        # the field may sit in the struct itself or, after a split of the struct, in a nested struct it owns
        targets = []
        for f in fields:
            if any(nm == f for (nm, _) in it["fields"]):
                targets.append((it, f))
            else:
                for (_, fty) in it["fields"]:
                    for it2 in prog.items:
                        if it2["k"] == "struct" and last_seg(it2["path"]) == last_seg(fty.split("<")[0]) and any(nm == f for (nm, _) in it2["fields"]):
                            targets.append((it2, f))
        if len(targets) < len(fields) and "session_id" in fields[0]:
            # renamed as well as moved: find the field by role — the association state the reply Session's server id is copied from
            sess_paths = {x["path"] for x in prog.items if x["k"] == "struct" and {"client_session_id", "server_session_id", "packet_id"} <= {n_ for (n_, _) in x["fields"]}}
            role_fields = set()
            for b in bodies:
                if not b.defp.startswith("octo_squirrel_server"):
                    continue
                for (blk, c, t) in b.calls():
                    if c.method == "new" and (c.self_def or "") in sess_paths and len(t["args"]) >= 2:
                        q = op_place(t["args"][1])
                        if q is not None:
                            for l_ in b.slice_back([q[0]], stop_call=lambda cc: True)[0] | {q[0]}:
                                for d_ in b.defs().get(l_, []):
                                    if d_[0] == "assign" and d_[3]["rv"]["k"] in ("use", "ref"):
                                        pp = op_place(d_[3]["rv"]["op"]) if d_[3]["rv"]["k"] == "use" else d_[3]["rv"]["p"]
                                        fl = [e[2] for e in (pp[1] if pp else []) if e[0] == "field" and len(e) > 2 and e[2]]
                                        if fl and any(e[0] == "deref" for e in pp[1]):
                                            role_fields.add(tuple(fl[-2:]))
            for path_ in role_fields:
                if len(path_) == 2:
                    parent, leaf = path_
                    pty = [fty_ for (nm, fty_) in it["fields"] if nm == parent]
                    for it2 in prog.items:
                        if pty and it2["k"] == "struct" and last_seg(it2["path"]) == last_seg(pty[0].split("<")[0]) and any(nm == leaf and fty_.strip() == "u64" for (nm, fty_) in it2["fields"]):
                            targets.append((it2, leaf))
                elif len(path_) == 1 and any(nm == path_[0] for (nm, _) in it["fields"]):
                    targets.append((it, path_[0]))
        if len(targets) < len(fields):
            ctx.anchor_lost("N1", f"field(s) {fields} of {sfx}")
            continue
        shared_sess = {x["path"] for x in prog.items if x["k"] == "struct" and {"client_session_id", "server_session_id", "packet_id"} <= {n_ for (n_, _) in x["fields"]}}
        for (tit, f) in targets:
            if tit["path"] != it["path"] and tit["path"] in shared_sess:
                # the id now lives in the general datagram-session struct, which client and server build in many places for many purposes
                # (decoded sessions, defaults, copies). The obligation is about *this* owner: wherever the association state is built, the
                # session value it is given derives from a CSPRNG draw made there.
                hold = [i for i, (nm, fty) in enumerate(it["fields"]) if last_seg(fty.split("<")[0].strip()) == last_seg(tit["path"])]
                for b in bodies:
                    for blk in b.rpo():
                        for s in b.stmts(blk):
                            if s["k"] == "assign" and s["rv"]["k"] == "agg" and s["rv"].get("def") == it["path"] and hold:
                                n += 1
                                p = op_place(s["rv"]["ops"][hold[0]])
                                ok = p is not None and derives_from_random(prog, b, p[0])
                                ctx.ob("N1", b.defp, f"{last_seg(sfx)}.{f}:from-csprng", loc(s["sp"]), ok,
                                       f"the session value the association is built with derives from a CSPRNG draw in the per-session constructor ({what})" if ok else
                                       f"{what}: the session value the association is built with does not derive from a CSPRNG call inside the constructor")
                continue
            for b in bodies:
                for blk in b.rpo():
                    for s in b.stmts(blk):
                        if s["k"] == "assign" and s["rv"]["k"] == "agg" and s["rv"].get("def") == tit["path"]:
                            n += 1
                            idx = [i for i, (nm, _) in enumerate(tit["fields"]) if nm == f][0]
                            p = op_place(s["rv"]["ops"][idx])
                            ok = p is not None and derives_from_random(prog, b, p[0])
                            ctx.ob("N1", b.defp, f"{last_seg(sfx)}.{f}:from-csprng", loc(s["sp"]), ok,
                                   f"{what} is drawn from the CSPRNG in the per-session constructor" if ok else f"{what} does not derive from a CSPRNG call inside the constructor (constant, counter or value shared from outside the session)")
        ctx.floor("N1", f"constructions of {last_seg(sfx)}", 1, n)
        # N1b: once drawn, the secret is never rewritten with something that is not a fresh draw (e.g. bytes read from the peer)
        from .common import place_field_owners
        nw = 0
        for (tit, f) in targets:
            via_owner = tit["path"] != it["path"] and tit["path"] in shared_sess
            for b in bodies:
                for blk in b.rpo():
                    for s in b.stmts(blk):
                        if s["k"] != "assign":
                            continue
                        if via_owner and not any(o_ is not None and o_["path"] == it["path"] for (o_, _) in
                                                 place_field_owners(prog, b, s["p"]) + (place_field_owners(prog, b, s["rv"]["p"]) if s["rv"]["k"] == "ref" else [])):
                            continue      # a write to some other session value (a decoded one, the client's own) is not this owner's id
                        wplace, how = None, None
                        own = place_field_owners(prog, b, s["p"]) if any(e[0] == "field" and len(e) > 2 and e[2] == f for e in s["p"][1]) else []
                        if own and own[-1][1] == f and own[-1][0] is not None and own[-1][0]["path"] == tit["path"] and not [e for e in s["p"][1][::-1][:1] if e[0] != "field"]:
                            wplace, how = s["p"], "assigned"
                        rv = s["rv"]
                        if rv["k"] == "ref" and rv.get("mut") and any(e[0] == "field" and len(e) > 2 and e[2] == f for e in rv["p"][1]):
                            own = place_field_owners(prog, b, rv["p"])
                            idx = [i for i, (o_, n_) in enumerate(own) if n_ == f and o_ is not None and o_["path"] == tit["path"]]
                            if idx:
                                wplace, how = rv["p"], "mutably borrowed"
                        if wplace is None:
                            continue
                        nw += 1
                        if how == "assigned":
                            srcs = [op_place(o)[0] for o in b.operands_of_rvalue(rv) if op_place(o)]
                            ok = bool(srcs) and all(derives_from_random(prog, b, l) for l in srcs)
                        else:
                            # the borrow is handed to a call: fine iff that call is a CSPRNG fill
                            fwd, grew = {s["p"][0]}, True
                            while grew:      # reborrows / unsizing casts of the borrow (assignments only, not through calls)
                                grew = False
                                for blk2 in b.rpo():
                                    for s2 in b.stmts(blk2):
                                        if s2["k"] == "assign" and s2["p"][0] not in fwd and any(op_place(o) and op_place(o)[0] in fwd for o in b.operands_of_rvalue(s2["rv"])):
                                            fwd.add(s2["p"][0])
                                            grew = True
                            users = [(bb, c, t) for (bb, c, t) in b.calls() if any(op_place(a) and op_place(a)[0] in fwd for a in t["args"])]
                            ok = bool(users) and all(is_csprng_call(prog, c) or c.name.startswith(("DerefMut", "IndexMut", "AsMut", "BorrowMut")) or c.method in ("as_mut_slice", "as_mut") for (_, c, _) in users) \
                                and any(is_csprng_call(prog, c) for (_, c, _) in users)
                        ctx.ob("N1", b.defp, f"{last_seg(sfx)}.{f}:never-rewritten", loc(s["sp"]), ok,
                               f"{what} is rewritten with a fresh CSPRNG draw" if ok else
                               f"{what} is {how} after the session was constructed and the new value is not a CSPRNG draw: the session then seals under a salt / id that is "
                               "not its own fresh randomness (bytes taken from the peer make both directions derive the same subkey and count nonces from the same start)")
        ctx.ob("N1", tit["path"] if targets else sfx, f"{last_seg(sfx)}.{'/'.join(fields)}:write-sites-inventoried", "-", True, f"{nw} write site(s) outside the constructor", nontrivial=False, ordinal=False)
    # UDP Session::from(Mode): both ids random on their arm
    # role: the datagram session struct = the struct with a session id and a packet id
    sess_structs = [it for it in prog.items if it["k"] == "struct" and {"client_session_id", "server_session_id", "packet_id"} <= {n for (n, _) in it["fields"]}]
    sf = [b for b in bodies if b.impl_self_def in {it["path"] for it in sess_structs} and b.impl_trait and last_seg(b.impl_trait) == "From" and b.method == "from"]
    ctx.floor("N1", "UDP Session::from(Mode)", 1, len(sf))
    for b in sf:
        it = [x for x in sess_structs if x["path"] == b.impl_self_def][0]
        for blk in b.rpo():
            for s in b.stmts(blk):
                if s["k"] == "assign" and s["rv"]["k"] == "agg" and s["rv"].get("def") == it["path"]:
                    for f in ("client_session_id", "server_session_id"):
                        idx = [i for i, (nm, _) in enumerate(it["fields"]) if nm == f][0]
                        p = op_place(s["rv"]["ops"][idx])
                        ok = p is not None and derives_from_random(prog, b, p[0])
                        ctx.ob("N1", b.defp, f"Session.{f}:from-csprng", loc(s["sp"]), ok, f"{f} is drawn with random() for its mode" if ok else f"{f} does not derive from a CSPRNG call")
    # call-argument sinks
    arg_sinks = [
        # (function predicate, callee predicate, arg indexes, what)
        (lambda b: tymatch((b.impl_self_def or ""), "vmess::session::ClientSession") and b.method == "new", lambda c: c.method == "init", [0, 1, 2], "VMess request IV / key / response byte"),
        (lambda b: b.defp.endswith("vmess::aead::auth_id::create"), lambda c: c.name == "BufMut::put_u32", [1], "auth-id random word"),
        (lambda b: b.defp.endswith("vmess::aead::encrypt::seal_header"), lambda c: c.method == "extend_from_slice", None, "header connection nonce"),
        (lambda b: tymatch((b.impl_self_def or ""), "codec::shadowsocks::udp::AEADCipherCodec") and b.method == "encode", lambda c: c.method == "new_encoder", [2], "legacy datagram salt"),
    ]
    for (fp, cp, idxs, what) in arg_sinks:
        fs = [b for b in bodies if b.root == b.defp and fp(b)]
        ctx.floor("N1", f"constructor of: {what}", 1, len(fs))
        for b in fs:
            sites = [(blk, c, t) for (blk, c, t) in b.calls() if cp(c)]
            if idxs is None:
                # at least one such call must carry random bytes (connection nonce appended to the output)
                ok = False
                for (blk, c, t) in sites:
                    for a in t["args"][1:]:
                        p = op_place(a)
                        if p is not None and derives_from_random(prog, b, p[0]):
                            ok = True
                ctx.ob("N1", b.defp, f"{what}:from-csprng", loc(b.sp), ok, f"{what} derives from the CSPRNG" if ok else f"{what} does not derive from the CSPRNG")
                continue
            if not sites:
                ctx.ob("N1", b.defp, f"{what}:sink", loc(b.sp), False, "sink call not found")
            for (blk, c, t) in sites:
                for i in idxs:
                    p = op_place(t["args"][i]) if i < len(t["args"]) else None
                    ok = p is not None and derives_from_random(prog, b, p[0])
                    ctx.ob("N1", b.defp, f"{what}:arg{i}:from-csprng", loc(t["sp"]), ok, f"{what} (argument {i} of {c.name}) derives from the CSPRNG" if ok else f"{what} (argument {i} of {c.name}) does not derive from the CSPRNG")
    # XChaCha datagram nonces: in the 2022 packet encoders a fill call dominated by `nonce_size > 0`
    for b in bodies:
        if b.root == b.defp and tymatch((b.impl_self_def or ""), "codec::shadowsocks::udp::AEADCipherCodec") and b.method in ("encode_client_packet_aead_2022", "encode_server_packet_aead_2022"):
            fb_ = prog.flat(b.defp)
            fills = [(blk, c, t) for (blk, c, t) in fb_.calls() if is_csprng_call(prog, c) and c.target.endswith("fill_bytes")]
            ctx.ob("N1", b.defp, "xchacha-nonce:from-csprng", loc(b.sp), len(fills) >= 1, "the datagram nonce prefix is filled from the CSPRNG" if fills else "the datagram nonce prefix is not filled from the CSPRNG")
    # by role: every function that seals with a nonce it carries in its own output buffer (the nonce operand of the detached seal is a slice
    # of the `&mut BytesMut` it writes the datagram into) must itself fill that buffer's nonce bytes from the CSPRNG — a sibling that only
    # reserves the bytes (zeros, or whatever `advance_mut` exposes) seals every datagram under the same nonce
    n_self = 0
    from .common import outermost

    def _self_carried_seals(fb_):
        bufs_ = {i for i in range(1, fb_.argc + 1) if "BytesMut" in fb_.local_ty(i) and fb_.local_ty(i).lstrip().startswith("&mut")}
        out_ = []
        if not bufs_:
            return bufs_, out_
        for (blk, c, t) in fb_.calls():
            if c.method not in ("encrypt_in_place_detached", "encrypt_in_place") or len(t["args"]) < 2:
                continue
            np_ = op_place(t["args"][1])
            if np_ is None:
                continue
            nlocs, ncalls, _ = fb_.slice_back([np_[0]])
            if not (nlocs & bufs_) or any((cc.self_def or "") in _inc_or_cnt_gens(prog) for (_, cc, _) in ncalls):
                continue
            out_.append((blk, c, t))
        return bufs_, out_
    # judged on the flat view (a `put_random_nonce(dst, n)` helper is spliced in), and in the outermost function that carries the buffer
    # (a `seal_packet(dst, ..)` helper whose caller reserved and filled the nonce is judged inside that caller)
    cands = [b for b in bodies if b.root == b.defp and "shadowsocks" in b.defp and _self_carried_seals(prog.flat(b.defp))[1]]
    for b in outermost(prog, cands):
        fb_ = prog.flat(b.defp)
        bufs, seals = _self_carried_seals(fb_)
        for (blk, c, t) in seals:
            n_self += 1
            filled = False
            for (b2, c2, t2) in fb_.calls():
                if not is_csprng_call(prog, c2) or not t2["args"] or not fb_.can_reach(b2, blk):      # a fill on this seal's own path, before it
                    continue
                for a in t2["args"]:
                    ap = op_place(a)
                    if ap is not None and (fb_.slice_back([ap[0]])[0] & bufs) and fb_.local_ty(ap[0]).lstrip().startswith("&mut"):
                        filled = True
            ctx.ob("N1", b.defp, "self-carried-nonce:filled-from-csprng", loc(t["sp"]), filled,
                   "the nonce bytes of the output buffer are filled by a CSPRNG call in this function" if filled else
                   "the nonce handed to the AEAD seal is a slice of this function's own output buffer, and no CSPRNG call in this function writes into that buffer: "
                   "the bytes are whatever was reserved there (zeros), so every datagram this side sends is sealed under the same (key, nonce)")
    ctx.floor("N1", "encoders that seal under a nonce carried in their own output", 2, n_self)

    # ---------------- N2 one generator step per AEAD call ----------------------------------------
    PRIMS = ("encrypt_in_place", "decrypt_in_place", "encrypt_in_place_detached", "decrypt_in_place_detached", "encrypt", "decrypt")

    def is_prim(c):
        return (c.impl_self and (c.impl_self.get("d") or "").endswith("codec::aead::CipherMethod") and c.method in PRIMS)

    # role: a nonce generator step = a `&mut self` method of a *NonceGenerator type that returns the nonce (whatever it is called)
    from .common import aead_roles
    AUTH_TYPES, GEN_TYPES = aead_roles(prog)
    gen_paths = {b.defp for b in bodies if (b.impl_self_def or "") in GEN_TYPES and b.root == b.defp and b.argc >= 1
                 and b.local_ty(1).startswith("&mut") and "[u8]" in b.local_ty(0)}

    def is_gen(c):
        return c.target in gen_paths

    auths = [b for b in bodies if (b.impl_self_def or "") in AUTH_TYPES and any(is_prim(c) for (_, c, _) in b.calls())]
    ctx.floor("N2", "Authenticator functions calling an AEAD primitive", 5, len(auths))
    auth_paths = set()
    for b in auths:
        auth_paths.add(b.defp)
        prims = [(blk, c, t) for (blk, c, t) in b.calls() if is_prim(c)]
        gens = [(blk, c, t) for (blk, c, t) in b.calls() if is_gen(c)]
        ctx.ob("N2", b.defp, "one-step-per-call", loc(b.sp), len(prims) == 1 and len(gens) == 1, f"{len(gens)} generator step(s) for {len(prims)} AEAD call(s)")
        for (blk, c, t) in prims:
            p = op_place(t["args"][1])
            ok = False
            if p is not None:
                _, calls, _ = b.slice_back([p[0]])
                ok = any(is_gen(cc) for (_, cc, _) in calls)
            ctx.ob("N2", b.defp, "nonce-from-generator", loc(t["sp"]), ok, "nonce argument derives from the generator step" if ok else "nonce argument does not come from the nonce generator")
            for (gb, gc, gt) in gens:
                ok = b.dominates(gb, blk)
                ctx.ob("N2", b.defp, "step-dominates-call", loc(t["sp"]), ok, "generator step dominates the AEAD call")
    # who may call the primitives
    for b in bodies:
        if b.defp in auth_paths or tymatch((b.impl_self_def or ""), "codec::aead::CipherMethod"):
            continue
        for (blk, c, t) in b.calls():
            if is_prim(c):
                allowed = "shadowsocks::udp" in b.defp  # datagram codec: fresh-random / packet-id nonces (N1 / N3 / S3)
                ctx.ob("N2", b.defp, f"primitive-outside-authenticator:{c.method}", loc(t["sp"]), allowed,
                       "datagram codec calls the primitive with a per-packet nonce" if allowed else "a stream codec calls an AEAD primitive directly, bypassing the nonce generator")
    # generators advance on every step
    gens = [b for b in bodies if b.defp in gen_paths]
    ctx.floor("N2", "nonce generators", 2, len(gens))
    for b in gens:
        writes = False
        for blk in b.rpo():
            for s in b.stmts(blk):
                if s["k"] != "assign":
                    continue
                into_self = s["p"][0] == 1 and any(e[0] == "field" for e in s["p"][1])
                if not into_self and any(e[0] == "deref" for e in s["p"][1]):
                    # a write through a reference obtained from self (`for b in self.nonce.iter_mut() { *b = .. }`)
                    into_self = 1 in b.slice_back([s["p"][0]])[0]
                if into_self:
                    locs, calls, _ = b.slice_back([op_place(o)[0] for o in b.operands_of_rvalue(s["rv"]) if op_place(o)])
                    if any(cc.method in ("overflowing_add", "wrapping_add", "checked_add") for (_, cc, _) in calls) or s["rv"]["k"] == "bin":
                        writes = True
        # the write must happen on every path to return
        ctx.ob("N2", b.defp, "state-advances", loc(b.sp), writes, "generate() stores an incremented counter into self" if writes else "generate() does not advance the stored counter")
    # generator fields are owned per direction: Authenticator structs hold generator by value
    for it in prog.items:
        if it["k"] == "struct" and it["path"] in AUTH_TYPES:
            for (fname, fty) in it["fields"]:
                if any(re.search(r"\b" + re.escape(last_seg(g)) + r"\b", fty) for g in GEN_TYPES):
                    ok = not any(k in fty for k in ("Arc<", "Rc<", "&", "Mutex<", "static"))
                    ctx.ob("N2", it["path"], f"generator-owned:{fname}", loc(it["sp"]), ok, f"generator field type {fty}", ordinal=False)
    # ---------------- N3 packet ids -----------------------------------------------------------------
    # role: the `&mut self` method of the datagram session struct that advances its packet id
    _sess_paths = {it["path"] for it in prog.items if it["k"] == "struct" and {"client_session_id", "packet_id"} <= {n for (n, _) in it["fields"]}}
    inc = [b for b in bodies if b.root == b.defp and (b.impl_self_def or "") in _sess_paths and b.argc == 1 and b.local_ty(1).startswith("&mut") and
           any(c.method in ("checked_add", "wrapping_add", "overflowing_add", "saturating_add") for fb in prog.family(b.defp) for (_, c, _) in fb.calls())]
    inc_paths = {b.defp for b in inc}
    ctx.floor("N3", "client packet-id increment", 1, len(inc))
    for b in inc:
        ms = [c.method for fb in prog.family(b.defp) for (_, c, _) in fb.calls()]
        wraps = "wrapping_add" in ms or "overflowing_add" in ms
        ctx.ob("N3", b.defp, "increment-does-not-wrap", loc(b.sp), not wraps and ("checked_add" in ms or "saturating_add" in ms or any(True for blk in b.rpo() if b.term(blk) and b.term(blk)["k"] == "assert")),
               "packet id increment is checked" if not wraps else "packet id uses wrapping_add: at u64::MAX it wraps to 0 and IDs are reused instead of the session ending")
    # N3b the packet id of a session id never goes back: wherever a datagram Session value is built with a session id copied from an
    # existing session (not drawn fresh), its packet-id fields must be copied from the same session too; and a packet-id field is only ever
    # assigned from the increment (an add of itself) or a decoded / copied session, never a constant
    sess_items = [it for it in prog.items if it["k"] == "struct" and {"client_session_id", "packet_id"} <= {n for (n, _) in it["fields"]}]
    ctx.floor("N3", "datagram session struct (session id + packet id)", 1, len(sess_items))
    for it in sess_items:
        fidx = {n: i for i, (n, _) in enumerate(it["fields"])}
        pairs = [("client_session_id", "packet_id")] + ([("server_session_id", "server_packet_id")] if {"server_session_id", "server_packet_id"} <= set(fidx) else [])
        for b in bodies:
            for blk in b.rpo():
                for s in b.stmts(blk):
                    if s["k"] == "assign" and s["rv"]["k"] == "agg" and s["rv"].get("def") == it["path"]:
                        # exact provenance first (copies and moves only): which session *value* is each part read from?
                        roots = {fn_: _session_value_root(b, op_place(s["rv"]["ops"][i_]), it["path"]) for fn_, i_ in fidx.items() if fn_.endswith(("session_id", "packet_id"))}
                        own_ids = [f_ for f_ in ("client_session_id", "server_session_id") if roots.get(f_) and roots[f_][0] == "state"]
                        if "server_packet_id" not in fidx and own_ids and roots.get("packet_id") and all(roots["packet_id"] != roots[f_] for f_ in own_ids):
                            ctx.ob("N3", b.defp, "own-session-id-kept-implies-own-packet-counter-kept", loc(s["sp"]), False,
                                   f"a session value keeps `{own_ids[0]}` from the owner's stored session ({roots[own_ids[0]][1]}) but takes `packet_id` from another session value "
                                   f"({roots['packet_id'][1]}): the stored id selects the subkey this side seals with, and its counter is replaced by a number that belongs to the "
                                   "other value's numbering (e.g. the peer's counter in a decoded packet) - the counter goes back and (key, nonce) pairs are reused")
                        for (sid, pid) in pairs:
                            if roots.get(sid) and roots.get(pid):
                                if roots[sid] != roots[pid]:
                                    ctx.ob("N3", b.defp, f"{sid}-kept-implies-{pid}-kept", loc(s["sp"]), False,
                                           f"`{sid}` is kept from {roots[sid][1]} while `{pid}` comes from {roots[pid][1]}: the counter no longer belongs to the id")
                                else:
                                    ctx.ob("N3", b.defp, f"{sid}-kept-implies-{pid}-kept", loc(s["sp"]), True, f"`{sid}` and `{pid}` are both kept from {roots[sid][1]}")
                                continue
                            ps, pp = op_place(s["rv"]["ops"][fidx[sid]]), op_place(s["rv"]["ops"][fidx[pid]])
                            if ps is None:
                                continue      # a constant id (e.g. 0 for "not assigned yet") starts a fresh numbering
                            sl, scalls, _ = b.slice_back([ps[0]])
                            fresh = derives_from_random(prog, b, ps[0])
                            src_sessions = {l for l in sl if it["path"] == (b.local_ty_def(l) or "")}
                            if fresh or not src_sessions:
                                continue
                            ok = False
                            if pp is not None:
                                pl, _, _ = b.slice_back([pp[0]])
                                # the id's packet counter must come from (one of) the same session value(s), not from a default / constant
                                same = {l for l in pl if it["path"] == (b.local_ty_def(l) or "")}
                                ok = bool(same & src_sessions) and not any(c_.name == "Default::default" for (_, c_, _) in b.slice_back([pp[0]])[1])
                            ctx.ob("N3", b.defp, f"{sid}-kept-implies-{pid}-kept", loc(s["sp"]), ok,
                                   f"a session value that keeps an existing {sid} also keeps its {pid}" if ok else
                                   f"a session value is rebuilt with the existing {sid} but a fresh {pid}: the counter restarts under the same session id (same subkey), "
                                   "so the next datagrams reuse (key, nonce) pairs that were already used")
    enc = [b for b in bodies if b.impl_trait and last_seg(b.impl_trait) == "Encoder" and "DatagramPacketCodec" in (b.impl_self_def or "")]
    ctx.floor("N3", "client datagram encoder", 1, len(enc))
    for b in enc:
        incs = [(blk, c, t) for (blk, c, t) in b.calls() if c.target in inc_paths]
        encs = [(blk, c, t) for (blk, c, t) in b.calls() if c.method == "encode" and "SessionCodec" in (c.self_def or "")]
        ok = bool(incs) and bool(encs) and all(any(b.dominates(ib, eb) and ib != eb for (ib, _, _) in incs) for (eb, _, _) in encs)
        ctx.ob("N3", b.defp, "increment-before-encode", loc(b.sp), ok, "every datagram encode is dominated by a packet-id increment" if ok else "a datagram can be encoded without advancing the packet id")
    # role: the server's association task advances its reply counter with a checked add of its own, or with the session's increment method
    srv = [b for b in bodies if b.defp.startswith("octo_squirrel_server") and any(c.name == "UdpSocket::send_to" or c.name == "UdpSocket::recv_from" for (_, c, _) in b.calls())
           and any(c.method == "checked_add" or c.target in inc_paths for (_, c, _) in b.calls())]
    ctx.floor("N3", "server packet-id increment (checked_add)", 1, len(srv))
    for b in srv:
        for (blk, c, t) in b.calls():
            if c.method != "checked_add" and c.target not in inc_paths:
                continue
            is_opt = c.method == "checked_add"
            gates = [g for g in gates_of_value(b, t["dest"][0]) if (g.kind == "option" if is_opt else g.kind in ("result", "try"))]
            lp = b.innermost_loop(blk)
            ok = False
            for g in gates:
                none_t = g.target_for(0 if is_opt else 1)      # None / Err(overflow)
                if lp:
                    # overflow edge leaves the session loop
                    seen, st = set(), [none_t]
                    leaves = False
                    while st:
                        x = st.pop()
                        if x in seen or x == lp[0]:
                            continue
                        seen.add(x)
                        if x not in lp[1]:
                            leaves = True
                            continue
                        st.extend(b.succ(x))
                    back = any(lp[0] in b.succ(x) for x in seen if x in lp[1])
                    ok = leaves and not back
            ctx.ob("N3", b.defp, "overflow-ends-association", loc(t["sp"]), ok, "packet-id overflow leaves the association loop" if ok else "packet-id overflow does not end the association")
    # ---------------- N4 cipher cache key ---------------------------------------------------------------
    ck = prog.item("struct", "codec::shadowsocks::udp::CipherKey")
    if ck:
        it = ck[0]
        for b in bodies:
            for blk in b.rpo():
                for s in b.stmts(blk):
                    if s["k"] == "assign" and s["rv"]["k"] == "agg" and s["rv"].get("def") == it["path"]:
                        srcs = []
                        for o in s["rv"]["ops"]:
                            p = op_place(o)
                            locs = b.slice_back([p[0]])[0] if p else set()
                            srcs.append(sorted(l for l in locs if 1 <= l <= b.argc))
                        ok = len(srcs) == 3 and all(len(x) >= 1 for x in srcs) and len({tuple(x) for x in srcs}) == 3
                        ctx.ob("N4", b.defp, "cache-key-components", loc(s["sp"]), ok, f"cache key fields derive from parameters {srcs} (kind, key identity, session id)")


def _inc_or_cnt_gens(prog):
    from .common import aead_roles
    return aead_roles(prog)[1]
