"""C04 — decoding is independent of segmentation and never stalls (DESIGN.md 4/C04)."""
from ..mir import Callee, last_seg, loc, op_int, op_place
from .common import const_cmp_of_switch, gates_of_value, is_lock_call, ok_some_blocks, returns_variant
from . import c07

EXPLANATION = (
    "Reader contract (read in tokio-util 0.7.19 FramedImpl::poll_next): after Ok(None) the framed reader waits for new socket bytes before calling decode "
    "again, whatever is left in its buffer. R4a typestate of the source buffer on every need-more path: an Ok(None) may only be constructed when the last "
    "thing done to the buffer was a length observation (remaining/len/is_empty), never after a consuming call — otherwise bytes of the next frame that are "
    "already buffered sit there until the peer sends something else. R4b in stream decoders every consuming read must be proven by the buffer-length "
    "analysis (shared with C07) and a failing length guard must lead to Ok(None), not Err (the Shadowsocks-2022 salt+fixed-header guard is the property's "
    "own exemption). R4c a poll_* function may only return Pending behind the Pending arm of an inner poll. R4d a Stream that keeps a carry-over buffer "
    "must offer it to the decoder before polling the transport again. R4e a need-more answer must leave no trace in shared replay state: no replay-cache "
    "insert may be followed by an Ok(None) in the same activation (the retry would re-parse the same salt and be refused as a replay).")
ASSUMPTIONS = ["that the same plaintext results for every segmentation is value-level and is not decided; only: no stall, no error, no panic where another segmentation yields data",
               "tokio-util / futures / tokio-websockets behave as their cached sources say"]

DATAGRAM_HINTS = ("Socks5UdpCodec", "shadowsocks::udp", "DatagramPacketCodec", "SessionCodec")


SOURCES_ = ("UdpSocket::recv_from", "TcpListener::accept", "Buf::get_u8", "Buf::get_u64")


def is_datagram(prog, b):
    d = prog.display(b.defp)
    return any(h in d for h in DATAGRAM_HINTS)


def run(ctx):
    prog = ctx.prog
    an, es = c07.analysis(prog)
    decs = [b for b in prog.methods_of_trait_impls("Decoder", "decode")]
    ctx.floor("R4a", "Decoder impls", 14, len(decs))
    stream_decs = [b for b in decs if not is_datagram(prog, b)]
    ctx.floor("R4a", "stream decoders", 11, len(stream_decs))
    from .common import import_length_predictor_agreement
    import_length_predictor_agreement(ctx, "R4g")
    r4k_request_complete_means_connect(ctx)
    r4l_source_not_rewritten_before_need_more(ctx)
    # functions reached from stream decoders only
    reach = {}
    for b in stream_decs:
        seen = set()
        st = [b.defp]
        while st:
            f = st.pop()
            if f in seen or f not in prog.bodies:
                continue
            seen.add(f)
            for fb in prog.family(prog.bodies[f].root):
                for (_, c, _) in fb.calls():
                    if c.target.startswith("octo_squirrel") and c.target in prog.bodies:
                        st.append(c.target)
        for f in seen:
            reach.setdefault(f, set()).add(b.defp)
    # ---------------- R4a ----------------------------------------------------------------------
    n_none = 0
    for fn, evs in sorted(an.events.items()):
        if fn not in reach:
            continue
        seen_blk = {}
        for ev in evs:
            if ev[1] != "need-more":
                continue
            blk, _, dirty, cx, sp = ev
            entry_src = [d for d in dirty if ":arg2" in d and d.startswith("decode")]
            prev = seen_blk.get(blk)
            seen_blk[blk] = (prev[0] or bool(entry_src), sp, cx if entry_src else (prev[2] if prev else cx)) if prev else (bool(entry_src), sp, cx)
        for blk, (bad, sp, cx) in sorted(seen_blk.items()):
            n_none += 1
            ctx.ob("R4a", fn, "need-more-only-after-looking", loc(sp), not bad,
                   "Ok(None) is answered right after a length observation" if not bad else
                   "Ok(None) is answered after bytes were consumed without looking at what is left: data of this or the next frame that is already buffered is not "
                   "decoded until the peer sends more (stall)  [context: " + " <- ".join(last_seg(c) for c in cx[-3:]) + "]")
    ctx.floor("R4a", "need-more (Ok(None)) constructions in stream decoders", 12, n_none)

    # ---------------- R4h ----------------------------------------------------------------------
    # In a decoder that is a state machine, "need more" must be decided by the state it is in: a length test that leads to a need-more
    # return *before* the state is examined demands the same amount in every state, and holds back a unit that is complete in a state
    # that needs less (e.g. a 17-byte sealed payload behind an 18-byte threshold). An emptiness test (threshold <= 1) is harmless.
    from .common import const_cmp_of_switch
    n_sm = 0

    def _state_switches(b):
        out = []
        for blk in b.rpo():
            t = b.term(blk)
            if not t or t["k"] != "switch" or len(t["arms"]) + 1 < 2:
                continue
            p = op_place(t["d"])
            if p is None:
                continue
            for d in b.defs().get(p[0], []):
                if d[0] == "assign" and d[3]["rv"]["k"] == "discr":
                    pl = d[3]["rv"]["p"]
                    if pl[0] == 1 and any(e[0] == "field" for e in pl[1]) and any(e[0] == "deref" for e in pl[1]) and not any(e[0] == "downcast" for e in pl[1]):
                        out.append(blk)
        return out

    def _quiet(b):
        rv = returns_variant(b)
        some = set(ok_some_blocks(b))
        return [x for x, v in rv.items() if v == "Ok" and x not in some]

    # the state machines among the functions reached from stream decoders
    machines = {}
    for fn in sorted(reach):
        b = prog.bodies[fn]
        if b.root != b.defp:
            continue
        sw = _state_switches(b)
        if sw and _quiet(b):
            machines[fn] = sw

    def _delegations(b):
        """calls that hand the source on to another state machine through an object this function found in `self` (a field, or the payload
        of the Option / enum it switched on) and did not create itself: what that object is waiting for is not known here"""
        out = []
        written = set()
        for blk in b.rpo():
            for st in b.stmts(blk):
                if st["k"] == "assign" and st["p"][0] == 1:
                    written |= {e[2] for e in st["p"][1] if e[0] == "field" and len(e) > 2}
        for (blk, c, t) in b.calls():
            tb = prog.body(c.target)
            if tb is None or tb.root not in machines or tb.root == b.root or not t["args"]:
                continue
            rp = op_place(t["args"][0])
            if rp is None:
                continue
            locs, _, _ = b.slice_back([rp[0]], stop_call=lambda cc: True)
            flds = set()
            for l in locs | {rp[0]}:
                for d in b.defs().get(l, []):
                    if d[0] == "assign" and d[3]["rv"]["k"] in ("ref", "use"):
                        pp = d[3]["rv"].get("p") or op_place(d[3]["rv"].get("op"))
                        if pp and pp[0] == 1:
                            flds |= {e[2] for e in pp[1] if e[0] == "field" and len(e) > 2 and e[2] not in ("0", "1")}
            if flds and not (flds & written):
                out.append(blk)
        return out

    for fn in sorted(reach):
        b = prog.bodies[fn]
        if b.root != b.defp:
            continue
        state_switches = machines.get(fn, [])
        deleg = _delegations(b)
        if not state_switches and not deleg:
            continue
        quiet = _quiet(b)
        if not quiet:
            continue
        n_sm += 1
        arm_targets = {tg for sb in state_switches for tg in b.succ(sb)}
        for blk in b.rpo():
            t = b.term(blk)
            if not t or t["k"] != "switch":
                continue
            cmp_ = const_cmp_of_switch(b, blk)
            if not cmp_ or cmp_[0] not in ("Lt", "Le", "Gt", "Ge"):
                continue
            op, a, bb_, ft, tt = cmp_
            sides = []
            for x in (a, bb_):
                px = op_place(x)
                if px is None:
                    sides.append(("const", op_int(x)))
                    continue
                _, cs, _ = b.slice_back([px[0]], stop_call=lambda cc: True)
                sides.append(("len", None) if any(cc.method in ("remaining", "len") for (_, cc, _) in cs) else ("expr", None))
            if ("len", None) not in sides:
                continue
            thr = [k for (kind, k) in sides if kind == "const"]
            small = bool(thr) and thr[0] is not None and thr[0] <= 1
            # which edge leads to a quiet (need-more) return without passing a state arm?
            for tgt in (ft, tt):
                leads = any(q in b.reach_from(tgt, avoid=frozenset(arm_targets)) for q in quiet)
                other = tt if tgt == ft else ft
                direct = leads and not any(q in b.reach_from(other, avoid=frozenset(arm_targets)) for q in quiet)
                in_state = any(b.dominates(tg, blk) for tg in arm_targets)
                if direct and not in_state:
                    ctx.ob("R4h", fn, "need-more-is-decided-per-state", loc(t["sp"]), small,
                           "only an emptiness test precedes the state dispatch" if small else
                           "a length test that answers need-more is made before the decoder looks at its state: it demands the same number of bytes in every state, so a "
                           "unit that is complete in a state needing fewer bytes (a short sealed payload behind the length-block threshold) is withheld until more arrives (stall)")
                    continue
                # the same mistake one level up: the test sits in front of a delegation to an inner state machine
                later = [d for d in deleg if b.can_reach(other, d) or other == d]
                if not later:
                    continue
                skips = any(q in b.reach_from(tgt, avoid=frozenset(deleg)) for q in quiet) and not any(q in b.reach_from(other, avoid=frozenset(deleg)) for q in quiet)
                if skips and not any(b.dominates(d, blk) for d in deleg):
                    inner = sorted({last_seg(prog.body(Callee(b.term(d)["f"]).target).root) for d in later})
                    ctx.ob("R4h", fn, "need-more-is-decided-by-the-inner-state-machine", loc(t["sp"]), small,
                           "only an emptiness test precedes the delegation" if small else
                           f"a length test answers need-more in front of the call into the inner state machine ({', '.join(inner)}), whose state this function does not "
                           "look at: it demands the same number of bytes whatever that decoder is waiting for, so a unit that is complete in a state needing fewer bytes "
                           "(the 17-byte sealed payload of a 1-byte chunk behind an 18-byte length-block threshold) is withheld until more arrives (stall)")
    ctx.floor("R4h", "state-machine decoders with need-more returns", 2, n_sm)

    # ---------------- R4f ----------------------------------------------------------------------
    # need-more after bytes were taken from the stream requires recorded progress: otherwise the next call starts over at the wrong offset
    n_prog = 0
    for fn, evs in sorted(an.events.items()):
        if fn not in reach:
            continue
        per_blk = {}
        for ev in evs:
            if ev[1] != "need-more-progress":
                continue
            blk, _, unrec, cx, sp = ev
            if not cx or prog.bodies[cx[0]] not in stream_decs:
                continue
            # (a Cursor over the buffer only peeks: the stream itself is consumed by the later advance(position))
            bad = any(o.startswith("decode:arg2") for o in unrec)
            prev = per_blk.get(blk)
            if prev is None or (bad and not prev[0]):
                per_blk[blk] = (bad, sp, cx)
        for blk, (bad, sp, cx) in sorted(per_blk.items()):
            n_prog += 1
            ctx.ob("R4f", fn, "need-more-after-consuming-records-progress", loc(sp), not bad,
                   "need-more is answered either before anything was taken from the stream or after the decoder's state was advanced" if not bad else
                   "Ok(None) is answered after bytes were removed from the stream buffer and nothing was stored in the decoder: the next call parses "
                   "the rest of the frame as if it were its beginning (decode error or garbage for this segmentation, fine for others)  [context: "
                   + " <- ".join(last_seg(c) for c in cx[-3:]) + "]")
    ctx.floor("R4f", "stream decoders whose need-more returns were checked for recorded progress", 8, n_prog)

    # ---------------- R4b ----------------------------------------------------------------------
    n_read = 0
    for (fn, kind, ordn, s) in c07.site_rows(prog, an):
        if fn not in reach or not (kind.startswith("read:") or kind.startswith("consume:") or kind in ("index", "slice-range-end", "slice-range-start", "slice-range-order", "sub-overflow")):
            continue
        # only reads of the decoder's own source buffer (or a cursor over it): reads of opened / derived buffers cannot depend on segmentation
        import re as _re
        rel = []
        for r in s.results:
            m = _re.search(r"`([^`]+)`", r[1])
            o_ = m.group(1) if m else ""
            if o_.startswith("decode:arg2") or ":cur" in o_:
                rel.append(r)
        if not rel:
            continue
        bad = [r for r in rel if not r[0]]
        n_read += 1
        ok = not bad
        o = ctx.ob("R4b", fn, f"{kind}", s.where, ok, (rel[0][1] if ok else bad[0][1] + f"  [context: {bad[0][2]}]")[:500])
        # the same site is triaged once, under C07's key
        alias = "P2|" + o.key.split("|", 1)[1]
        if not ok and alias in ctx.reviewed:
            o.verdict = "reviewed-safe"
            o.detail += " [reviewed-safe (see C07): " + ctx.reviewed[alias]["reason"] + "]"
    ctx.floor("R4b", "reads of the source buffer in stream decoders", 40, n_read)
    for fn in sorted(reach):
        b = prog.bodies[fn]
        if b.root != b.defp:
            continue
        rv = returns_variant(b)
        for blk in b.rpo():
            t = b.term(blk)
            if not t or t["k"] != "switch":
                continue
            cmp_ = const_cmp_of_switch(b, blk)
            if cmp_ is None:
                # comparisons with two variables
                p = op_place(t["d"])
                f = None
                if p and not p[1]:
                    for d in b.defs().get(p[0], []):
                        if d[0] == "assign" and d[3]["rv"]["k"] == "bin" and d[3]["rv"]["op"] in ("Lt", "Le", "Gt", "Ge"):
                            f = d[3]["rv"]
                if f is None:
                    continue
                a_, b_ = f["a"], f["b"]
                ft = [tg for v, tg in t["arms"] if v == 0]
                if not ft:
                    continue
                cmp_ = (f["op"], a_, b_, ft[0], t["otherwise"])
            op, a_, b_, ft, tt = cmp_
            if op not in ("Lt", "Le", "Gt", "Ge"):
                continue
            involves_len = False
            for x in (a_, b_):
                p = op_place(x)
                if p is None:
                    continue
                _, calls, _ = b.slice_back([p[0]], stop_call=lambda c: True)
                if any(c.name in ("Buf::remaining", "BytesMut::len") for (_, c, _) in calls):
                    involves_len = True
            if not involves_len:
                continue
            # only a guard on the decoder's own source buffer can depend on segmentation: a guard on an opened / derived
            # complete unit (an authenticated header, a split-off chunk) answers Err for every segmentation alike
            lg = an.len_guards.get(fn, {})
            if blk in lg and not lg[blk]:
                ctx.ob("R4b", fn, "short-input-is-need-more-not-error", loc(t["sp"]), True,
                       "length guard on a derived (complete) buffer, not on the stream: Err is the same for every segmentation", nontrivial=False)
                continue
            for tgt in (ft, tt):
                reach_b = b.reach_from(tgt)
                errs = [x for x in reach_b if rv.get(x) in ("Err",)]
                oks = [x for x in reach_b if rv.get(x) in ("Ok",)]
                if errs and not oks and len(reach_b) < 40:
                    exempt = "init_aead_2022_payload_decoder" in fn
                    ctx.ob("R4b", fn, "short-input-is-need-more-not-error", loc(t["sp"]), exempt,
                           "a failing length guard returns Err — exempt: Shadowsocks 2022 requires salt and fixed header in the first read" if exempt else
                           "a failing length guard in a stream decoder returns Err instead of Ok(None): a frame cut at this point is an error for one segmentation and data for another")

    # ---------------- R4c ----------------------------------------------------------------------
    polls = [b for b in prog.prod_bodies() if b.root == b.defp and b.method and b.method.startswith("poll_") and b.impl_trait and last_seg(b.impl_trait) in ("Stream", "Sink", "AsyncRead", "AsyncWrite", "Future")]
    ctx.floor("R4c", "poll_* functions implemented in the workspace", 8, len(polls))
    for b in polls:
        pend_blocks = []
        for blk in b.rpo():
            for s in b.stmts(blk):
                if s["k"] == "assign" and s["p"][0] == 0 and not s["p"][1] and s["rv"]["k"] == "agg" and s["rv"].get("variant") == "Pending":
                    pend_blocks.append((blk, s))
        inner = [(blk, c, t) for (blk, c, t) in b.calls() if (c.method or "").startswith("poll_")]
        if not pend_blocks:
            ctx.ob("R4c", b.defp, "pending-only-from-inner-poll", loc(b.sp), True, "never constructs Pending itself (returns the inner poll's result)", nontrivial=False)
        for (pb, s) in pend_blocks:
            ok = False
            for (ib, ic, it) in inner:
                for g in gates_of_value(b, it["dest"][0]):
                    if g.kind == "poll" or g.kind == "other":
                        # Poll: Ready = 0, Pending = 1
                        pt = g.target_for(1)
                        if b.edge_dominates(g.block, pt, pb):
                            ok = True
            ctx.ob("R4c", b.defp, "pending-only-from-inner-poll", loc(s["sp"]), ok,
                   "Pending is returned only behind the Pending arm of an inner poll (a waker is registered)" if ok else
                   "Poll::Pending is returned although the inner poll was Ready: no waker is registered, the task sleeps until something unrelated wakes it (stall after an incomplete frame)")

    # ---------------- R4d ----------------------------------------------------------------------
    streams = [prog.flat(b.defp) for b in prog.methods_of_trait_impls("Stream", "poll_next")]
    streams = [b for b in streams if any(c.name == "Decoder::decode" for (_, c, _) in b.calls())]
    ctx.floor("R4d", "Streams that own a Decoder", 1, len(streams))
    for b in streams:
        decs_ = [(blk, c, t) for (blk, c, t) in b.calls() if c.name == "Decoder::decode"]
        inner = [(blk, c, t) for (blk, c, t) in b.calls() if (c.method or "").startswith("poll_next")]
        # a decode call, or the "nothing new to offer" edge of a flag that guards it, must lie on every path to the transport poll
        avoid = {db for (db, _, _) in decs_}
        for sb in b.rpo():
            t = b.term(sb)
            if t and t["k"] == "switch":
                p_ = op_place(t["d"])
                if p_ is None:
                    continue
                # a switch on a field of the adapter (a bool flag, or the discriminant of a state enum)
                is_state = False
                for d in b.defs().get(p_[0], []):
                    if d[0] == "assign" and d[3]["rv"]["k"] in ("use", "discr"):
                        q = op_place(d[3]["rv"]["op"]) if d[3]["rv"]["k"] == "use" else d[3]["rv"]["p"]
                        if q and any(e[0] == "field" for e in q[1]) and not any(e[0] == "downcast" for e in q[1]) and \
                                (b.local_ty(p_[0]) == "bool" or d[3]["rv"]["k"] == "discr"):
                            is_state = True
                if not is_state:
                    continue
                targets = [tg for v, tg in t["arms"]] + [t["otherwise"]]
                decode_arms = {tg for tg in targets if any(b.dominates(tg, db) for (db, _, _) in decs_)}
                if decode_arms:
                    # the other arms are the "nothing new to offer" edges of that state
                    for tg in targets:
                        tt_ = b.term(tg)
                        if tg not in decode_arms and not (tt_ and tt_["k"] == "unreachable"):
                            avoid.add(tg)
        # ... or the edge on which the carry-over buffer is known to be empty (`self.buffer.take()` returned None)
        for (tb, tc, tt_) in b.calls():
            if tc.name in ("Option::take", "Option::is_none", "Option::as_mut", "Option::as_ref"):
                for g in gates_of_value(b, tt_["dest"][0]):
                    if g.kind == "option" and g.level == 0:
                        avoid.add(g.target_for(0))
        for (ib, ic, it) in inner:
            ok = bool(decs_) and ib not in b.reach_from(0, avoid=frozenset(avoid))
            ctx.ob("R4d", b.defp, "leftover-offered-before-transport-poll", loc(it["sp"]), ok,
                   "the carry-over buffer is offered to the decoder before the transport is polled" if ok else
                   "the transport is polled for a new message before the carry-over buffer is offered to the decoder: a second frame that arrived in the same message is only "
                   "delivered when the next message arrives")

    # ---------------- R4j ----------------------------------------------------------------------
    # what an adapter takes out of its carry-over field must be back in the field (or known to be empty) before the transport is polled:
    # the poll may return Pending, and whatever lives only in a local variable of poll_next is dropped with that return
    for b in streams:
        inner = [(blk, c, t) for (blk, c, t) in b.calls() if (c.method or "").startswith("poll_next")]
        sname = last_seg(b.impl_self_def or "")
        selfish = {i for i, l in enumerate(b.locals) if sname and (sname + "<") in l["ty"].get("s", "") and l["ty"].get("s", "").lstrip().startswith(("&", "std::pin::Pin<&", "core::pin::Pin<&"))} | {1}
        for (tb, tc, tt_) in b.calls():
            if tc.name not in ("Option::take", "Option::replace") and not tc.target.endswith(("mem::take", "mem::replace")):
                continue
            ap = op_place(tt_["args"][0]) if tt_["args"] else None
            if ap is None:
                continue
            fld = None
            for l in b.slice_back([ap[0]], stop_call=lambda cc: True)[0] | {ap[0]}:
                for d in b.defs().get(l, []):
                    if d[0] == "assign" and d[3]["rv"]["k"] == "ref":
                        q = d[3]["rv"]["p"]
                        fl = [e[2] for e in q[1] if e[0] == "field" and len(e) > 2]
                        if q[0] in selfish and fl and "BytesMut" in (b.local_ty(tt_["dest"][0]) or ""):
                            fld = fl[-1]
            if fld is None:
                continue
            taken, _, _ = b.slice_fwd([tt_["dest"][0]])
            safe = set()
            for blk in b.rpo():
                for st in b.stmts(blk):
                    if st["k"] == "assign" and st["p"][0] in selfish and any(e[0] == "field" and len(e) > 2 and e[2] == fld for e in st["p"][1]):
                        safe.add(blk)          # written back
                t2 = b.term(blk)
                if t2 and t2["k"] == "call":
                    c2 = Callee(t2["f"])
                    if c2.method in ("is_empty", "len", "has_remaining", "remaining") and any(op_place(a) and op_place(a)[0] in taken for a in t2["args"]):
                        safe.add(blk)          # emptiness examined: the adapter decides on it
                    if c2.method in ("insert", "replace", "get_or_insert", "get_or_insert_with") and t2["args"] and op_place(t2["args"][0]) and \
                            any(d[0] == "assign" and d[3]["rv"]["k"] == "ref" and d[3]["rv"]["p"][0] in selfish and any(e[0] == "field" and len(e) > 2 and e[2] == fld for e in d[3]["rv"]["p"][1])
                                for d in b.defs().get(op_place(t2["args"][0])[0], [])):
                        safe.add(blk)
            for g in gates_of_value(b, tt_["dest"][0]):
                if g.kind == "option" and g.level == 0:
                    safe.add(g.target_for(0))      # nothing was there
            start = b.term(tb).get("t")
            reach_j = b.reach_from(start, avoid=frozenset(safe)) if start is not None else set()
            hit = [(ib, it) for (ib, ic, it) in inner if ib in reach_j]
            ctx.ob("R4j", b.defp, f"carry-over-restored-before-transport-poll:{fld}", loc(tt_["sp"]), not hit,
                   f"what is taken out of `{fld}` is written back or examined for emptiness before the transport is polled" if not hit else
                   f"`{fld}` is emptied into a local variable and the transport is polled ({loc(hit[0][1]['sp'])}) before it is put back: when that poll returns Pending the "
                   "function returns and the carried-over bytes — the first part of a frame that straddles two messages — are dropped; the rest of the frame then fails to decode")
    # ---------------- R4e ----------------------------------------------------------------------
    inserters = set()
    for b in prog.prod_bodies():
        if b.root != b.defp or b.argc < 2 or b.local_ty(0) not in ("bool", "()"):
            continue
        fc_ = prog.flat(b.defp).calls()       # the lock may be taken in a private helper of the cache type; a wrapper counts too
        if any(is_lock_call(c) for (_, c, _) in fc_) and any(c.method == "insert" and "LruCache" in c.self_s for (_, c, _) in fc_) \
                and "shadowsocks" in b.defp and not any(c.name in SOURCES_ for (_, c, _) in fc_):
            inserters.add(b.defp)
    ctx.floor("R4e", "replay-cache insert functions", 1, len(inserters))
    n_ins = 0
    for fn in sorted(reach):
        b = prog.bodies[fn]
        rv = returns_variant(b)
        some = set(ok_some_blocks(b))
        none_rets = [x for x, v in rv.items() if v == "Ok" and x not in some and "Option<" in b.local_ty(0)]
        for (blk, c, t) in b.calls():
            if c.target in inserters:
                n_ins += 1
                after = b.reach_from(t["t"]) if t["t"] is not None else set()
                bad = [x for x in none_rets if x in after]
                ctx.ob("R4e", b.defp, "no-need-more-after-replay-insert", loc(t["sp"]), not bad,
                       "once the salt is recorded the activation can only end with data or an error" if not bad else
                       "the salt is recorded in the replay cache on a path that can still answer Ok(None): the next read re-parses the same handshake from the start and rejects it as a replayed salt")
    ctx.floor("R4e", "replay-cache insert call sites in stream decoders", 1, n_ins)


def r4k_request_complete_means_connect(ctx, rule="R4k"):
    """R4k: a server codec is a state machine; its initial arm parses the request (credential, command, target). A *stream* request is complete
    when its last header byte has arrived - with or without payload behind it - so the activation that moves the codec out of its initial
    state into the state that relays stream payload must hand out the connect item (target address + whatever payload there is, possibly
    empty). If it can answer `Ok(None)` instead, the target is withheld until the peer sends more (a client that waits for the target to
    speak first never does) - or, where the later state only knows how to emit relay items, the connect item is never produced at all and the
    flow dies with `expect a connect message`: one cut of the byte stream between the request and the first payload byte breaks the flow.
    Judged on the flat body of every server `Decoder::decode`: state writes in the initial arm whose new state's arm can build the
    stream-relay item, against the need-more answers (and self-recursive results) that lie on a path with that write."""
    from .common import inbound_enum, _local_is_some
    from ..mir import op_place
    prog = ctx.prog
    decs = [b for b in prog.methods_of_trait_impls("Decoder", "decode") if b.defp.startswith("octo_squirrel_server")]
    ctx.floor(rule, "server codecs (Decoder impls)", 3, len(decs))
    n_writes = 0
    for b0 in decs:
        fb = prog.flat(b0.defp, stop=lambda cb: not cb.defp.startswith("octo_squirrel_server"), key="same-crate")
        # the state switch: first switch on the discriminant of an enum-typed field of self
        sw = None
        for blk in fb.rpo():
            t = fb.term(blk)
            p = op_place(t["d"]) if t and t["k"] == "switch" else None
            if p is None:
                continue
            for d in fb.defs().get(p[0], []):
                if d[0] == "assign" and d[3]["rv"]["k"] == "discr":
                    pl = d[3]["rv"]["p"]
                    fs = [e[2] for e in pl[1] if e[0] == "field"]
                    if pl[0] == 1 and fs and len([e for e in pl[1] if e[0] in ("field", "downcast")]) == 1:
                        sw = (blk, t, fs[0])
            if sw:
                break
        if sw is None:
            ctx.anchor_lost(rule, f"state switch of {last_seg(b0.impl_self_def or b0.defp)}")
            continue
        sblk, st, field = sw
        codec_ty = last_seg(b0.impl_self_def or "")

        def is_self(local):
            """the codec itself: `self` of decode, or the `self` of one of its own methods spliced into the flat view"""
            ty = fb.local_ty(local).replace("&mut ", "").replace("&", "").strip()
            return local == 1 or (codec_ty and last_seg(ty.split("<")[0]) == codec_ty)
        item_variants = {"ConnectTcp", "RelayTcp", "RelayUdp"}
        arm = {v: x for v, x in st["arms"]}
        init_t = arm.get(0, st["otherwise"])
        region0 = {x for x in fb.rpo() if fb.dominates(init_t, x)}

        def arm_region(v):
            tgt = arm.get(v, st["otherwise"])
            return {x for x in fb.rpo() if fb.dominates(tgt, x)} if tgt != init_t else set()

        def builds_stream_relay(region):
            for x in region:
                for s_ in fb.stmts(x):
                    if s_["k"] == "assign" and s_["rv"]["k"] == "agg" and s_["rv"].get("ak") == "adt" and s_["rv"].get("variant") == "RelayTcp":
                        return True
            return False
        # need-more answers: Ok(None) built into (a value that reaches) the return place, and results of a recursive call to the decoder itself
        rty = fb.local_ty(0)
        nones = []
        for x in fb.rpo():
            for s_ in fb.stmts(x):
                if s_["k"] == "assign" and not s_["p"][1] and s_["rv"]["k"] == "agg" and s_["rv"].get("variant") == "Ok" and s_["rv"].get("def", "").endswith("result::Result") and s_["rv"]["ops"]:
                    dst = s_["p"][0]
                    if dst != 0 and (fb.local_ty(dst) != rty or 0 not in fb.slice_fwd([dst])[0]):
                        continue
                    q = op_place(s_["rv"]["ops"][0])
                    if q is None or not _local_is_some(fb, q[0]):
                        # not provably Some: None, or an Option handed on from elsewhere
                        is_none = q is not None and any(d[0] == "assign" and d[3]["rv"]["k"] == "agg" and d[3]["rv"].get("variant") == "None" for d in fb.defs().get(q[0], []))
                        if is_none:
                            nones.append((x, "Ok(None)"))
            t = fb.term(x)
            if t and t["k"] == "call":
                tb = prog.body(Callee(t["f"]).target)
                if tb is not None and tb.defp == b0.defp and (t["dest"][0] == 0 or 0 in fb.slice_fwd([t["dest"][0]])[0]):
                    nones.append((x, "the result of calling itself again (which answers need-more on an empty buffer)"))
        for x in sorted(region0):
            for s_ in fb.stmts(x):
                if s_["k"] not in ("assign", "setdiscr") or not is_self(s_["p"][0]):
                    continue
                fs = [e[2] for e in s_["p"][1] if e[0] == "field"]
                if not fs or fs[0] != field or len([e for e in s_["p"][1] if e[0] in ("field", "downcast")]) != 1:
                    continue
                # which state(s) does it install?
                vs = set()
                if s_["k"] == "setdiscr":
                    vs.add(s_["v"])
                else:
                    rv = s_["rv"]
                    srcs = [rv] if rv["k"] == "agg" else []
                    q = op_place(rv["op"]) if rv["k"] == "use" else None
                    if q is not None:
                        srcs += [d[3]["rv"] for l_ in fb.slice_back([q[0]], stop_call=lambda c_: True)[0] for d in fb.defs().get(l_, []) if d[0] == "assign" and d[3]["rv"]["k"] == "agg"]
                    for r_ in srcs:
                        if r_.get("ak") == "adt" and "vidx" in r_ and fb.local_ty(0) and r_.get("def") and last_seg(r_["def"]) in fb.local_ty(1) + " " + " ".join(l.get("ty", {}).get("s", "") for l in fb.locals[:1]):
                            vs.add(r_["vidx"])
                        elif r_.get("ak") == "adt" and "vidx" in r_:
                            vs.add(r_["vidx"])
                vs.discard(0)
                if not any(builds_stream_relay(arm_region(v)) for v in vs):
                    continue
                n_writes += 1

                def datagram_branch(n_):
                    """the need-more answer belongs to a branch that only ever hands out datagram items (a datagram request has no connect step: its
                    first packet *is* its first item, and waiting for that packet to be complete is a real need-more)"""
                    idom = fb.idom()
                    d = n_
                    for _ in range(200):
                        built = set()
                        for y in fb.rpo():
                            if fb.dominates(d, y):
                                for s2 in fb.stmts(y):
                                    if s2["k"] == "assign" and s2["rv"]["k"] == "agg" and s2["rv"].get("ak") == "adt" and s2["rv"].get("variant") in item_variants:
                                        built.add(s2["rv"]["variant"])
                        if built:
                            return all("Udp" in v for v in built)
                        nd = idom.get(d)
                        if nd is None or nd == d:
                            return False
                        d = nd
                    return False
                bad = [(n_, how) for (n_, how) in nones if n_ in region0 and (fb.can_reach(x, n_) or fb.can_reach(n_, x)) and not datagram_branch(n_)]
                ctx.ob(rule, b0.defp, "request-complete-means-connect", loc(s_.get("sp") or fb.sp), not bad,
                       "the activation that leaves the initial state for the stream-relay state hands out the connect item" if not bad else
                       f"the codec leaves its initial state for the state that relays stream payload on a path that answers {bad[0][1]}: the request is complete (its target is "
                       "decoded) but no connect item is handed out - the target is not dialled until the peer sends more, and where the later state can only emit relay items "
                       "the connect item is never produced (`expect a connect message`): a cut of the stream between the request and its first payload byte breaks the flow")
    ctx.floor(rule, "initial-state exits into a stream-relay state", 3, n_writes)


def r4l_source_not_rewritten_before_need_more(ctx, rule="R4l"):
    """R4l: a framed reader calls `decode` again with the *same* buffered bytes whenever the decoder answered need-more. A decoder that rewrites
    bytes of its source buffer in place (an AEAD open `..._in_place` on a slice of `src`, a keystream, a copy into it) and then answers
    `Ok(None)` sees its own output as input on the next call: the second attempt authenticates / parses the already-opened bytes, fails, and
    the flow dies - for exactly those segmentations in which the need-more lies between the rewrite and the consumption. The buffer handed
    to an in-place primitive must be detached from the source first (`split_to`, a copy), or no need-more may follow."""
    from ..mir import op_place
    prog = ctx.prog
    DETACH = ("split_to", "split_off", "split", "copy_to_bytes", "to_vec", "clone", "from", "freeze", "copy_from_slice", "extend_from_slice", "to_owned", "into")
    MUT = ("decrypt_in_place", "decrypt_in_place_detached", "encrypt_in_place", "encrypt_in_place_detached", "apply_keystream", "fill", "reverse", "swap")
    decs = [b for b in prog.methods_of_trait_impls("Decoder", "decode") if not is_datagram(prog, b)]
    n = 0
    for b0 in decs:
        fb = prog.flat(b0.defp)
        nones = []
        for x in fb.rpo():
            for s_ in fb.stmts(x):
                if s_["k"] == "assign" and not s_["p"][1] and s_["rv"]["k"] == "agg" and s_["rv"].get("variant") == "Ok" and s_["rv"]["ops"]:
                    q = op_place(s_["rv"]["ops"][0])
                    if q is not None and any(d[0] == "assign" and d[3]["rv"]["k"] == "agg" and d[3]["rv"].get("variant") == "None" for d in fb.defs().get(q[0], [])):
                        nones.append(x)
        for (blk, c, t) in fb.calls():
            if (c.method or "") not in MUT:
                continue
            hit = None
            for a in t["args"][1:]:
                q = op_place(a)
                if q is None or "&mut" not in fb.local_ty(q[0]) and "BytesMut" not in fb.local_ty(q[0]):
                    continue
                locs, _, _ = fb.slice_back([q[0]], stop_call=lambda cc: (cc.method or "") in DETACH)
                # reaches the decoder's own source parameter by references / slicing only
                if 2 in locs and "BytesMut" in fb.local_ty(2):
                    via_detach = False
                    for l_ in locs:
                        for d in fb.defs().get(l_, []):
                            if d[0] == "call" and (Callee(d[2]["f"]).method or "") in DETACH:
                                via_detach = True
                    if not via_detach:
                        hit = q
            if hit is None:
                continue
            n += 1
            after = fb.reach_from(t["t"]) if t["t"] is not None else set()
            bad = [x for x in nones if x in after]
            ctx.ob(rule, b0.defp, f"source-not-rewritten-before-need-more:{c.method}", loc(t["sp"]), not bad,
                   "no need-more answer follows the in-place rewrite of source bytes" if not bad else
                   f"`{c.name}` rewrites bytes of the decoder's own source buffer in place and the decoder can still answer Ok(None) afterwards: the framed reader calls it again "
                   "with the same bytes, now already opened, and the second attempt fails to authenticate - a read boundary between this rewrite and the consumption kills the flow")
    ctx.ob(rule, "workspace", "scan", "-", True, f"{n} in-place rewrites of a decoder's source buffer", nontrivial=False, ordinal=False)
