"""C13 — local SOCKS5 / HTTP handshakes: structural clauses H1-H6 (DESIGN.md section 11)."""
import re

from ..mir import tymatch, Callee, last_seg, loc, op_const, op_int, op_place
from .common import gates_of_value, returns_variant, err_return_reachable_only, flat_err_only

EXPLANATION = (
    "Roles are resolved by type: the dispatcher (client function taking &mut TcpStream and returning Result<Address>), the sniffer (its callee that "
    "peeks the stream and returns the classification enum whose variants carry the Address), the extractor (returns that enum from two &str), the "
    "SOCKS5 exchange (the callee that frames the stream with the SOCKS5 request decoders). H1 the tunnelled address derives only from the parsed "
    "request: dispatcher Ok values from classification payloads or the decoded command request's address field; extractor hosts from the path "
    "parameter and ports from str::parse of a path slice or the constant 80 on the non-CONNECT branch only; the relay entry receives the dispatcher's "
    "address. H2 each protocol's answer is written on its own arm: SOCKS5 success status and the two replies each behind the success edge of the read "
    "they answer; CONNECT a constant `HTTP/1.x 200` response dominating the arm's Ok; plain HTTP: no call receives the stream between classification "
    "and Ok, and the sniffer only peeks on tunnel-classification paths. H3 consumption is tied to the parsed length (CONNECT read length derives "
    "from the parser's Complete(n)); SOCKS5 readers are not dissolved with into_inner between phases (buffer discarded). H4 refusal edges: non-tunnel "
    "classifications reach Err only; extractor parse / separator failures return Err; the SOCKS5 command is examined with the unsupported side "
    "reaching Err; request decoders compare the version byte with 5. H5 the HTTP parser's status is tested and Partial does not produce an answer. "
    "H6 SocksVersion::from maps 5 to the SOCKS5 variant and the protocol VERSION constant is 5.")
ASSUMPTIONS = [
    "that recognize_http extracts the right authority substring for every URI of the grammar is value-level string semantics and is not decided",
    "how many bytes one socket read/peek returns is a run-time quantity; H3/H5 decide only that consumption and answers are tied to the parser's verdict",
    "httparse, tokio and tokio-util behave as their cached sources say (FramedRead::into_inner drops the read buffer, map_decoder keeps it)"]

ADDR = "protocol::address::Address"
STREAM_CONSUMERS = {"AsyncReadExt::read", "AsyncReadExt::read_exact", "AsyncReadExt::read_buf", "AsyncReadExt::read_to_end",
                    "AsyncReadExt::read_u8", "TcpStream::try_read", "TcpStream::readable"}
STREAM_WRITERS = {"AsyncWriteExt::write_all", "AsyncWriteExt::write", "AsyncWriteExt::shutdown", "AsyncWriteExt::write_buf", "AsyncWriteExt::flush",
                  "TcpStream::try_write"}
MOVE_LIKE = ("Clone::clone", "Into::into", "From::from", "Try::branch", "core::mem::replace", "core::mem::take", "Option::take", "Option::unwrap",
             "Option::expect", "Box::new", "Deref::deref")
OK_200 = re.compile(r"^HTTP/1\.[01] 200 [^\r\n]*\r\n([^\r\n]+\r\n)*\r\n$")


def _ty(b, l):
    return b.local_ty(l)


def _stream_locals(b):
    """locals (and upvar fields) that are / point to the TcpStream"""
    out = set()
    for i, l in enumerate(b.locals):
        s = l["ty"].get("s", "")
        if s.replace("&mut ", "").replace("&", "").strip() == "tokio::net::TcpStream":
            out.add(i)
    return out


def _call_takes_stream(b, t):
    """a call terminator one of whose arguments is (a reborrow of) the stream"""
    sl = _stream_locals(b)
    for a in t["args"]:
        p = op_place(a)
        if p is not None and p[0] in sl:
            return True
    return False


def _const_strs(b, start_locals):
    seen, calls, consts = b.slice_back(start_locals)
    out = []
    for (_, c) in consts:
        if "str" in c:
            out.append(c["str"])
        elif "bytes" in c:
            out.append(c["bytes"])
    # constants assigned directly (`_70 = 'HTTP/1.1 ...'`)
    for l in seen:
        for d in b.defs().get(l, []):
            if d[0] == "assign" and d[3]["rv"]["k"] == "use":
                c = op_const(d[3]["rv"]["op"])
                if c is not None and ("str" in c or "bytes" in c):
                    out.append(c.get("str") or c.get("bytes"))
    return out


def _variant_payload_sources(b, locals_):
    """for a set of locals, the (enum-typed local, variant name) downcasts they are assigned from"""
    out = set()
    for l in locals_:
        for d in b.defs().get(l, []):
            if d[0] == "assign":
                rv = d[3]["rv"]
                ops = b.operands_of_rvalue(rv)
                for o in ops:
                    p = op_place(o)
                    if p is None:
                        continue
                    for e in p[1]:
                        if e[0] == "downcast":
                            out.add((p[0], e[1]))
    return out


def _field_sources(b, locals_):
    out = set()
    for l in locals_:
        for d in b.defs().get(l, []):
            if d[0] == "assign":
                for o in b.operands_of_rvalue(d[3]["rv"]):
                    p = op_place(o)
                    if p is None:
                        continue
                    fs = [e[2] for e in p[1] if e[0] == "field" and e[2]]
                    if fs:
                        out.add((p[0], fs[-1]))
    return out


def _ok_operand_locals(b):
    """[(block, local, operand)] of every `Ok(x)` whose value is (or, in a flat body, flows unchanged into) the function's result:
    an Ok aggregate of the result type that reaches `_0` through moves / awaits"""
    out = []
    rty = b.local_ty(0)
    for blk in b.rpo():
        for s in b.stmts(blk):
            if s["k"] == "assign" and not s["p"][1] and s["rv"]["k"] == "agg" and s["rv"].get("variant") == "Ok" and s["rv"].get("def", "").endswith("result::Result"):
                dst = s["p"][0]
                if dst != 0:
                    if b.local_ty(dst) != rty or not _flows_unchanged_to_ret(b, dst):
                        continue
                for o in s["rv"]["ops"]:
                    p = op_place(o)
                    out.append((blk, p[0] if p is not None else None, o))
    return out


def _flows_unchanged_to_ret(b, local):
    """the value reaches the return place as it is: through plain moves, through the return of a spliced callee, and through the
    `Poll::Ready(..)` wrapper / `.0` unwrapping of a spliced await — not through `?`, a match or a new aggregate"""
    seen, work = set(), [local]
    while work:
        l = work.pop()
        if l in seen:
            continue
        seen.add(l)
        if l == 0:
            return True
        for blk in b.rpo():
            for s in b.stmts(blk):
                if s["k"] != "assign" or s["p"][1]:
                    continue
                rv = s["rv"]
                if rv["k"] == "use":
                    p = op_place(rv["op"])
                    if p is not None and p[0] == l and (not p[1] or (len(p[1]) == 2 and p[1][0][0] == "downcast" and p[1][0][1] == "Ready" and p[1][1][0] == "field")):
                        work.append(s["p"][0])
                elif rv["k"] == "agg" and rv.get("variant") == "Ready" and (rv.get("def") or "").endswith("poll::Poll"):
                    p = op_place(rv["ops"][0]) if rv["ops"] else None
                    if p is not None and not p[1] and p[0] == l:
                        work.append(s["p"][0])
    return False


def _enum_item(prog, path):
    for it in prog.items:
        if it["k"] == "enum" and it["path"] == path:
            return it
    return None


def _await_result_local(b, call_dest):
    """follow a future local to the locals that hold its awaited output (through into_future / poll / Ready.0)"""
    seen, calls, sw = b.slice_fwd([call_dest])
    return seen


def run(ctx):
    prog = ctx.prog
    bodies = [b for b in prog.prod_bodies()]

    # ---------------- roles --------------------------------------------------------------------------
    disp_roots = []
    for b in bodies:
        if b.kind != "Fn" or b.root != b.defp or not b.defp.startswith("octo_squirrel_client"):
            continue
        args = [b.local_ty(i) for i in range(1, b.argc + 1)]
        if any(a.replace(" ", "") == "&muttokio::net::TcpStream" for a in args) and ADDR in b.local_ty(0) and "Result<" in b.local_ty(0):
            disp_roots.append(b)
    ctx.floor("H1", "local handshake dispatcher (fn(&mut TcpStream) -> Result<Address>)", 1, len(disp_roots))
    if not disp_roots:
        ctx.anchor_lost("H1", "dispatcher: client function taking &mut TcpStream and returning Result<Address>")
        return
    # helpers with the same signature (an extracted arm) are not dispatchers: a dispatcher's flat view peeks the stream
    disp = [r for r in disp_roots if any(any(c.name == "TcpStream::peek" for (_, c, _) in prog.flat(b.defp).calls()) for b in prog.family(r.defp))]
    if not disp:
        ctx.anchor_lost("H1", "sniffer: code reached from the dispatcher that peeks the stream")
        return
    for root in disp:
        _check_dispatcher(ctx, prog, root)
    _check_tables(ctx, prog)
    # H5: segmentation of the SOCKS5 requests — the completeness guard of the command-request decoder is the length predictor; it must
    # agree with what the address decoder consumes (C14 E3, shared verdict), and the two request decoders must keep C04's need-more
    # discipline (R4a / R4f, shared verdicts)
    from .common import import_length_predictor_agreement
    import_length_predictor_agreement(ctx, "H5")
    from ..engine import Ctx
    from . import c04
    sub = Ctx(prog, "C04", ctx.tier)
    c04.run(sub)
    n = 0
    for o in sub.obs:
        if o.rule in ("R4a", "R4f") and ("InitialRequestDecoder" in o.key or "CommandRequestDecoder" in o.key):
            parts = o.key.split("|")
            n += 1
            ctx.ob("H5", parts[1], f"{o.rule}:{parts[2]}", o.where, o.ok, o.detail)
    ctx.floor("H5", "need-more obligations of the two SOCKS5 request decoders (imported from C04)", 2, n)


def _family_calls(prog, root):
    out = []
    for b in prog.family(root):
        for (blk, c, t) in b.calls():
            out.append((b, blk, c, t))
    return out


def _workspace_family_of(prog, target):
    """family root for a resolved call target (async fn: the Fn body; its coroutine body is {closure#0})"""
    b = prog.body(target)
    if b is None:
        return None
    return b.root


def _check_dispatcher(ctx, prog, root):
    fam = prog.family(root.defp)
    # the arm body: the family member whose flat view (helpers and awaited async fns spliced in) peeks the stream
    arm_body = None
    for b in fam:
        fb = prog.flat(b.defp)
        if any(c.name == "TcpStream::peek" for (_, c, _) in fb.calls()):
            if arm_body is None or fb.n < arm_body.n:
                arm_body = fb
    if arm_body is None:
        ctx.anchor_lost("H1", "sniffer: code reached from the dispatcher that peeks the stream")
        return
    # the sniffer is the function the peeks sit in; its flat view is analysed on its own as well
    peek_fns = {arm_body.origin[blk] for (blk, c, _) in arm_body.calls() if c.name == "TcpStream::peek"}
    # the sniffer: the smallest spliced function whose own flat view contains every peek (a sniffer split into `is it SOCKS5?` and
    # `parse the HTTP request` helpers is their common caller)
    cands_ = []
    for o in set(arm_body.origin):
        fo = prog.flat(o)
        got = {fo.origin[blk] for (blk, c, _) in fo.calls() if c.name == "TcpStream::peek"}
        if peek_fns <= got:
            cands_.append((fo.n, o))
    sn_def = min(cands_)[1] if cands_ else sorted(peek_fns)[0]
    sn_main = prog.flat(sn_def)
    sn_bodies = [sn_main]
    # classification enum: an enum with >= 2 variants carrying the Address that is switched on in the arm body
    enum_path, enum_it = None, None
    for it in prog.items:
        if it["k"] != "enum" or sum(1 for v in it["variants"] if any(ADDR in f[1] for f in v["fields"])) < 2:
            continue
        if any((l["ty"].get("d") or "") == it["path"] for l in arm_body.locals):
            enum_path, enum_it = it["path"], it
    if enum_path is None:
        ctx.anchor_lost("H1", "classification enum (variants carrying the tunnel address) matched by the dispatcher")
        return
    tunnel_variants = {v["name"] for v in enum_it["variants"] if any(ADDR in f[1] for f in v["fields"])}
    nontunnel_with_payload = {v["name"] for v in enum_it["variants"] if v["fields"] and v["name"] not in tunnel_variants}
    unit_variants = {v["name"] for v in enum_it["variants"] if not v["fields"]}
    discr_of = {v["name"]: v["discr"] for v in enum_it["variants"]}
    ctx.floor("H1", "classification variants that carry the tunnel address", 2, len(tunnel_variants))

    # the switch on the classification in the arm body
    cls_switch = None
    cls_local = None
    for blk in arm_body.rpo():
        t = arm_body.term(blk)
        if t and t["k"] == "switch":
            p = op_place(t["d"])
            if p is None:
                continue
            for d in arm_body.defs().get(p[0], []):
                if d[0] == "assign" and d[3]["rv"]["k"] == "discr":
                    src = d[3]["rv"]["p"]
                    if not [e for e in src[1] if e[0] != "deref"] and enum_path.split("::")[-1] in arm_body.local_ty(src[0]) and len(t["arms"]) >= 3:
                        cls_switch, cls_local = (blk, t), src[0]
    if cls_switch is None:
        ctx.anchor_lost("H1", "dispatcher match on the classification enum")
        return
    sw_blk, sw_t = cls_switch

    def arm_target(vname):
        for v, tgt in sw_t["arms"]:
            if v == discr_of[vname]:
                return tgt
        return sw_t["otherwise"]

    arm_entry = {v: arm_target(v) for v in discr_of}
    other_entries = lambda v: frozenset(t for (n, t) in arm_entry.items() if n != v and t != arm_entry[v])

    def arm_blocks(v):
        return arm_body.reach_from(arm_entry[v], avoid=other_entries(v))

    # SOCKS5 exchange: the function (spliced into a unit-variant arm) that frames the stream with FramedRead
    exch = None
    socks_variant = None
    for v in unit_variants:
        for blk in arm_blocks(v):
            t = arm_body.term(blk)
            if t and t["k"] == "call" and Callee(t["f"]).name in ("FramedRead::new", "FramedRead::with_capacity"):
                exch, socks_variant = arm_body.origin[blk], v
    if exch is None:
        ctx.anchor_lost("H1", "SOCKS5 exchange: code on a classification arm that frames the stream")
        return
    ex_root = prog.body(exch).root
    ex_main = prog.flat(exch)
    # the call (or poll) in the arm whose result is the exchange's result: blocks of the exchange inside the arm body
    ex_blocks = {blk for blk in arm_body.rpo() if arm_body.origin[blk] == exch}
    ex_ret_locals = set()
    for blk in ex_blocks:
        for s_ in arm_body.stmts(blk):
            if s_["k"] == "assign" and s_["rv"]["k"] == "agg" and s_["rv"].get("variant") == "Ready" and s_["rv"].get("def") == "core::task::poll::Poll":
                ex_ret_locals.add(s_["p"][0])

    okv = _ok_operand_locals(arm_body)
    rv = returns_variant(arm_body)

    # ---------------- H1a: provenance of every Ok(address) of the dispatcher ----------------------------
    n_ok = 0
    for (blk, l, op) in okv:
        if blk not in arm_body.reachable_blocks():
            continue
        n_ok += 1
        if l is None:
            ctx.ob("H1", root.defp, "ok-address-provenance", loc(arm_body.sp), False, "the dispatcher returns a constant address")
            continue
        is_cls = lambda x: x == cls_local or (arm_body.local_ty_def(x) or "") == enum_path
        is_req = lambda x: (arm_body.local_ty_def(x) or "").endswith("Socks5CommandRequest") and not arm_body.local_ty(x).startswith(("std::result", "std::option", "std::ops", "std::task"))
        seen, calls, consts = arm_body.slice_back([l], stop_call=lambda c: c.name not in MOVE_LIKE, stop_local=lambda x: is_cls(x) or is_req(x))
        vnames = set(discr_of)
        pays = {(x, v) for (x, v) in _variant_payload_sources(arm_body, seen)
                if v in vnames and (x == cls_local or (arm_body.local_ty_def(x) or "") == enum_path)}
        fields = {(x, f) for (x, f) in _field_sources(arm_body, seen) if (arm_body.local_ty_def(x) or "").endswith("Socks5CommandRequest")}
        from_cls = {v for (_, v) in pays}
        from_req = sorted(fields)
        other_calls = [c.name for (_, c, _) in calls if c.name not in MOVE_LIKE]
        built_here = [x for x in seen if any(d[0] == "assign" and d[3]["rv"]["k"] == "agg" and (d[3]["rv"].get("def") or "").endswith(ADDR)
                                             for d in arm_body.defs().get(x, []))]
        arm = [v for v in discr_of if blk in arm_blocks(v)]
        if from_cls and not from_req:
            ok = from_cls <= tunnel_variants and all(blk in arm_blocks(v) for v in from_cls) and not other_calls and not built_here
            why = f"Ok value is the payload of classification variant(s) {sorted(from_cls)} on arm(s) {arm}" + ("" if ok else f" (other sources: {other_calls[:3]}, built here: {bool(built_here)})")
        elif from_req and not from_cls:
            # the request must be the item decoded by the exchange's command-request reader; the field must be its address
            reqs = {x for (x, f) in from_req}
            derive_ok = True
            for x in reqs:
                s2, c2, _ = arm_body.slice_back([x])
                if not any(c.name == "StreamExt::next" and "CommandRequest" in " ".join(a.get("s", "") for a in c.args) for (_, c, _) in c2):
                    derive_ok = False
            fld_ok = all(_req_field_is_address(prog, arm_body.local_ty_def(x) or "", f) for (x, f) in from_req)
            ok = derive_ok and fld_ok and blk in arm_blocks(socks_variant) and not built_here
            why = f"Ok value is field {sorted({f for (_, f) in from_req})} of the command request decoded by the SOCKS5 exchange" + ("" if ok else f" (from the command-request reader: {derive_ok})")
        else:
            ok, why = False, f"Ok value derives from neither a classification payload nor the decoded SOCKS5 request alone (calls: {other_calls[:4]})"
        ctx.ob("H1", root.defp, "ok-address-provenance", loc(_sp_of(arm_body, blk)), ok, why)
    ctx.floor("H1", "Ok returns of the dispatcher", 3, n_ok)

    # ---------------- H2b / H2c / H3a / H4a per arm -----------------------------------------------------
    # which tunnel variant is CONNECT: the one constructed on the extractor's method == "CONNECT" branch
    ext = _extractor(ctx, prog, sn_bodies, enum_path)
    connect_variants, plain_variants = set(), set()
    if ext is not None:
        connect_variants, plain_variants = _check_extractor(ctx, prog, ext, enum_path, tunnel_variants)
        _h7_authority_cut_first(ctx, ext)
    for v in sorted(tunnel_variants):
        blocks = arm_blocks(v)
        oks = [blk for (blk, l, op) in okv if blk in blocks]
        stream_calls = []
        for blk in sorted(blocks):
            t = arm_body.term(blk)
            if t and t["k"] == "call" and not t["sp"][3] and _call_takes_stream(arm_body, t):
                stream_calls.append((blk, Callee(t["f"]), t))
        if v in plain_variants:
            # only calls on the path entry -> Ok matter (drops etc. aside)
            on_path = [(blk, c) for (blk, c, t) in stream_calls if any(arm_body.can_reach(blk, o) for o in oks)]
            ctx.ob("H2", root.defp, f"{v}:plain-http-untouched", loc(_sp_of(arm_body, arm_entry[v])), not on_path,
                   "nothing is read from or written to the local stream on the plain-HTTP arm (the request is forwarded untouched)" if not on_path else
                   f"the plain-HTTP arm calls {[c.name for (_, c) in on_path]} on the local stream before returning the address: the request is no longer forwarded untouched")
        if v in connect_variants:
            writes = [(blk, c, t) for (blk, c, t) in stream_calls if c.name in STREAM_WRITERS]
            good = []
            for (blk, c, t) in writes:
                strs = []
                for a in t["args"][1:]:
                    p = op_place(a)
                    if p is not None:
                        strs += _const_strs(arm_body, [p[0]])
                    elif op_const(a) is not None:
                        cc = op_const(a)
                        strs.append(cc.get("str") or cc.get("bytes") or "")
                if any(isinstance(s, str) and OK_200.match(s) for s in strs) and all(_dominates_via_success(arm_body, blk, o) for o in oks):
                    good.append(blk)
            ctx.ob("H2", root.defp, f"{v}:connect-200-reply", loc(arm_body.sp), bool(good) and bool(oks),
                   "a constant `HTTP/1.x 200` response is written (success edge) before the CONNECT arm returns the address" if good else
                   "the CONNECT arm does not write a well-formed constant `HTTP/1.x 200 ...\\r\\n\\r\\n` response on every path to its Ok")
            # H3a: consuming reads sized by the parser
            reads = [(blk, c, t) for (blk, c, t) in stream_calls if c.name in STREAM_CONSUMERS]
            if not reads:
                ctx.ob("H3", root.defp, f"{v}:connect-request-consumed", loc(arm_body.sp), False,
                       "the CONNECT arm never consumes the request it peeked: the request itself would be relayed into the tunnel")
            for (blk, c, t) in reads:
                ok, why = _read_len_from_parser(arm_body, t, cls_local, v)
                ctx.ob("H3", root.defp, f"{v}:connect-read-length-from-parser", loc(t["sp"]), ok, why)
                # a consuming read that is repeated must be repeated on the parser's word (request incomplete), never on how many bytes the
                # last read returned: "the buffer came back full" does not mean more bytes follow - a request head of exactly that size makes
                # the next read wait for bytes the client will only send after it has seen the answer
                lp = arm_body.innermost_loop(blk)
                if lp is not None:
                    parses = [b2 for (b2, c2, t2) in arm_body.calls() if b2 in lp[1] and (c2.method == "parse" and "httparse" in (c2.target + " " + (c2.self_s or "")))]
                    ctx.ob("H3", root.defp, f"{v}:connect-read-repeated-only-on-the-parser's-word", loc(t["sp"]), bool(parses),
                           "the read loop re-parses what it has read and continues while the request is incomplete" if parses else
                           "the CONNECT arm reads the local stream in a loop that is not steered by the request parser (it continues on the byte count of the previous read): "
                           "a request head whose size is an exact multiple of the buffer makes the handshake wait for bytes that never come, so a well-formed request gets no answer")
    for v in sorted(set(discr_of) - tunnel_variants - {socks_variant}):
        blocks = arm_blocks(v)
        oks = [blk for (blk, l, op) in okv if blk in blocks]
        ok = not oks and (err_return_reachable_only(arm_body, arm_entry[v]) or flat_err_only(prog, arm_body, arm_entry[v]))
        ctx.ob("H4", root.defp, f"{v}:refused", loc(arm_body.sp), ok,
               f"classification {v} reaches Err only" if ok else f"classification {v} (not a tunnel request) can reach an Ok(address) return")

    # ---------------- H2a: SOCKS5 reply status on the dispatcher side ---------------------------------------
    statuses = set()
    where = arm_body.sp
    ok_blocks = [blk_ for (blk_, _, _) in okv]
    for blk in arm_blocks(socks_variant):
        # replies built on a path that can still end in Ok(address); a failure reply on a refusing path is not the handshake's answer
        if not any(arm_body.can_reach(blk, ob_) for ob_ in ok_blocks) or flat_err_only(prog, arm_body, blk):
            continue
        for s_ in arm_body.stmts(blk):
            if s_["k"] == "assign" and s_["rv"]["k"] == "agg" and s_["rv"].get("ak") == "adt" and (s_["rv"].get("def") or "").endswith("Socks5CommandStatus"):
                statuses.add(s_["rv"].get("variant"))
                where = s_.get("sp") or where
    ctx.ob("H2", root.defp, "socks5-reply-status", loc(where), statuses == {"Success"},
           f"the SOCKS5 reply handed to the exchange is built with status {sorted(statuses)}" + ("" if statuses == {"Success"} else " (expected exactly Success)"))

    _check_exchange(ctx, prog, ex_main)
    _check_sniffer(ctx, prog, sn_main, enum_path, tunnel_variants, discr_of)
    _check_relay_entry(ctx, prog, root)


def _req_field_is_address(prog, struct_def, fld):
    for it in prog.items:
        if it["k"] == "struct" and it["path"] == struct_def:
            for (n, ty) in it["fields"]:
                if n == fld:
                    return ADDR in ty
    return False


def _dominates_via_success(b, call_blk, site):
    """the call at call_blk is on every path to site, and the site is behind the success edge of its (awaited) result"""
    if not b.dominates(call_blk, site):
        return False
    t = b.term(call_blk)
    carriers, calls, sw = b.slice_fwd([t["dest"][0]])
    gs = []
    for l in carriers:
        gs += [g for g in gates_of_value(b, l) if g.kind in ("try", "result")]
    for g in gs:
        st = g.success_target()
        if st is not None and b.edge_dominates(g.block, st, site):
            return True
    return False


def _read_len_from_parser(b, t, cls_local, variant):
    """the buffer handed to a consuming read must be sized by a value that derives from the classification payload
    (the parser's Complete(n) carried in the variant) — not a constant-sized array"""
    bufs = [op_place(a)[0] for a in t["args"][1:] if op_place(a) is not None]
    seen, calls, consts = b.slice_back(bufs)
    pays = _variant_payload_sources(b, seen)
    from_cls = any(x == cls_local for (x, v) in pays)
    fixed = None
    for l in seen:
        ty = b.local_ty(l)
        m = re.match(r"^\[u8; (\d+)\]$", ty)
        if m:
            fixed = int(m.group(1))
    sliced = any(c.name in ("Index::index", "IndexMut::index_mut") or "split_at" in c.name or c.name in ("Vec::with_capacity", "Vec::resize", "BytesMut::with_capacity", "BytesMut::resize") for (_, c, _) in calls)
    if from_cls and (sliced or fixed is None):
        return True, "the read length derives from the request length reported by the parser (carried in the classification)"
    return False, (f"the CONNECT request is consumed with one read into a fixed {fixed}-byte buffer; the length does not derive from the parser's "
                   "Complete(n): a longer request leaves its tail in the tunnel, early tunnel bytes behind a shorter one are swallowed")


def _extractor(ctx, prog, sn_bodies, enum_path):
    """the function in which the request method is compared with "CONNECT" (found inside the sniffer's flat view); its own flat view is returned"""
    cands = []
    for b in sn_bodies:
        for (blk, c, t) in b.calls():
            if c.name != "PartialEq::eq":
                continue
            lits = []
            for a in t["args"]:
                p = op_place(a)
                if p is not None:
                    lits += _const_strs(b, [p[0]])
            if "CONNECT" in lits:
                cands.append(b.origin[blk] if getattr(b, "is_flat", False) else b.defp)
    ctx.floor("H1", "authority extractor (compares the method with CONNECT)", 1, len(set(cands)))
    if not cands:
        ctx.anchor_lost("H1", "authority extractor: comparison of the method with \"CONNECT\" reached from the sniffer")
        return None
    # of several functions that look at the method, the extractor is the one that answers with the classification (its result type is the enum)
    uniq = list(dict.fromkeys(cands))
    typed = [c_ for c_ in uniq if prog.body(c_) is not None and last_seg(enum_path) in (prog.body(prog.body(c_).root).local_ty(0) or "")]
    pick = (typed or uniq)[0]
    ext_fb = prog.flat(prog.body(pick).root if prog.body(pick).kind in ("Fn", "AssocFn") else pick)
    # H1e: what the extractor is given as the request target is the target of the request line as the parser reported it - not a value computed
    # from the header block (a `Host` header that disagrees with an absolute-form target must lose, RFC 9112 3.2.2; a proxy that follows it
    # tunnels the request to a host the request line does not name)
    root_ = prog.body(pick).root
    n_sites = 0
    for b in sn_bodies:
        for (blk, c, t) in b.calls():
            tb = prog.body(c.target)
            if tb is None or tb.root != root_ or (getattr(b, "is_flat", False) and "inlined_call" not in t and False):
                continue
            for i, a in enumerate(t["args"]):
                q = op_place(a)
                if q is None or "str" not in b.local_ty(q[0]):
                    continue
                _, acalls, _ = b.slice_back([q[0]])
                via = [cc.name for (_, cc, _) in acalls if (cc.target.startswith("octo_squirrel") and prog.body(cc.target) is not None and prog.body(cc.target).root != root_)
                       or cc.method in ("find", "find_map", "position", "iter", "filter", "and_then", "eq_ignore_ascii_case") or "Header" in (cc.self_s or "")]
                n_sites += 1
                ctx.ob("H1", b.defp, f"extractor-argument-is-the-request-line's:{i}", loc(t["sp"]), not via,
                       "the extractor is handed the method / target exactly as the request-line parser reported them" if not via else
                       f"the value handed to the extractor as request {'method' if i == 0 else 'target'} is computed ({', '.join(sorted(set(via))[:4])}) instead of being the request line's own: "
                       "e.g. a Host header that disagrees with an absolute-form target decides where the request is tunnelled")
    ctx.floor("H1", "string arguments of the extractor's call site(s)", 2, n_sites)
    return ext_fb


def _check_extractor(ctx, prog, eb, enum_path, tunnel_variants):
    """H1c + H4b. Returns (connect_variants, plain_variants)."""
    short = enum_path.split("::")[-1]
    str_params = [i for i in range(1, eb.argc + 1) if eb.local_ty(i).replace("mut ", "") == "&str"]
    # method parameter: the one compared (PartialEq::eq) with a constant; path: the other
    method_param = None
    connect_gate = None
    for (blk, c, t) in eb.calls():
        if c.name == "PartialEq::eq":
            srcs = set()
            lits = []
            for a in t["args"]:
                p = op_place(a)
                if p is not None:
                    s, _, cs = eb.slice_back([p[0]])
                    srcs |= {x for x in s if x in str_params}
                    lits += [c_.get("str") for (_, c_) in cs if "str" in c_]
                    for l in s:
                        for d in eb.defs().get(l, []):
                            if d[0] == "assign" and d[3]["rv"]["k"] == "use":
                                cc = op_const(d[3]["rv"]["op"])
                                if cc and "str" in cc:
                                    lits.append(cc["str"])
            if "CONNECT" in lits and len(srcs) == 1:
                method_param = next(iter(srcs))
                gs = [g for g in gates_of_value(eb, t["dest"][0]) if g.kind == "bool"]
                if gs:
                    connect_gate = gs[0]
    if method_param is None or connect_gate is None:
        ctx.anchor_lost("H1", "extractor: comparison of the method with \"CONNECT\"")
        return set(), set()
    path_params = [p for p in str_params if p != method_param]
    connect_side = eb.reach_from(connect_gate.bool_target(True), avoid=frozenset([connect_gate.bool_target(False)]))
    plain_side = eb.reach_from(connect_gate.bool_target(False), avoid=frozenset([connect_gate.bool_target(True)]))
    connect_variants, plain_variants = set(), set()
    n_addr = 0
    for blk in eb.rpo():
        for s in eb.stmts(blk):
            if s["k"] != "assign" or s["rv"]["k"] != "agg" or s["rv"].get("ak") != "adt":
                continue
            adt = s["rv"].get("adt") or eb.local_ty(s["p"][0])
            if short in adt and s["rv"].get("variant") in tunnel_variants:
                (connect_variants if blk in connect_side and blk not in plain_side else plain_variants).add(s["rv"]["variant"])
            if ADDR in adt and "Address" in eb.local_ty(s["p"][0]):
                n_addr += 1
                side = "CONNECT" if (blk in connect_side and blk not in plain_side) else "plain"
                ops = s["rv"]["ops"]
                # host operand (String) and port operand (u16)
                for o in ops:
                    p = op_place(o)
                    if p is None:
                        k = op_int(o)
                        ok = (k == 80 and side == "plain")
                        ctx.ob("H1", eb.defp, f"{side}:port", loc(_sp_of(eb, blk)), ok,
                               f"constant port {k} on the {side} branch" + ("" if ok else ": only 80 on the plain-HTTP branch is a documented default"))
                        continue
                    ty = eb.local_ty(p[0])
                    seen, calls, consts = eb.slice_back([p[0]])
                    if "String" in ty:
                        from_path = any(x in path_params for x in seen)
                        lit = [c_["str"] for (_, c_) in consts if "str" in c_ and len(c_["str"]) > 0 and not _is_needle(c_["str"])]
                        ok = from_path and not lit and method_param not in seen
                        ctx.ob("H1", eb.defp, f"{side}:host", loc(_sp_of(eb, blk)), ok,
                               "host derives from the request target only" if ok else f"host does not derive purely from the request target (from_path={from_path}, literals={lit[:3]})")
                    elif ty in ("u16",):
                        parses = [(b_, c, t) for (b_, c, t) in calls if c.name == "str::parse"]
                        ints = [c_["int"] for (_, c_) in consts if "int" in c_ and c_.get("ty") == "u16"]
                        from_path = any(x in path_params for x in seen)
                        ok = bool(parses) and from_path and not ints
                        ctx.ob("H1", eb.defp, f"{side}:port", loc(_sp_of(eb, blk)), ok,
                               "port is str::parse of a slice of the request target" if ok else
                               f"port does not derive from str::parse of the request target alone (parse={bool(parses)}, from_path={from_path}, constants={ints})")
    ctx.floor("H1", "address constructions in the extractor", 3, n_addr)
    # H4b: parse results and the CONNECT separator are tested with the failure edge returning Err
    n = 0
    for (blk, c, t) in eb.calls():
        if c.name == "str::parse" or (c.name in ("Option::ok_or_else", "Option::ok_or") and blk in connect_side):
            n += 1
            gs = [g for g in gates_of_value(eb, t["dest"][0]) if g.kind in ("try", "result")]
            ok = False
            for g in gs:
                ft = g.target_for(1)
                if err_return_reachable_only(eb, ft) or flat_err_only(prog, eb, ft):
                    ok = True
            ctx.ob("H4", eb.defp, f"{last_seg(c.name)}:failure-returns-err", loc(t["sp"]), ok,
                   "the failure edge returns Err (the request is refused)" if ok else "the failure of this parse step does not return Err (defaulted or ignored)")
    ctx.floor("H4", "fallible parse steps in the extractor", 3, n)
    # a CONNECT target without ':' must not fall back to a default: the connect side must contain a None->Err conversion of the separator search
    seps = [(blk, c, t) for (blk, c, t) in eb.calls() if blk in connect_side and blk not in plain_side and c.name in ("str::rfind", "str::find", "str::split_once", "str::rsplit_once")]
    conv = [(blk, c, t) for (blk, c, t) in eb.calls() if blk in connect_side and blk not in plain_side and c.name in ("Option::ok_or_else", "Option::ok_or")]
    ok = bool(seps) and bool(conv)
    ctx.ob("H4", eb.defp, "CONNECT:missing-port-refused", loc(eb.sp), ok,
           "a CONNECT target without a port separator is converted to Err" if ok else "the CONNECT branch has no separator search whose absence is turned into Err")
    return connect_variants, plain_variants


def _is_needle(s):
    return s in ("://", "/", ":", "?", "]", "[", "CONNECT")


def _sp_of(b, blk):
    t = b.term(blk)
    if t and t.get("sp"):
        return t["sp"]
    return b.sp


def _check_exchange(ctx, prog, ex):
    """H2a (two replies, each behind the read it answers), H1b, H3b, H4c."""
    calls = ex.calls()
    readers = [(blk, c, t) for (blk, c, t) in calls if c.name in ("FramedRead::new", "FramedRead::map_decoder", "FramedRead::with_capacity")]
    nexts = [(blk, c, t) for (blk, c, t) in calls if c.name == "StreamExt::next" and not t["sp"][3]]
    sends = [(blk, c, t) for (blk, c, t) in calls if c.name in ("SinkExt::send", "SinkExt::feed") and not t["sp"][3]]
    ctx.floor("H2", "SOCKS5 exchange: request reads", 2, len(nexts))
    ctx.floor("H2", "SOCKS5 exchange: replies", 2, len(sends))

    def decoder_of(next_t):
        # type of the stream the `next` is taken on
        for a in next_t["args"]:
            p = op_place(a)
            if p is not None:
                ty = ex.local_ty(p[0])
                m = re.search(r"FramedRead<[^,]+, ([^>]+)>", ty)
                if m:
                    return m.group(1)
        return ""

    init_reads = [(blk, c, t) for (blk, c, t) in nexts if "InitialRequest" in decoder_of(t)]
    cmd_reads = [(blk, c, t) for (blk, c, t) in nexts if "CommandRequest" in decoder_of(t)]
    if not init_reads or not cmd_reads:
        ctx.anchor_lost("H2", "SOCKS5 exchange: reads through the initial-request and command-request decoders")
        return

    def kind_of_send(t):
        p = op_place(t["args"][1]) if len(t["args"]) > 1 else None
        if p is None:
            return "?"
        seen, cs, _ = ex.slice_back([p[0]])
        aggs = {}
        for l in seen:
            for d in ex.defs().get(l, []):
                if d[0] == "assign" and d[3]["rv"]["k"] == "agg" and d[3]["rv"].get("ak") == "adt":
                    aggs.setdefault(last_seg(d[3]["rv"].get("def") or ""), set()).add(d[3]["rv"].get("variant"))
        names = [c.name for (_, c, _) in cs]
        if "Socks5InitialResponse" in aggs or any(n == "Socks5InitialResponse::new" for n in names):
            return "method-selection:" + ",".join(sorted(m or "?" for m in aggs.get("Socks5AuthMethod", {"?"})))
        if "Socks5CommandResponse" in aggs or any(n == "Socks5CommandResponse::new" for n in names):
            return "command-reply:" + ",".join(sorted(x or "?" for x in aggs.get("Socks5CommandStatus", {"?"})))
        if any("Socks5CommandResponse" in ex.local_ty(l) and 1 <= l <= len(ex.locals) and ex.local_name(l) for l in seen):
            return "command-reply:caller"
        return "?"

    ms = [(blk, t) for (blk, c, t) in sends if kind_of_send(t).startswith("method-selection")]
    okb_ = [blk_ for (blk_, _, _) in _ok_operand_locals(ex)]
    # the reply that answers the request: sent on a path that can still succeed (the caller's reply, or one the exchange builds itself)
    cr = [(blk, t) for (blk, c, t) in sends if kind_of_send(t).startswith("command-reply") and any(ex.can_reach(blk, ob_) for ob_ in okb_)
          and not flat_err_only(prog, ex, blk)]
    for (blk, t) in ms:
        k = kind_of_send(t)
        ok1 = k == "method-selection:NoAuth"
        ok2 = any(_dominates_via_success(ex, rb, blk) for (rb, _, _) in init_reads)
        ctx.ob("H2", ex.defp, "method-selection-reply", loc(t["sp"]), ok1 and ok2,
               f"{k}; behind the success edge of the greeting read: {ok2}")
    if not ms:
        ctx.ob("H2", ex.defp, "method-selection-reply", loc(ex.sp), False, "the exchange never sends a method-selection reply")
    for (blk, t) in cr:
        ok = any(_dominates_via_success(ex, rb, blk) for (rb, _, _) in cmd_reads) and all(ex.dominates(mb, blk) for (mb, _) in ms)
        ctx.ob("H2", ex.defp, "command-reply-after-request", loc(t["sp"]), ok,
               "the caller's reply is sent behind the success edge of the command-request read, after the method selection" if ok else
               "the caller's reply can be sent without a successfully decoded command request (or before the method selection)")
    if not cr:
        ctx.ob("H2", ex.defp, "command-reply-after-request", loc(ex.sp), False, "the exchange never sends the caller's reply")
    # every Ok return must be behind the caller's reply
    okv = _ok_operand_locals(ex)
    for (blk, l, op) in okv:
        ok = any(ex.dominates(sb, blk) for (sb, _) in cr)
        ctx.ob("H2", ex.defp, "ok-after-reply", loc(_sp_of(ex, blk)), ok, "the exchange succeeds only after the reply was sent" if ok else "the exchange can succeed without having sent the reply")
        # H1b: returned request derives from the command-request read
        if l is not None:
            seen, cs, _ = ex.slice_back([l])
            ok = any(t in [x[2] for x in cmd_reads] for (_, _, t) in cs)
            ctx.ob("H1", ex.defp, "returned-request-is-the-decoded-one", loc(_sp_of(ex, blk)), ok,
                   "the returned request is the item decoded by the command-request reader" if ok else "the returned request does not derive from the command-request reader")
        # H4c: the command type is examined on the way to Ok
        exam = _command_examined(ex, cmd_reads, blk)
        ctx.ob("H4", ex.defp, "command-type-examined", loc(_sp_of(ex, blk)), exam[0], exam[1])
    # H4e: the exchange refuses a request for what it asks to *do* (an unsupported command), not for what it names: the target of a well-formed
    # request is the application's business, and `exactly the requested target` leaves no room for a proxy-side opinion on which names are
    # acceptable (a rooted name, an underscore label). A refusing branch whose condition is computed from the decoded address is such an opinion.
    from .common import flat_err_only as _feo
    n_sw = 0
    for sb in ex.rpo():
        st_ = ex.term(sb)
        if not st_ or st_["k"] != "switch":
            continue
        q = op_place(st_["d"])
        if q is None:
            continue
        locs_, cs_, _ = ex.slice_back([q[0]])
        # the test is computed from the host text / the address value: some call in the slice takes a `&str` / `String` / `Address` argument that is
        # read out of a decoded `Address`
        def _texty(ct):
            for a in ct["args"]:
                qa = op_place(a)
                if qa is None:
                    continue
                ty = ex.local_ty(qa[0])
                if ("str" in ty or "String" in ty) and any("Address" in ex.local_ty(l2) and "Result<" not in ex.local_ty(l2) for l2 in ex.slice_back([qa[0]], stop_call=lambda c_: True)[0]):
                    return True
            return False
        from_addr = any(_texty(ct) for (_, cc, ct) in cs_)
        if not from_addr:
            continue
        n_sw += 1
        targets = {x for _, x in st_["arms"]} | {st_["otherwise"]}
        refusing = [x for x in targets if (_feo(prog, ex, x) if getattr(ex, "is_flat", False) else err_return_reachable_only(ex, x))]
        bad = bool(refusing) and len(refusing) < len(targets)
        ctx.ob("H4", ex.defp, "no-refusal-on-the-content-of-the-address", loc(st_["sp"]), not bad,
               "no branch on the decoded address leads to a refusal" if not bad else
               "the exchange refuses a well-formed request because of what its address *contains* (a test computed from the decoded target selects an Err-only branch): "
               "names the proxy's rule does not like - a rooted `example.com.`, a label with `_` - get a failure reply instead of a tunnel to exactly that name")
    # H3b: readers must not be dissolved with into_inner and re-framed (buffer discarded)
    for (blk, c, t) in calls:
        if c.name == "FramedRead::into_inner" and not t["sp"][3]:
            seen, cs, _ = ex.slice_fwd([t["dest"][0]])
            reframed = any(cc.name in ("FramedRead::new", "Framed::new", "FramedRead::with_capacity") for (_, cc, _, _) in cs)
            handed = any(cc.name in ("FramedRead::read_buffer", "FramedRead::read_buffer_mut") and ex.dominates(b2, blk) for (b2, cc, _) in calls)
            ok = handed or not reframed
            ctx.ob("H3", ex.defp, "reader-buffer-kept-between-phases", loc(t["sp"]), ok,
                   "the reader's buffer is inspected/handed on before into_inner" if ok else
                   "FramedRead::into_inner discards the bytes the first reader read ahead; the next reader is built over the bare stream, so a request "
                   "that arrived in the same segment as the greeting is lost")
    # H4d: decoders compare the version with the constant
    for dec in ("Socks5InitialRequestDecoder", "Socks5CommandRequestDecoder"):
        ds = [b for b in prog.methods_of_trait_impls("Decoder", "decode") if (b.impl_self_def or "").endswith(dec)]
        if not ds:
            ctx.anchor_lost("H4", f"{dec}::decode")
            continue
        d = ds[0]
        ok, why = _version_checked(prog, prog.flat(d.defp))
        ctx.ob("H4", d.defp, "version-byte-checked", loc(d.sp), ok, why)


def _command_examined(ex, cmd_reads, ok_blk):
    """a switch whose discriminant derives from the `command_type` field of the decoded request, one side of which cannot reach ok_blk
    and reaches an Err return, must dominate ok_blk"""
    from .common import returns_variant
    rv = returns_variant(ex)
    for blk in ex.rpo():
        t = ex.term(blk)
        if not t or t["k"] != "switch" or not ex.dominates(blk, ok_blk):
            continue
        p = op_place(t["d"])
        if p is None:
            continue
        seen, cs, consts = ex.slice_back([p[0]])
        flds = _field_sources(ex, seen)
        touches = any("Socks5CommandRequest" in ex.local_ty(x) and "command" in (f or "") for (x, f) in flds)
        if not touches:
            # direct discriminant of the field
            for l in seen:
                for d in ex.defs().get(l, []):
                    if d[0] == "assign" and d[3]["rv"]["k"] in ("discr", "ref", "use"):
                        pp = d[3]["rv"].get("p") or (op_place(d[3]["rv"].get("op")) if d[3]["rv"].get("op") else None)
                        if pp and "Socks5CommandRequest" in ex.local_ty(pp[0]) and any(e[0] == "field" and e[2] and "command" in e[2] for e in pp[1]):
                            touches = True
        if not touches:
            continue
        for s in ex.succ(blk):
            if not ex.can_reach(s, ok_blk) and err_return_reachable_only(ex, s):
                return True, "the decoded command type is tested and the refused side returns Err before any tunnel is reported"
    return False, ("the command type of the decoded request is never examined on the way to success: BIND (and any other unsupported command) is answered "
                   "with the success reply and tunnelled like CONNECT")


def _version_checked(prog, d):
    for fam in [d]:
        for blk in fam.rpo():
            t = fam.term(blk)
            if not t or t["k"] != "switch":
                continue
            p = op_place(t["d"])
            if p is None:
                continue
            for df in fam.defs().get(p[0], []):
                if df[0] == "assign" and df[3]["rv"]["k"] == "bin" and df[3]["rv"]["op"] in ("Ne", "Eq"):
                    a, b_ = df[3]["rv"]["a"], df[3]["rv"]["b"]
                    consts = [op_const(x) for x in (a, b_)]
                    is5 = any(c is not None and (c.get("int") == 5 or str(c.get("item", "")).endswith("::VERSION")) for c in consts)
                    reads = []
                    for x in (a, b_):
                        pp = op_place(x)
                        if pp is not None:
                            s, cs, _ = fam.slice_back([pp[0]])
                            reads += [c.name for (_, c, _) in cs if c.method == "get_u8"]
                    if is5 and reads:
                        bad = t["otherwise"] if df[3]["rv"]["op"] == "Ne" else [tg for (v, tg) in t["arms"] if v == 0][0]
                        if flat_err_only(prog, fam, bad):
                            return True, "the version byte read from the wire is compared with the SOCKS5 constant; mismatch returns Err"
    return False, "no comparison of the version byte with the SOCKS5 constant whose mismatch returns Err"


def _check_sniffer(ctx, prog, sn, enum_path, tunnel_variants, discr_of):
    """H2c (tunnel classifications are produced by peek-only paths), H5 (parser status tested), H6 (first byte)."""
    short = enum_path.split("::")[-1]
    calls = sn.calls()
    peeks = [(blk, c, t) for (blk, c, t) in calls if c.name == "TcpStream::peek"]
    ctx.floor("H5", "peeks in the sniffer", 1, len(peeks))
    # classification constructions in the sniffer (or results passed through from the extractor)
    cons = []
    for blk in sn.rpo():
        for s in sn.stmts(blk):
            if s["k"] == "assign" and s["rv"]["k"] == "agg" and s["rv"].get("ak") == "adt" and short in (s["rv"].get("def") or sn.local_ty(s["p"][0])) \
                    and short in sn.local_ty(s["p"][0]):
                cons.append((blk, s["rv"].get("variant")))
    ext_calls = [(blk, c, t) for (blk, c, t) in calls if prog.body(c.target) is not None and short in prog.body(c.target).local_ty(0)]
    touching = [(blk, c, t) for (blk, c, t) in calls if not t["sp"][3] and _call_takes_stream(sn, t) and c.name != "TcpStream::peek"
                and prog.body(c.target) is None and not (c.method == "poll" and c.trait)]
    # H2c: a consuming / writing call on the stream may only lead to non-tunnel classifications
    for (blk, c, t) in touching:
        reach = sn.reach_from(blk)
        bad = [v for (cb, v) in cons if cb in reach and v in tunnel_variants] + [last_seg(cc.target) for (cb, cc, _) in ext_calls if cb in reach]
        ctx.ob("H2", sn.defp, f"sniffer-only-peeks:{c.method}", loc(t["sp"]), not bad,
               f"{c.name} on the stream only precedes refusals" if not bad else f"{c.name} touches the stream on a path that still yields a tunnel classification {bad}")
    socks_cons = [(blk, v) for (blk, v) in cons if v not in tunnel_variants]
    # H5: parser status tested
    parses = [(blk, c, t) for (blk, c, t) in calls if c.name == "Request::parse"]
    ctx.floor("H5", "HTTP request parses in the sniffer", 1, len(parses))
    for (blk, c, t) in parses:
        carriers, cs, sw = sn.slice_fwd([t["dest"][0]])
        tested = False
        status_switches = []
        for d_l, defs in sn.defs().items():
            for d in defs:
                if d[0] != "assign" or d[3]["rv"]["k"] != "discr":
                    continue
                pp = d[3]["rv"]["p"]
                if pp[0] not in carriers:
                    continue
                proj = [e for e in pp[1] if e[0] != "deref"]
                ty = sn.local_ty(pp[0])
                if ty.startswith("("):
                    # (parse(..), path, method): only a discriminant read of the parse result's own tuple field counts
                    idx = _tuple_index_of(sn, pp[0], t["dest"][0])
                    if idx is None or not proj or proj[0][0] != "field" or proj[0][1] != idx:
                        continue
                    proj = proj[1:]
                elif not ("Status" in ty and ("Result<" in ty or "httparse::Status" in ty or "ControlFlow<" in ty)):
                    continue
                tested = True
                # a discriminant of the Status itself (payload of Ok / Continue), not of the Result around it
                inner = [e for e in proj if e[0] == "downcast"]
                if (inner and inner[-1][1] in ("Ok", "Continue")) or (not inner and "Result<" not in ty and "ControlFlow<" not in ty):
                    status_switches.append(d_l)
        ok = tested
        why = "the parser's status (Complete / Partial / error) is tested" if tested else \
            ("the result of Request::parse is never examined: an incomplete request line (Status::Partial, e.g. split inside the target) is classified "
             "from whatever fields happen to be set — answered `414 URI Too Long` or refused as unknown instead of waiting for the rest")
        ctx.ob("H5", sn.defp, "parser-status-tested", loc(t["sp"]), ok, why)
        if tested:
            # the Partial edge (httparse::Status: Complete = 0, Partial = 1) must lead back to a peek / wait, never to a tunnel
            # classification or a written answer
            bad = []
            found = False
            peek_blocks = frozenset(pb for (pb, _, _) in peeks)
            for blk2 in sn.rpo():
                t2 = sn.term(blk2)
                if not t2 or t2["k"] != "switch":
                    continue
                p2 = op_place(t2["d"])
                if p2 is None or p2[0] not in status_switches:
                    continue
                found = True
                part = [tg for (v, tg) in t2["arms"] if v == 1]
                part = part[0] if part else t2["otherwise"]
                comp = [tg for (v, tg) in t2["arms"] if v == 0]
                reach = sn.reach_from(part, avoid=peek_blocks | frozenset(comp))
                bad += [v for (cb, v) in cons if cb in reach and v in tunnel_variants]
                bad += [c.name for (cb, c, _) in touching if cb in reach and c.name in STREAM_WRITERS]
                bad += [last_seg(cc.target) for (cb, cc, _) in ext_calls if cb in reach]
            ok2 = found and not bad
            ctx.ob("H5", sn.defp, "partial-request-waits", loc(t["sp"]), ok2,
                   "an incomplete request (Status::Partial) leads back to another peek before anything is classified or answered" if ok2 else
                   ("no switch on the parser's Status (Complete vs Partial) was found" if not found else
                    f"an incomplete request (Status::Partial) can reach {sorted(set(bad))} without another peek"))
    # H6: the SOCKS5 decision is taken on a byte of the peeked buffer (through SocksVersion::from)
    ok = False
    vers = [i for i, l in enumerate(sn.locals) if (l["ty"].get("d") or "").endswith("socks::SocksVersion")]
    peek_bufs = set()
    for (pb, _, t) in peeks:
        for a in t["args"][1:]:
            pp = op_place(a)
            if pp is not None:
                sb, _, _ = sn.slice_back([pp[0]])
                peek_bufs |= {x for x in sb if re.match(r"^\[u8; \d+\]$", sn.local_ty(x))}
    conv_args = []
    for (blk, c, t) in sn.calls():
        if c.method == "from" and c.trait and last_seg(c.trait) == "From" and tymatch((c.self_def or ""), "socks::SocksVersion"):
            conv_args += [op_place(a)[0] for a in t["args"] if op_place(a) is not None]
    if vers and conv_args:
        seen, cs, _ = sn.slice_back(conv_args)
        idx = False
        for l in seen:
            for d in sn.defs().get(l, []):
                if d[0] == "assign":
                    for o in sn.operands_of_rvalue(d[3]["rv"]):
                        p = op_place(o)
                        if p and p[0] in peek_bufs and any(e[0] in ("index", "cidx") for e in p[1]):
                            idx = True
        ok = idx
    ctx.ob("H6", sn.defp, "socks5-decided-on-first-peeked-byte", loc(sn.sp), ok,
           "the SOCKS version is computed from a byte of the peeked buffer after the first peek" if ok else "the SOCKS5 decision does not derive from the peeked first byte")


def _tuple_index_of(b, tuple_local, elem_local):
    for d in b.defs().get(tuple_local, []):
        if d[0] == "assign" and d[3]["rv"]["k"] == "agg" and d[3]["rv"].get("ak") == "tuple":
            for i, o in enumerate(d[3]["rv"]["ops"]):
                p = op_place(o)
                if p is not None and p[0] == elem_local:
                    return i
    return None


def _check_relay_entry(ctx, prog, root):
    """H1d: the address handed to the outbound/codec constructor is the one the dispatcher returned."""
    callers = prog.callers_of(lambda c: c.target == root.defp)
    ctx.floor("H1", "call sites of the dispatcher", 1, len(callers))
    for (b, blk, c, t) in callers:
        carriers, cs, sw = b.slice_fwd([t["dest"][0]])
        # the next workspace call on the success side that takes a value derived from the result
        uses = [(cb, cc, ct, i) for (cb, cc, ct, i) in cs if prog.body(cc.target) is not None and prog.body(cc.target).root != root.defp]
        ok = bool(uses)
        ctx.ob("H1", b.defp, "relay-receives-dispatcher-address", loc(t["sp"]), ok,
               f"the handshake result flows into {sorted({last_seg(cc.target) for (_, cc, _, _) in uses})}" if ok else "the dispatcher's address is not passed on to the relay")
        # and that call must be behind the Ok edge
        for (cb, cc, ct, i) in uses[:1]:
            gs = []
            for l in carriers:
                gs += [g for g in gates_of_value(b, l) if g.kind in ("result", "try")]
            good = any(g.success_target() is not None and b.edge_dominates(g.block, g.success_target(), cb) for g in gs)
            ctx.ob("H4", b.defp, "relay-only-after-successful-handshake", loc(ct["sp"]), good,
                   "the relay is entered only on the Ok edge of the handshake" if good else "the relay can be entered although the handshake failed")


def _check_tables(ctx, prog):
    """H6: SocksVersion::from maps 5 -> Socks5; VERSION == 5."""
    it = [i for i in prog.items if i["k"] == "enum" and tymatch(i["path"], "socks::SocksVersion")]
    if not it:
        ctx.anchor_lost("H6", "SocksVersion enum")
        return
    d5 = [v for v in it[0]["variants"] if v["name"].lower() == "socks5"]
    ctx.ob("H6", it[0]["path"], "socks5-discriminant", loc(it[0]["sp"]), bool(d5) and d5[0]["discr"] == 5, f"Socks5 = {d5[0]['discr'] if d5 else '?'}", ordinal=False)
    frm = [b for b in prog.prod_bodies() if b.impl_trait and last_seg(b.impl_trait) == "From" and (b.impl_self_def or "").endswith("SocksVersion") and b.method == "from"]
    if not frm:
        ctx.anchor_lost("H6", "impl From<u8> for SocksVersion")
        return
    fb = frm[0]
    # every return of variant Socks5 must be behind an equality of the argument with (Socks5 as u8) = 5
    ok = False
    for blk in fb.rpo():
        for s in fb.stmts(blk):
            if s["k"] == "assign" and s["p"][0] == 0 and s["rv"]["k"] == "agg" and s["rv"].get("variant") == "Socks5":
                # dominated by a switch on Eq(arg, cast(discr(Socks5)))
                for sb in fb.rpo():
                    t = fb.term(sb)
                    if t and t["k"] == "switch" and fb.dominates(sb, blk):
                        p = op_place(t["d"])
                        if p is None:
                            continue
                        for d in fb.defs().get(p[0], []):
                            if d[0] == "assign" and d[3]["rv"]["k"] == "bin" and d[3]["rv"]["op"] == "Eq":
                                seen, cs, consts = fb.slice_back([x[0] for x in (op_place(d[3]["rv"]["a"]), op_place(d[3]["rv"]["b"])) if x is not None])
                                ints = {c_.get("int") for (_, c_) in consts if "int" in c_}
                                tt = t["otherwise"]
                                if 1 in seen and 5 in ints and fb.edge_dominates(sb, tt, blk):
                                    ok = True
    ctx.ob("H6", fb.defp, "byte-5-selects-socks5", loc(fb.sp), ok,
           "Socks5 is returned only behind `value == Socks5 as u8`" if ok else "the Socks5 classification is not guarded by an equality with the Socks5 discriminant")
    vconst = None
    for b in prog.prod_bodies():
        for blk in b.rpo():
            for s in b.stmts(blk):
                pass
    consts = [i for i in prog.items if i["k"] == "const" and tymatch(i["path"], "socks5::VERSION")]
    if consts:
        v = consts[0].get("int")
        ctx.ob("H6", consts[0]["path"], "socks5-version-constant", loc(consts[0]["sp"]), v in (5, "5"), f"VERSION = {v}", ordinal=False)


AUTHORITY_DELIMS = {58: ":", 93: "]", 91: "[", 64: "@"}


def _h7_authority_cut_first(ctx, eb):
    """H7: in an absolute-form target the authority ends at the first '/' behind "://". A search for a delimiter that only has meaning INSIDE the
    authority (':' port, '[' ']' literal, '@' userinfo) must run on the target after that cut: if it can still be followed by the '/' search it
    has looked at the path as well, and a path that contains the delimiter (`http://host/@user`, `http://host/a:b`) moves the host or port."""
    searches = []
    for (blk, c, t) in eb.calls():
        if c.method in ("find", "rfind", "split_once", "rsplit_once", "split", "rsplit", "splitn", "rsplitn", "rmatch_indices", "match_indices") and len(t["args"]) > 1 and "str" in (c.self_s or c.name):
            k = op_const(t["args"][1])
            if k is None:
                continue
            pat = k.get("int") if k.get("ty") == "char" else k.get("str")
            searches.append((blk, c, t, pat))
    cuts = [x for x in searches if x[3] == 47 or x[3] == "/"]
    inner = [x for x in searches if x[3] in AUTHORITY_DELIMS or (isinstance(x[3], str) and x[3] in AUTHORITY_DELIMS.values())]
    ctx.floor("H7", "searches for authority-internal delimiters in the extractor", 2, len(inner))
    ctx.floor("H7", "path-cut search ('/') in the extractor", 1, len(cuts))
    for (blk, c, t, pat) in inner:
        early = [cb for (cb, _, _, _) in cuts if cb != blk and eb.can_reach(blk, cb)]
        ch = AUTHORITY_DELIMS.get(pat, pat)
        ctx.ob("H7", eb.defp, f"authority-delimiter-searched-after-path-cut:{ch}", loc(t["sp"]), not early,
               f"the search for '{ch}' runs after the target was cut at the first '/'" if not early else
               f"the search for '{ch}' can still be followed by the search for the first '/': it ran over the path as well, so a '{ch}' in the path of an absolute-form request "
               "moves the start of the host (or the port) — the client then tunnels to a host taken from the path")
