"""C14 — addresses survive encoding exactly or are refused (DESIGN.md 4/C14)."""
import re

from ..mir import tymatch, Callee, last_seg, loc, op_const, op_int, op_place
from .common import const_cmp_of_switch, gates_of_value, returns_variant

EXPLANATION = (
    "E1 every narrowing integer cast of a length (value derived from len()/remaining()) whose result is written to the wire (put_*, to_be_bytes, "
    "encode_size) must be range-guarded: derived from min(_, K) / a dominating comparison with a constant that fits the target type / a constant-size "
    "object. E2 both address encoders must refuse the empty name with an error before writing anything (a panic is not a refusal). E3 sibling tables: "
    "for the SOCKS5-style (encode, decode, length, try_decode_at) and VMess-style (write, read) functions the checker extracts per address variant the "
    "type byte and the ordered field widths written / read along the arm and requires writer == reader (exact consumption), length helpers == the sum, "
    "the specified type byte per variant, and that the length byte and the name bytes of a domain derive from the same string. E4 names are decoded as "
    "checked UTF-8 (no from_utf8_unchecked on wire bytes). E5 between the bytes of the wire and the Address value (both directions, followed into "
    "workspace functions such as `impl From<SocketAddr> for Address`) only value-preserving operations occur: constructors, accessors, byte-order "
    "conversions, error plumbing; any other call on that data path (canonicalisation, trimming, case folding, ...) is a rewrite of the address.")
ASSUMPTIONS = ["equality decode(encode(a)) == a as values is not decided; widths, type bytes, guards and provenance are"]

TYPE_BYTES = {"socks5": {"Domain": 3, "V4": 1, "V6": 4}, "vmess": {"Domain": 2, "V4": 1, "V6": 3}}
MAXV = {"u8": 255, "u16": 65535, "u32": 2**32 - 1}


def e6_stream_opened_for_this_target(ctx):
    """E6: where an address is sent once per stream (the VMess request header) and datagrams then travel without one, `the server decodes the identical
    address` for a datagram means: the stream it is written into was opened for that datagram's target. The only thing that ties the two together
    is the client's binding key (C02 U2 re-evaluated): it contains the target, and contains it as an identity."""
    from ..engine import Ctx
    from . import c02
    sub = Ctx(ctx.prog, "C02", ctx.tier)
    c02.run(sub)
    n = 0
    for o in sub.obs:
        if o.rule == "U2" and "binding-key" in o.key:
            n += 1
            parts = o.key.split("|")
            ctx.ob("E6", parts[1], parts[2], o.where, o.ok, o.detail)
    ctx.floor("E6", "binding-key obligations (U2)", 3, n)


def e7_consumption_is_not_decided_by_content(ctx):
    """E7: `the server ... consumes exactly the address's own bytes`: how many bytes a request parser takes off the stream around the address is fixed
    by the format - constants (a type byte, a two-byte line break), lengths read from length fields, or `everything that is left`. A
    consumption whose length comes out of *scanning the bytes that follow* (a `take_while` / `position` / `find` over the buffer, a count of
    matching bytes) eats payload whenever the payload happens to begin with bytes the scan accepts: the address is decoded correctly and the
    bytes behind it are not the client's. Judged in the server request decoders and the address functions they use."""
    prog = ctx.prog
    SCANS = ("take_while", "skip_while", "position", "rposition", "find", "rfind", "count", "find_map", "split", "splitn", "trim_start_matches", "strip_prefix", "memchr")
    roots = [b for b in prog.methods_of_trait_impls("Decoder", "decode") if b.defp.startswith("octo_squirrel_server")]
    n = 0
    for b0 in roots:
        fb = prog.flat(b0.defp)
        if not any("Address" in fb.local_ty(t["dest"][0]) and "Result<" in fb.local_ty(t["dest"][0]) for (_, c, t) in fb.calls()):
            continue
        for (blk, c, t) in fb.calls():
            if c.name not in ("Buf::advance", "BytesMut::split_to", "Buf::copy_to_bytes", "BytesMut::split_off") or len(t["args"]) < 2:
                continue
            q = op_place(t["args"][1])
            if q is None:
                continue
            n += 1
            _, acalls, _ = fb.slice_back([q[0]])
            def _is_scan(cc):
                return (cc.method or "") in SCANS and (cc.name.startswith(("Iterator::", "str::", "[T]::", "DoubleEndedIterator::")) or "memchr" in cc.target)
            scans = {cc.name for (_, cc, _) in acalls if _is_scan(cc)}
            # a helper handed over as a function value (`.and_then(line_len)`) computes the length just the same
            for (_, cc, ct) in acalls:
                for a in ct["args"]:
                    k = op_const(a)
                    if k and "fn" in k:
                        hb = prog.body(Callee(k["fn"]).target)
                        if hb is not None and hb.defp.startswith("octo_squirrel"):
                            scans |= {c2.name + " (in " + last_seg(hb.defp) + ")" for (_, c2, _) in prog.flat(hb.defp).calls() if _is_scan(c2)}
            scans = sorted(scans)
            ctx.ob("E7", prog.body(fb.origin[blk]).defp if prog.body(fb.origin[blk]) is not None else b0.defp, f"consumed-length-not-from-a-content-scan:{c.method}", loc(t["sp"]), not scans,
                   "the consumed length is a constant, a length field or the remaining length" if not scans else
                   f"the number of bytes taken off the stream here comes out of scanning the bytes themselves ({', '.join(scans[:3])}): when the payload behind the request begins "
                   "with bytes the scan accepts they are consumed as part of the request - the address decodes correctly and the payload handed on is not what the client sent")
    ctx.floor("E7", "variable-length consumptions in server request decoders", 3, n)


def run(ctx):
    prog = ctx.prog
    bodies = [b for b in prog.prod_bodies() if "::_" not in b.defp]
    e6_stream_opened_for_this_target(ctx)
    e7_consumption_is_not_decided_by_content(ctx)
    e1(ctx, prog, bodies)
    e2_e3(ctx, prog, bodies)
    # ---------------- E4 --------------------------------------------------------------------------
    n = 0
    for b in bodies:
        for (blk, c, t) in b.calls():
            if c.method == "from_utf8_unchecked":
                n += 1
                p = op_place(t["args"][0])
                locs, calls, _ = b.slice_back([p[0]]) if p else (set(), [], [])
                wire = any(cc.method in ("split_to", "copy_to_bytes", "get_u8", "split_off") for (_, cc, _) in calls) or any(
                    1 <= l <= b.argc and "BytesMut" in b.local_ty(l) for l in locs)
                if "address" in b.defp:
                    ctx.ob("E4", b.defp, "unchecked-utf8-on-wire-bytes", loc(t["sp"]), not wire,
                           "from_utf8_unchecked on constant data" if not wire else "a host name taken from the wire is turned into a String without UTF-8 validation (invalid String => undefined behaviour downstream)")
    readers = [b for b in bodies if ("address" in b.defp) and any(c.method in ("from_utf8", "from_utf8_unchecked", "from_utf8_lossy") for (_, c, _) in b.calls())]
    ctx.floor("E4", "address decoders building a host String", 2, len(readers))
    for b in readers:
        if not any(c.method == "from_utf8_unchecked" for (_, c, _) in b.calls()):
            ctx.ob("E4", b.defp, "checked-utf8", loc(b.sp), True, "host names are decoded with checked from_utf8")


# operations through which an address value may flow between the wire and the `Address` without being changed
PRESERVING = {
    # reading / writing bytes
    "get_u8", "get_u16", "get_u32", "get_u64", "get_u128", "split_to", "split_off", "copy_to_bytes", "copy_to_slice", "chunk", "freeze", "to_vec", "to_owned",
    "into_boxed_slice", "as_ref", "as_bytes", "as_str", "as_slice", "deref", "deref_mut", "borrow", "clone", "into", "to_string", "into_bytes", "into_owned",
    "from_be_bytes", "to_be_bytes", "octets", "segments", "ip", "port", "len", "is_empty", "iter", "into_iter", "next", "index", "index_mut", "into_inner", "get_ref",
    # constructors that store their arguments unchanged
    "new", "from", "try_from", "from_utf8", "from_str", "parse", "from_bits", "to_bits",
    # control / error plumbing (carry the value through unchanged or only build the Err side)
    "branch", "from_residual", "map_err", "ok_or", "ok_or_else", "ok", "unwrap", "expect", "unwrap_or_default", "msg", "context",
}
# names that are in PRESERVING for std types only: a workspace function of that name is looked into instead
LOOK_INTO = ("new", "from", "try_from", "parse", "from_str", "into")


def value_path(prog, b, starts, memo, depth=0):
    """calls the given values may derive from (flow-insensitive backward slice, followed into workspace callees' return values):
    returns the list of (function, call name, where) that are not value-preserving"""
    bad = []
    _, calls, _ = b.slice_back(list(starts))
    for (blk, c, t) in calls:
        nm = c.method or last_seg(c.name)
        tgt = c.target or ""
        if tgt.startswith("octo_squirrel") and tgt in prog.bodies:
            if depth >= 4:
                continue
            key = tgt
            if key not in memo:
                memo[key] = None      # recursion guard
                cb = prog.bodies[tgt]
                memo[key] = value_path(prog, cb, [0], memo, depth + 1)
            bad += memo[key] or []
            continue
        if "indirect" in c.f:
            continue
        if nm in PRESERVING or nm.startswith("from_") or nm.startswith("as_"):
            # `new`/`from` of std net / string types store their arguments; anything fancier has its own name
            continue
        if nm in ("must_use", "format", "black_box", "identity") or tgt.startswith("core::fmt") or tgt.startswith("alloc::fmt") or "anyhow" in tgt or tgt.startswith("core::panicking") or "tracing" in tgt or "log::" in tgt:
            continue
        bad.append((prog.display(b.defp), c.name, loc(t["sp"])))
    return bad


def e5(ctx, prog, encs, decs):
    memo = {}
    for d in decs:
        bad = value_path(prog, d, [0], memo)
        ctx.ob("E5", d.defp, "decoded-value-is-not-transformed", loc(d.sp), not bad,
               "every operation between the bytes read and the returned Address stores its input unchanged" if not bad else
               "the decoded address passes through " + "; ".join(f"{n} (in {f}, {w})" for (f, n, w) in bad[:4]) +
               ": the Address handed to the caller is no longer the one that was encoded (normalisation / rewriting on the codec path)", ordinal=False)
    for e in encs:
        starts = set()
        for (blk, c, t) in e.calls():
            if (c.method or "") in ("put_u8", "put_u16", "put_u32", "put_u128", "put_slice", "extend_from_slice", "put") and len(t["args"]) > 1:
                p = op_place(t["args"][1])
                if p is not None:
                    starts.add(p[0])
        bad = value_path(prog, e, starts, memo) if starts else []
        ctx.ob("E5", e.defp, "encoded-value-is-not-transformed", loc(e.sp), not bad,
               "every byte written derives from the Address through accessors only" if not bad else
               "bytes written to the wire pass through " + "; ".join(f"{n} (in {f}, {w})" for (f, n, w) in bad[:4]) +
               ": what is sent is not the address that was given (normalisation / rewriting on the codec path)", ordinal=False)
    ctx.floor("E5", "address codecs checked for value-preserving data paths", 4, len(encs) + len(decs))


def e1(ctx, prog, bodies):
    n = 0
    for b in bodies:
        if not any(k in b.defp for k in ("::codec", "::protocol", "client::trojan", "client::vmess", "client::shadowsocks", "server::trojan", "server::vmess", "server::shadowsocks")):
            continue
        for blk in b.rpo():
            for s in b.stmts(blk):
                if s["k"] != "assign" or s["rv"]["k"] != "cast" or s["rv"]["ck"] != "IntToInt":
                    continue
                frm, to = s["rv"]["from"], s["rv"]["to"]
                if to not in MAXV or frm not in ("usize", "u64", "u32", "u16", "u128") or (frm in MAXV and MAXV[frm] <= MAXV[to]):
                    continue
                p = op_place(s["rv"]["op"])
                if p is None:
                    continue
                locs, calls, consts = b.slice_back([p[0]])
                is_len = any(cc.method in ("len", "remaining") for (_, cc, _) in calls)
                if not is_len:
                    continue
                # wire sink?
                fwd, fcalls, _ = b.slice_fwd([s["p"][0]])
                sink = [cc for (_, cc, _, _) in fcalls if re.match(r"put_[ui]\d+", cc.method or "") or cc.method in ("to_be_bytes", "extend_from_slice", "encode_size")]
                if not sink:
                    continue
                n += 1
                why = None
                # (a) min
                mins = [(bb, cc, tt) for (bb, cc, tt) in calls if cc.name == "Ord::min"]
                if mins:
                    ks = [op_int(tt["args"][1]) for (_, _, tt) in mins if op_int(tt["args"][1]) is not None]
                    if ks and max(ks) <= MAXV[to]:
                        why = f"bounded by min(_, {max(ks)})"
                    elif not ks:
                        why = "bounded by min(_, limit) with a derived limit"
                # (b) length of a fixed-size array / constant
                if why is None and all(_fixed_len(b, tt) for (_, cc, tt) in calls if cc.method == "len"):
                    if any(cc.method == "len" for (_, cc, _) in calls):
                        why = "length of a fixed-size array"
                # (c) dominating comparison with a constant
                if why is None:
                    for sb in b.rpo():
                        tt = b.term(sb)
                        if tt and tt["k"] == "switch":
                            cmp_ = const_cmp_of_switch(b, sb)
                            if cmp_ and cmp_[0] in ("Gt", "Ge", "Lt", "Le"):
                                op, a, bb_, ft, ttg = cmp_
                                k = op_int(bb_) if op_int(bb_) is not None else op_int(a)
                                var = a if op_int(bb_) is not None else bb_
                                pv = op_place(var)
                                if k is None or pv is None or k > MAXV[to] + 1:
                                    continue
                                vl, vcalls, _ = b.slice_back([pv[0]])
                                if not any(cc.method in ("len", "remaining") for (_, cc, _) in vcalls):
                                    continue
                                for tgt in (ft, ttg):
                                    if b.edge_dominates(sb, tgt, blk):
                                        why = f"guarded by a comparison with {k}"
                key_detail = f"{frm}->{to}:{sink[0].method}"
                ctx.ob("E1", b.defp, f"narrowing-length-cast:{key_detail}", loc(s["sp"]), why is not None,
                       (f"`len as {to}` is {why}") if why else
                       f"a length is cast `{frm} as {to}` and written to the wire ({sink[0].name}) without any range guard: a value above {MAXV[to]} is silently truncated and the remaining bytes are re-interpreted by the receiver")
    # a checked conversion (u8::try_from(len) / len.try_into()) is the same obligation, discharged by the type
    for b in [b_ for b_ in bodies if any(k in b_.defp for k in ("::codec", "::protocol", "client::trojan", "client::vmess", "client::shadowsocks", "server::trojan", "server::vmess", "server::shadowsocks"))]:
        for (blk, c, t) in b.calls():
            if c.name not in ("TryFrom::try_from", "TryInto::try_into") or not t["args"]:
                continue
            p = op_place(t["args"][0])
            dty = b.local_ty(t["dest"][0])
            m = re.search(r"Result<(u8|u16|u32)\b", dty)
            if p is None or not m:
                continue
            _, calls, _ = b.slice_back([p[0]])
            if not any(cc.method in ("len", "remaining") for (_, cc, _) in calls):
                continue
            n += 1
            ctx.ob("E1", b.defp, f"narrowing-length-cast:checked->{m.group(1)}", loc(t["sp"]), True, f"length converted with a checked {c.name} to {m.group(1)}: an oversized value is an error, not a truncation")
    ctx.floor("E1", "narrowing casts of wire lengths", 8, n)


def _fixed_len(b, t):
    p = op_place(t["args"][0]) if t["args"] else None
    if p is None:
        return False
    locs, _, _ = b.slice_back([p[0]])
    return any(re.match(r"^&?(mut )?\[u8; \d+\]$", b.local_ty(l)) for l in locs)


WIDTH = {"get_u8": 1, "get_i8": 1, "get_u16": 2, "get_u32": 4, "get_u64": 8, "get_u128": 16, "put_u8": 1, "put_u16": 2, "put_u32": 4, "put_u64": 8, "put_u128": 16}


def seq_in(b, blocks):
    """ordered widths of wire reads/writes performed in `blocks` (rpo order)"""
    out = []
    for blk in b.rpo():
        if blk not in blocks:
            continue
        t = b.term(blk)
        if not t or t["k"] != "call":
            continue
        c = Callee(t["f"])
        m = c.method
        if m in WIDTH and c.trait and last_seg(c.trait) in ("Buf", "BufMut"):
            out.append(WIDTH[m])
        elif m in ("split_to", "copy_to_bytes") and op_int(t["args"][1]) is None:
            out.append("n")
        elif m == "extend_from_slice":
            p = op_place(t["args"][1])
            _, calls, _ = b.slice_back([p[0]]) if p else (0, [], 0)
            if any(cc.method == "octets" and "Ipv4Addr" in cc.self_s for (_, cc, _) in calls):
                out.append(4)
            elif any(cc.method == "octets" and "Ipv6Addr" in cc.self_s for (_, cc, _) in calls):
                out.append(16)
            elif any(cc.method == "as_bytes" for (_, cc, _) in calls):
                out.append("n")
            else:
                out.append("?")
    return out


def variant_regions_encoder(b):
    """variant -> blocks dominated by the block that binds the variant's payload (Domain / V4 / V6)"""
    out = {}
    for blk in b.rpo():
        for s in b.stmts(blk):
            if s["k"] == "assign" and s["rv"]["k"] == "ref":
                p = s["rv"]["p"]
                vs = [e[1] for e in p[1] if e[0] == "downcast"]
                if vs and vs[-1] in ("Domain", "V4", "V6") and vs[-1] not in out and (p[0] == 1 or "SocketAddr" in b.local_ty(p[0]) or "Address" in b.local_ty(p[0])):
                    out[vs[-1]] = (blk, {x for x in b.rpo() if b.dominates(blk, x)})
    return out


def variant_paths_encoder(b):
    """variant -> (None, blocks on the path the encoder takes for that address variant), by finite-configuration evaluation: every switch on the
    discriminant of the address argument (Address: Domain / Socket; SocketAddr: V4 / V6) — also inside spliced helpers, which match on
    the same argument again — is forced to the variant's arm. Independent of how many `match addr` the encoder is written with."""
    from .common import simulate_cfg, switch_target
    out = {}
    cache = {}

    def from_param(l):
        if l not in cache:
            cache[l] = 1 in b.slice_back([l], stop_call=lambda cc: cc.name not in ("Deref::deref", "AsRef::as_ref", "Clone::clone", "Borrow::borrow"))[0] or l == 1
        return cache[l]
    for v in ("Domain", "V4", "V6"):
        def decide(blk, t, v=v):
            p = op_place(t["d"])
            if p is None:
                return None
            for d in b.defs().get(p[0], []):
                if d[0] == "assign" and d[3]["rv"]["k"] == "discr":
                    pl = d[3]["rv"]["p"]
                    if not from_param(pl[0]):
                        continue
                    dc = [e[1] for e in pl[1] if e[0] == "downcast"]
                    ty = b.local_ty(pl[0])
                    if not dc and "Address" in ty and "SocketAddr" not in ty.split("Address")[0][-12:]:
                        return switch_target(t, 0 if v == "Domain" else 1)      # Address::Domain = 0, Address::Socket = 1
                    if (dc == ["Socket"]) or (not dc and "SocketAddr" in ty):
                        if v == "Domain":
                            return None
                        return switch_target(t, 0 if v == "V4" else 1)          # SocketAddr::V4 = 0, V6 = 1
            return None
        seen = simulate_cfg(b, decide)
        out[v] = (None, seen)
    return out


def variant_regions_decoder(b):
    """variant -> (arm blocks, prefix blocks): arms of the switch on the address type"""
    markers = {}
    for blk in b.rpo():
        for s in b.stmts(blk):
            if s["k"] == "assign" and s["rv"]["k"] == "agg" and s["rv"]["ak"] == "adt":
                v = s["rv"]["variant"]
                d = s["rv"].get("def", "")
                if tymatch(d, "address::Address") and v == "Domain":
                    markers["Domain"] = blk
                elif d.endswith("SocketAddr") and v in ("V4", "V6"):
                    markers[v] = blk
    # the type switch: the switch with >= 3 explicit arms
    sw = None
    for blk in b.rpo():
        t = b.term(blk)
        if t and t["k"] == "switch" and len(t["arms"]) >= 3:
            sw = blk
            break
    if sw is None:
        return {}, set(), None
    out = {}
    t = b.term(sw)
    for v, tgt in t["arms"]:
        region = {x for x in b.rpo() if b.dominates(tgt, x)}
        for name, mb in markers.items():
            if mb in region:
                out[name] = (v, region)
    prefix = {x for x in b.rpo() if b.dominates(x, sw)}
    return out, prefix, sw


def lin_eval(b, local, depth=0):
    """evaluate a usize expression to (constant, coefficient of an unknown length n) or None"""
    if depth > 12:
        return None
    defs = [d for d in b.defs().get(local, []) if not (len(d) > 3 and d[3] == "spliced")]
    if len(defs) != 1:
        return None
    d = defs[0]
    if d[0] == "call":
        c = Callee(d[2]["f"])
        if c.method in ("len",):
            return (0, 1)
        return None
    rv = d[3]["rv"]

    def ev(op):
        k = op_int(op)
        if k is not None:
            return (k, 0)
        p = op_place(op)
        if p is None:
            return None
        if p[1]:
            # tuple field of a checked op: (_x.0)
            if p[1][0][0] == "field" and p[1][0][1] == 0:
                return lin_eval(b, p[0], depth + 1)
            if p[1][-1][0] == "index":
                return (0, 1)
            if all(e[0] == "deref" for e in p[1]) and 1 <= p[0] <= b.argc and b.local_ty(p[0]).lstrip("&").strip() in ("u8", "mut u8"):
                return (0, 1)      # `|&len| ..`: a byte taken from the buffer
            return None
        if 1 <= p[0] <= b.argc and b.local_ty(p[0]) == "u8" and not b.defs().get(p[0]):
            return (0, 1)
        return lin_eval(b, p[0], depth + 1)

    if rv["k"] == "use":
        return ev(rv["op"])
    if rv["k"] == "cast":
        return ev(rv["op"])
    if rv["k"] == "bin":
        a, c2 = ev(rv["a"]), ev(rv["b"])
        if a is None or c2 is None:
            return None
        op = rv["op"].replace("WithOverflow", "")
        if op == "Add":
            return (a[0] + c2[0], a[1] + c2[1])
        if op == "Mul" and a[1] == 0 and c2[1] == 0:
            return (a[0] * c2[0], 0)
        return None
    return None


def ret_lin(b, blocks, prog=None):
    """linear value stored into _0 (possibly wrapped in Ok / Some, possibly produced by `opt.map(|x| ..)`) within `blocks`"""
    def of_operand(op, depth=0):
        k = op_int(op)
        if k is not None:
            return (k, 0)
        p = op_place(op)
        if p is None or depth > 6:
            return None
        if p[1] and p[1][0][0] == "field":
            return lin_eval(b, p[0])
        defs = b.defs().get(p[0], [])
        for d in defs:
            if d[0] == "assign" and d[3]["rv"]["k"] == "agg" and d[3]["rv"].get("variant") in ("Ok", "Some") and d[3]["rv"]["ops"]:
                return of_operand(d[3]["rv"]["ops"][0], depth + 1)
            if d[0] == "call":
                c = Callee(d[2]["f"])
                if c.name == "Option::map" and prog is not None and len(d[2]["args"]) == 2:
                    cp = op_place(d[2]["args"][1])
                    cty = b.local_ty_def(cp[0]) if cp else None
                    cb = prog.body(cty) if cty else None
                    if cb is not None:
                        return ret_lin(cb, set(cb.rpo()), prog)
        return lin_eval(b, p[0])

    # the value may be produced per arm into a carrier local and wrapped after the join (`Ok(match .. { .. })`)
    carriers = {0}
    changed = True
    while changed:
        changed = False
        for blk in b.rpo():
            for s in b.stmts(blk):
                if s["k"] == "assign" and s["p"][0] in carriers and not s["p"][1]:
                    rv = s["rv"]
                    ops = rv["ops"] if rv["k"] == "agg" and rv.get("variant") in ("Ok", "Some") else ([rv["op"]] if rv["k"] == "use" else [])
                    for o in ops:
                        pp = op_place(o)
                        if pp is not None and not pp[1] and pp[0] not in carriers and len(b.defs().get(pp[0], [])) > 1:
                            carriers.add(pp[0])
                            changed = True
    for blk in b.rpo():
        if blk not in blocks:
            continue
        for s in b.stmts(blk):
            if s["k"] == "assign" and s["p"][0] in carriers and not s["p"][1]:
                rv = s["rv"]
                if rv["k"] == "agg" and rv.get("variant") in ("Ok", "Some") and rv["ops"]:
                    return of_operand(rv["ops"][0])
                if rv["k"] == "use":
                    return of_operand(rv["op"])
                if rv["k"] == "bin":
                    return None
        t = b.term(blk)
        if t and t["k"] == "call" and t["dest"][0] in carriers and not t["dest"][1]:
            c = Callee(t["f"])
            if c.name == "Option::map" and prog is not None and len(t["args"]) == 2:
                cp = op_place(t["args"][1])
                cty = b.local_ty_def(cp[0]) if cp else None
                cb = prog.body(cty) if cty else None
                if cb is not None:
                    return ret_lin(cb, set(cb.rpo()), prog)
    return None


def total(seq):
    c, n = 0, 0
    for w in seq:
        if w == "n":
            n += 1
        elif isinstance(w, int):
            c += w
        else:
            return None
    return (c, n)


def e2_e3(ctx, prog, bodies):
    fam = {
        "socks5": {"enc": "protocol::socks5::address::encode", "dec": "protocol::socks5::address::decode",
                   "len": ["protocol::socks5::address::length", "protocol::socks5::address::try_decode_at"]},
        "vmess": {"enc": "protocol::vmess::address::write_address_port", "dec": "protocol::vmess::address::read_address_port", "len": []},
    }
    # find by role rather than by name: encoder = fn(&Address, &mut BytesMut) with put_* calls on 3 variant arms; decoder = fn returning Address reading get_*
    # judged on flat views: an encoder / decoder written as a pipeline of small helpers is the same encoder / decoder
    encs = [prog.flat(b.defp) for b in bodies if b.root == b.defp and b.argc == 2 and "Address" in b.local_ty(1) and "BytesMut" in b.local_ty(2)]
    encs = [b for b in encs if "put_u16" in {c.method for (_, c, _) in b.calls()} and "put_u8" in {c.method for (_, c, _) in b.calls()} and
            any(s_["k"] == "assign" and s_["rv"]["k"] == "discr" for blk in b.rpo() for s_ in b.stmts(blk))]
    # of several candidates the innermost is the encoder (a caller that splices it in is a user of the encoder, not an encoder)
    enc_defs = {b.defp for b in encs}
    encs = [b for b in encs if not any(o in enc_defs and o != b.defp for o in set(b.origin))]
    decs = [prog.flat(b.defp) for b in bodies if b.root == b.defp and b.argc == 1 and "Address" in b.local_ty(0)]
    decs = [b for b in decs if len(variant_regions_decoder(b)[0]) == 3]
    ctx.floor("E3", "address encoders", 2, len(encs))
    ctx.floor("E3", "address decoders", 2, len(decs))
    e5(ctx, prog, encs, decs)
    pairs = []
    for e in encs:
        style = "vmess" if "vmess" in e.defp else "socks5"
        d = [x for x in decs if ("vmess" in x.defp) == (style == "vmess")]
        if d:
            pairs.append((style, e, d[0]))
    for (style, e, d) in pairs:
        er = variant_paths_encoder(e)
        dr, prefix, sw = variant_regions_decoder(d)
        pre = seq_in(d, prefix)
        for v in ("Domain", "V4", "V6"):
            if v not in er or v not in dr:
                ctx.ob("E3", e.defp, f"{v}:arms-found", loc(e.sp), False, f"variant arm {v} not found in encoder/decoder", ordinal=False)
                continue
            w = seq_in(e, er[v][1])
            r = pre + seq_in(d, dr[v][1])
            ctx.ob("E3", e.defp, f"{v}:writer-reader-widths", loc(e.sp), w == r and "?" not in w, f"{style} {v}: writer fields {w}; reader fields {r}", ordinal=False)
            # type byte
            tb = _type_byte(e, er[v][1])
            ctx.ob("E3", e.defp, f"{v}:type-byte", loc(e.sp), tb == TYPE_BYTES[style][v], f"{style} {v}: type byte written {tb}, specification {TYPE_BYTES[style][v]}", ordinal=False)
            ctx.ob("E3", d.defp, f"{v}:type-switch-arm", loc(d.sp), dr[v][0] == TYPE_BYTES[style][v], f"{style} {v}: decoder arm for type value {dr[v][0]}, specification {TYPE_BYTES[style][v]}", ordinal=False)
            # the arm of a type byte builds that variant and no other: a name stays a name, a socket address stays a socket address
            others = set()
            for blk in d.rpo():
                if blk not in dr[v][1]:
                    continue
                for s_ in d.stmts(blk):
                    if s_["k"] == "assign" and s_["rv"]["k"] == "agg" and s_["rv"].get("ak") == "adt":
                        df, vr = s_["rv"].get("def", ""), s_["rv"].get("variant")
                        if tymatch(df, "address::Address"):
                            kind = "Domain" if vr == "Domain" else "socket"
                        elif df.endswith("SocketAddr") and vr in ("V4", "V6"):
                            kind = vr
                        else:
                            continue
                        if kind != v and not (kind == "socket" and v in ("V4", "V6")):
                            others.add(f"{last_seg(df)}::{vr}")
                t_ = d.term(blk)
                if t_ and t_["k"] == "call":
                    c_ = Callee(t_["f"])
                    rty = d.local_ty(t_["dest"][0])
                    if v == "Domain" and ("SocketAddr" in rty or "IpAddr" in rty) and "Result<" in rty or (v == "Domain" and c_.name in ("SocketAddr::new", "str::parse") and ("SocketAddr" in rty or "IpAddr" in rty)):
                        others.add(c_.name + " -> " + rty[:50])
            ctx.ob("E3", d.defp, f"{v}:arm-builds-its-own-variant", loc(d.sp), not others,
                   f"{style} {v}: the arm builds only the {v} form" if not others else
                   f"{style} {v}: the decoder's arm for the {v} type byte can also produce {sorted(others)}: the decoded address is not the one that was encoded "
                   "(the two sibling encodings no longer agree on the same name)", ordinal=False)
        # domain length byte and name bytes come from the same string, untransformed
        reg = er.get("Domain", (None, set()))[1]
        len_src = bytes_src = None
        for blk in e.rpo():
            if blk not in reg:
                continue
            t = e.term(blk)
            if t and t["k"] == "call":
                c = Callee(t["f"])
                if c.method == "put_u8":
                    p = op_place(t["args"][1])
                    if p:
                        locs, calls, _ = e.slice_back([p[0]])
                        if any(cc.method == "len" for (_, cc, _) in calls):
                            len_src = (sorted(cc.name for (_, cc, _) in calls if cc.method not in ("len", "deref", "as_bytes") and cc.name not in _VALUE_PRESERVING), {l for l in locs if e.locals[l].get("user") and _is_strish(e, l)})
                if c.method == "extend_from_slice":
                    p = op_place(t["args"][1])
                    if p:
                        locs, calls, _ = e.slice_back([p[0]])
                        if any(cc.method == "as_bytes" for (_, cc, _) in calls):
                            bytes_src = (sorted(cc.name for (_, cc, _) in calls if cc.method not in ("len", "deref", "as_bytes") and cc.name not in _VALUE_PRESERVING), {l for l in locs if e.locals[l].get("user") and _is_strish(e, l)})
        ok = len_src is not None and bytes_src is not None and len_src[0] == bytes_src[0] and bool(len_src[1] & bytes_src[1]) and not (len_src[1] ^ bytes_src[1]) - _aliases(e, len_src[1] | bytes_src[1])
        ctx.ob("E3", e.defp, "Domain:length-and-bytes-same-string", loc(e.sp), ok,
               f"{style}: the length byte and the name bytes derive from the same string" if ok else f"{style}: length byte derives via {len_src}, name bytes via {bytes_src}: they can disagree", ordinal=False)
        # E2 empty name
        host_empty_gate = False
        refused = False
        panics = False
        for (blk, c, t) in e.calls():
            if blk in reg and c.method in ("is_empty",):
                for g in gates_of_value(e, t["dest"][0]):
                    if g.kind == "bool":
                        host_empty_gate = True
                        tt = g.bool_target(True)
                        reach = e.reach_from(tt)
                        rv = returns_variant(e)
                        if any(rv.get(x) == "Err" for x in reach) and not any(Callee(e.term(x)["f"]).method and re.match(r"put_", Callee(e.term(x)["f"]).method) for x in reach if e.term(x) and e.term(x)["k"] == "call" and x not in e.reach_from(g.bool_target(False))):
                            refused = True
                        if any(e.term(x) and e.term(x)["k"] == "call" and "panicking" in Callee(e.term(x)["f"]).target for x in reach):
                            panics = True
        ok = host_empty_gate and refused and not panics
        msg = "the empty name is refused with an error before anything is written" if ok else (
            "the empty name makes the encoder panic (the flow's task crashes) instead of returning an error" if panics else
            "the encoder has no check for an empty host name (it cannot even report one: it returns ()): a zero-length name is sent")
        ctx.ob("E2", e.defp, "empty-name-refused", loc(e.sp), ok, msg, ordinal=False)
    # length helpers (SOCKS5 style)
    helpers = []
    sock_mod = None
    for (st, e_, d_) in pairs:
        if st == "socks5":
            sock_mod = re.sub(r"(::\{impl#\d+\})+$", "", e_.defp.rsplit("::", 1)[0])
    for b in bodies:
        if b.root != b.defp or b.kind not in ("Fn", "AssocFn") or sock_mod is None or not b.defp.startswith(sock_mod + "::"):
            continue
        rt = b.local_ty(0).replace("std::result::Result<", "").replace("std::option::Option<", "").replace(", anyhow::Error>", "").replace(">", "").strip()
        args = [b.local_ty(i) for i in range(1, b.argc + 1)]
        if rt == "usize" and (any("Address" in a for a in args) or (any("BytesMut" in a or "[u8]" in a for a in args) and "usize" in args)):
            helpers.append(b)
    ctx.floor("E3", "SOCKS5 address length helpers", 2, len(helpers))
    sock = [p for p in pairs if p[0] == "socks5"]
    if sock:
        _, e, d = sock[0]
        er = variant_paths_encoder(e)
        want = {v: total(seq_in(e, er[v][1])) for v in er}
        for h0 in helpers:
            h = prog.flat(h0.defp)
            regs = _helper_regions(h)
            for v, blocks in regs.items():
                got = ret_lin(h, blocks, prog)
                ctx.ob("E3", h.defp, f"{v}:length-equals-encoded-size", loc(h.sp), got is not None and got == want.get(v), f"{last_seg(h.defp)}({v}) = {got}; encoder writes {want.get(v)} (constant, name-length coefficient)", ordinal=False)
            ctx.ob("E3", h.defp, "all-variants", loc(h.sp), len(regs) == 3, f"arms found: {sorted(regs)}", ordinal=False)


def _aliases(e, locs):
    return set()


def _type_byte(e, blocks):
    for blk in e.rpo():
        if blk not in blocks:
            continue
        t = e.term(blk)
        if t and t["k"] == "call" and Callee(t["f"]).method == "put_u8":
            k = op_int(t["args"][1])
            if k is not None:
                return k
            p = op_place(t["args"][1])
            if p:
                _, calls, consts = e.slice_back([p[0]])
                if any(cc.method == "len" for (_, cc, _) in calls):
                    continue
                ints = [c.get("int") for (_, c) in consts if c.get("int")]
                if ints:
                    return max(ints)
                # `put_u8(address_type(addr) as u8)`: the type enum's variant chosen on this variant's path
                from .. import mir as _mir
                locs, _, _ = e.slice_back([p[0]])
                for b2 in e.rpo():
                    if b2 not in blocks:
                        continue
                    for s2 in e.stmts(b2):
                        if s2["k"] == "assign" and s2["p"][0] in locs and s2["rv"]["k"] == "agg" and s2["rv"].get("ak") == "adt" and not s2["rv"]["ops"]:
                            for it in (_mir.CURRENT.items if _mir.CURRENT else []):
                                if it["k"] == "enum" and it["path"] == s2["rv"].get("def"):
                                    for v_ in it["variants"]:
                                        if v_["name"] == s2["rv"].get("variant"):
                                            return v_["discr"]
    return None


def _helper_regions(h):
    """variant -> blocks of that arm in a length helper: arms are identified by the encoder-style downcasts, or by the type-switch values"""
    er = variant_regions_encoder(h)
    if len(er) >= 2:
        # V4/V6 arms do not bind the payload when it is unused (`SocketAddr::V4(_)`): fall back to switch structure
        out = {v: r for v, (_, r) in er.items()}
    else:
        out = {}
    for blk in h.rpo():
        t = h.term(blk)
        if not t or t["k"] != "switch":
            continue
        p = op_place(t["d"])
        if p is None:
            continue
        for d in h.defs().get(p[0], []):
            if d[0] == "assign" and d[3]["rv"]["k"] == "discr":
                pl = d[3]["rv"]["p"]
                vs = [e[1] for e in pl[1] if e[0] == "downcast"]
                if pl[0] == 1 and not vs:
                    # Address discriminant: 0 = Domain, 1 = Socket
                    for v, tgt in t["arms"]:
                        if v == 0 and "Domain" not in out:
                            out["Domain"] = {x for x in h.rpo() if h.dominates(tgt, x)}
                elif (pl[0] == 1 and vs == ["Socket"]) or (not vs and "SocketAddr" in h.local_ty(pl[0]) and "V4" not in h.local_ty(pl[0])):
                    for v, tgt in t["arms"] + [[None, t["otherwise"]]]:
                        name = {0: "V4", 1: "V6"}.get(v)
                        if name and name not in out:
                            out[name] = {x for x in h.rpo() if h.dominates(tgt, x)}
                elif not vs and len(t["arms"]) >= 3:
                    pass
        if len(t["arms"]) >= 3 and not out:
            # switch on a Socks5AddressType value (1/3/4)
            for v, tgt in t["arms"]:
                name = {1: "V4", 3: "Domain", 4: "V6"}.get(v)
                if name:
                    out[name] = {x for x in h.rpo() if h.dominates(tgt, x)}
    return out


# conversions that hand the same number on (or fail): they do not make the length describe another string
_VALUE_PRESERVING = ("TryFrom::try_from", "TryInto::try_into", "From::from", "Into::into", "Try::branch", "Result::unwrap", "Result::expect", "Option::unwrap", "Option::expect")


def _is_strish(b, l):
    ty = b.local_ty(l)
    return bool(re.search(r"\bstr\b|\bString\b", ty))
