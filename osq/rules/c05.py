"""C05 — tampered or reflected ciphertext is never delivered as plaintext (DESIGN.md 4/C05)."""
from ..mir import tymatch, Callee, last_seg, loc, op_const, op_place
from .common import SUCCESS_ARM, err_return_reachable_only, gates_of_value, returns_variant, success_edge_dominates
from . import c03, c10

EXPLANATION = (
    "T1 (taint typestate, per opening call and per release sink): an AEAD open primitive (aead::decrypt*, the repo's CipherMethod / Authenticator "
    "wrappers and workspace functions that wrap one) clears taint only on its success edge. (a) the result of every open is tested and its failure "
    "edge only reaches Err (or the result is returned to the caller unchanged); (b) every later use of the opened buffer is dominated by the success "
    "edge; (c) every release sink of a decoder of an encrypted protocol — bytes appended to the output buffer, payload returned in Ok(..) — takes "
    "data whose buffer was the argument of an open (or the result of an opening wrapper) whose success edge dominates the sink; (d) an integer used "
    "as a split length derives from a buffer that was opened first, except in the two VMess modes where the specification leaves the length "
    "unauthenticated (reviewed). T2 every repo-defined Stream that wraps a Decoder must latch after a decode error (a field written on the Err path and "
    "tested before the next decode), because the server relay discards Err items and keeps polling. T3 direction separation: the C10-V2 stream-type "
    "checks and the C03-S4 VMess session sibling rules are re-evaluated here.")
ASSUMPTIONS = ["AEAD unforgeability is assumed", "the prefix property under the VMess Plain/Shake length modes is argued (a flipped length yields Err at the payload open), not checked",
               "tokio-util Framed/FramedRead latch decode errors (has_errored), read in the cached source"]

PRIMS = {"decrypt_in_place", "decrypt_in_place_detached", "decrypt"}
PASS = {"Index::index", "IndexMut::index_mut", "Deref::deref", "DerefMut::deref_mut", "From::from", "Into::into", "Cursor::new", "Cursor::into_inner", "AsRef::as_ref",
        "AsMut::as_mut", "BytesMut::from", "Bytes::from", "Borrow::borrow", "BorrowMut::borrow_mut", "Buf::chunk", "[T]::split_at_mut", "[T]::split_at", "Option::unwrap", "Option::as_mut", "Option::as_ref"}


def is_prim(c):
    if c.method in PRIMS and (c.trait and last_seg(c.trait) in ("Aead", "AeadInPlace", "AeadMutInPlace")):
        return True
    if c.method in PRIMS and c.impl_self and (c.impl_self.get("d") or "").endswith("codec::aead::CipherMethod"):
        return True
    return False


def opener_fns(prog):
    """workspace functions that open their buffer argument in place and pass the primitive's Result on:
    the Authenticator::{open, decode_size} wrappers and thin delegations to them."""
    out = {}
    changed = True
    bodies = [b for b in prog.prod_bodies() if b.root == b.defp and "::_" not in b.defp]
    while changed:
        changed = False
        for b in bodies:
            if b.defp in out or "Result<" not in b.local_ty(0) or b.defp.startswith("octo_squirrel::codec::aead::"):
                continue
            if b.method not in ("open", "decode_size"):
                continue
            for (blk, c, t) in b.calls():
                if is_prim(c) or c.target in out:
                    out[b.defp] = True
                    changed = True
                    break
    return out


def roots(b, local):
    locs, calls, _ = b.slice_back([local], stop_call=lambda c: c.name not in PASS)
    out = set()
    for l in locs:
        if 1 <= l <= b.argc:
            out.add(l)
            continue
        for d in b.defs().get(l, []):
            if d[0] == "call" and Callee(d[2]["f"]).name not in PASS:
                out.add(l)
            elif d[0] == "assign" and d[3]["rv"]["k"] in ("repeat", "agg") and not (d[3]["rv"]["k"] == "agg" and d[3]["rv"]["ak"] in ("tuple",)):
                out.add(l)
    return out


def t4_nonce_sequence_is_one_per_key(ctx):
    """T4: reordering, duplicating or swapping sealed units is detected only because every unit of a direction is opened under the next value of
    ONE counter. Two cipher states under one derived subkey (C12 N6 re-evaluated) give two units the same (key, nonce): either can be presented
    in the other's place and still authenticates."""
    from . import c12
    from ..engine import Ctx
    sub = Ctx(ctx.prog, "C12", ctx.tier)
    bodies = [b for b in ctx.prog.prod_bodies() if "::_" not in b.defp]
    c12.n6_one_nonce_sequence_per_subkey(sub, ctx.prog, bodies)
    # a chunk of the other direction or of another connection fails to open only because its session subkey differs - which it does only if the
    # subkey binds the whole salt (C12 N5 re-evaluated): a derivation that drops the salt gives every stream under one key the same subkey
    c12.n5(sub, ctx.prog, bodies)
    n = 0
    for o in sub.obs:
        n += 1
        parts = o.key.split("|")
        ctx.ob("T4", parts[1], parts[2], o.where, o.ok, o.detail)
    for (r, w, e, f) in sub.floors:
        ctx.floor("T4", w, e, f)
    # ... and the counter itself must keep producing *different* values for neighbouring units: a counter that sticks (saturates) gives every later
    # unit the same nonce, after which units can be swapped, repeated or dropped and still authenticate (C03 S3 `chunk-counter-wraps` re-evaluated)
    from . import c03
    sub3 = Ctx(ctx.prog, "C03", ctx.tier)
    c03.run(sub3)
    n3 = 0
    for o in sub3.obs:
        if o.rule == "S3" and "chunk-counter" in o.key:
            n3 += 1
            parts = o.key.split("|")
            ctx.ob("T4", parts[1], parts[2], o.where, o.ok, o.detail)
    ctx.floor("T4", "chunk counters inspected (C03 S3)", 1, n3)


def run(ctx):
    t4_nonce_sequence_is_one_per_key(ctx)
    t1f_no_step_without_open(ctx)
    prog = ctx.prog
    wrappers = opener_fns(prog)
    bodies = [b for b in prog.prod_bodies() if "::_" not in b.defp and not b.defp.startswith("octo_squirrel::codec::aead::")]

    def is_open(c):
        return is_prim(c) or c.target in wrappers

    n_open = 0
    for b in bodies:
        opens = [(blk, c, t) for (blk, c, t) in b.calls() if is_open(c)]
        if not opens or b.defp in wrappers and False:
            continue
        for (blk, c, t) in opens:
            n_open += 1
            dest = t["dest"][0]
            # (a) tested, or passed on to the caller
            carriers = _carriers(b, dest)
            propagated = 0 in carriers
            gs = [g for g in gates_of_value(b, dest) if g.kind in SUCCESS_ARM and g.level == 0]
            if propagated and not gs:
                ctx.ob("T1a", b.defp, f"open-result-propagated:{c.name}", loc(t["sp"]), True, "the open's Result is returned to the caller", nontrivial=False)
            else:
                tested = bool(gs)
                fail_ok = tested and all(err_return_reachable_only(b, g.target_for(1 if g.kind in ("try", "result") else 0)) for g in gs)
                ctx.ob("T1a", b.defp, f"open-failure-rejects:{c.name}", loc(t["sp"]), tested and fail_ok,
                       "authentication failure only reaches an Err return" if tested and fail_ok else
                       ("the result of the open is never tested: an authentication failure is ignored" if not tested else "after an authentication failure a non-Err return is reachable (error swallowed / retried)"))
            # (b) in-place opens: later uses of the opened buffer behind the success edge
            if c.method == "decrypt" or propagated and not gs:
                continue
            opened = set()
            for a in t["args"]:
                p = op_place(a)
                if p is not None and _is_buf(b, p[0]) and "mut" in b.local_ty(p[0]):
                    opened |= {l for l in roots(b, p[0]) if _is_buf(b, l)}
            after = b.reach_from(t["t"]) if t["t"] is not None else set()
            for (ub, uc, ut) in b.calls():
                if ub not in after or ub == blk:
                    continue
                if uc.name in PASS or uc.method in ("len", "is_empty", "remaining", "has_remaining", "reserve", "position", "drop"):
                    continue
                touches = False
                for a in ut["args"]:
                    p = op_place(a)
                    if p is not None and _is_buf(b, p[0]) and (roots(b, p[0]) & opened):
                        touches = True
                if not touches:
                    continue
                # only uses in the same iteration: the success edge must dominate, unless the use is not reachable without re-entering the open
                ok, why = success_edge_dominates(b, blk, ub, need_levels=[0])
                if not ok and ub not in b.reach_from(t["t"], avoid=frozenset([blk])):
                    ok = True
                if not ok:
                    # several alternative opens (one per cipher arm) may jointly guard a use after the arms re-join
                    ok = _guarded_by_any(b, [x for x in opens if x[1].method != "decrypt"], ub)
                ctx.ob("T1b", b.defp, f"use-after-open-behind-success:{uc.name}", loc(ut["sp"]), ok,
                       f"{uc.name} on the opened buffer is dominated by the open's success edge" if ok else f"{uc.name} uses the buffer of a failed/untested open: unauthenticated bytes can be used")
    ctx.floor("T1a", "AEAD open call sites (primitives and in-place wrappers)", 14, n_open)

    # (c) release sinks in the functions that open
    n_sink = 0
    for b in bodies:
        if b.defp in wrappers:
            continue
        opens = [(blk, c, t) for (blk, c, t) in b.calls() if is_open(c)]
        if not opens:
            continue
        sinks = []
        for (blk, c, t) in b.calls():
            if c.method == "extend_from_slice" and "BytesMut" in c.self_s and len(t["args"]) == 2:
                dstp = op_place(t["args"][0])
                if dstp is not None and _is_output(b, dstp[0]):
                    sinks.append((blk, op_place(t["args"][1])[0] if op_place(t["args"][1]) else None, t["sp"], "append-to-output"))
        for blk in b.rpo():
            for s_ in b.stmts(blk):
                if s_["k"] == "assign" and s_["p"][0] == 0 and s_["rv"]["k"] == "agg" and s_["rv"].get("variant") == "Ok":
                    p = op_place(s_["rv"]["ops"][0]) if s_["rv"]["ops"] else None
                    for l in (_payload_locals(b, p[0]) if p is not None else []):
                        sinks.append((blk, l, s_["sp"], "return-payload"))
        for (sb, l, sp, what) in sinks:
            if l is None:
                continue
            if what == "return-payload" and _is_fresh_output(b, l):
                continue  # a fresh output buffer that is filled only through the (checked) append sinks
            n_sink += 1
            data_roots = {r for r in roots(b, l) if _is_buf(b, r)} | {l}
            ok = False
            for (ob, oc, ot) in opens:
                opened = set()
                if oc.method == "decrypt":
                    opened |= {x for x in _carriers_payload(b, ot["dest"][0])}
                else:
                    for a in ot["args"]:
                        pa = op_place(a)
                        if pa is not None and _is_buf(b, pa[0]):
                            opened |= {x for x in roots(b, pa[0]) if _is_buf(b, x)}
                if data_roots & opened:
                    d_ok, _ = success_edge_dominates(b, ob, sb, need_levels=[0])
                    if d_ok:
                        ok = True
            if not ok:
                rel = []
                for (ob, oc, ot) in opens:
                    opened = set()
                    for a in ot["args"]:
                        pa = op_place(a)
                        if pa is not None and _is_buf(b, pa[0]):
                            opened |= {x for x in roots(b, pa[0]) if _is_buf(b, x)}
                    if oc.method == "decrypt":
                        opened |= _carriers_payload(b, ot["dest"][0])
                    if data_roots & opened or any(b.local_name(x) and b.local_name(x) in {b.local_name(y) for y in data_roots} for x in opened):
                        rel.append((ob, oc, ot))
                ok = bool(rel) and _guarded_by_any(b, rel, sb)
            ctx.ob("T1c", b.defp, f"released-bytes-were-opened:{what}", loc(sp), ok,
                   "released bytes come from a buffer whose AEAD open succeeded on every path to this point" if ok else
                   "bytes are released without a dominating successful AEAD open over that buffer")
    ctx.floor("T1c", "release sinks in functions that open", 5, n_sink)

    # (e) decoder state is not advanced before the authentication it depends on
    n_e = 0
    for b in bodies:
        if b.defp in wrappers or b.root != b.defp:
            continue
        opens = [(blk, c, t) for (blk, c, t) in b.calls() if is_open(c) and c.method != "decrypt"]
        if not opens:
            continue
        headers = {h for h, _ in b.loops()}
        writes = []
        for blk in b.rpo():
            for s_ in b.stmts(blk):
                if s_["k"] in ("assign", "setdiscr") and s_["p"][0] == 1 and any(e[0] == "field" for e in s_["p"][1]) and any(e[0] == "deref" for e in s_["p"][1]):
                    if b.local_name(1) == "self":
                        writes.append((blk, s_))
        for (wb, ws) in writes:
            n_e += 1
            fld = [e[2] for e in ws["p"][1] if e[0] == "field"][0]
            behind = _guarded_by_any(b, opens, wb)
            before = [ob for (ob, oc, ot) in opens if ob in b.reach_from(wb, avoid=frozenset(headers - {wb}))]
            ok = behind or not before
            ctx.ob("T1e", b.defp, f"state-write-not-before-open:{fld}", loc(ws.get("sp") or b.sp), ok,
                   f"self.{fld} is written behind a successful open / not ahead of one in the same step" if ok else
                   f"self.{fld} is updated before the AEAD open of the same step: when that open fails the decoder has already moved on (a tampered chunk is skipped and, where the transport keeps polling, later chunks re-synchronise)")
    ctx.floor("T1e", "decoder state writes in functions that open", 4, n_e)

    # (d) unauthenticated lengths
    for b in bodies:
        if tymatch((b.impl_self_def or ""), "vmess::aead::AEADBodyCodec") and b.method == "decode_size" and b.root == b.defp:
            for (blk, c, t) in b.calls():
                if c.name in ("PlainSizeParser::decode_size", "ShakeSizeParser::decode_size"):
                    ctx.ob("T1d", b.defp, f"unauthenticated-length:{c.name}", loc(t["sp"]), False,
                           "chunk length is taken from the wire without authentication (VMess Plain / Shake length modes)")
    from .common import aead_roles
    _auth_types, _ = aead_roles(prog)
    for b in bodies:
        # role: the authenticator method that opens the sealed length block and reads the length out of it
        if (b.impl_self_def or "") in _auth_types and b.root == b.defp and any(is_open(c) for (_, c, _) in b.calls()) and any(c.name == "Buf::get_u16" for (_, c, _) in b.calls()):
            opens = [(blk, c, t) for (blk, c, t) in b.calls() if is_open(c)]
            reads = [(blk, c, t) for (blk, c, t) in b.calls() if c.name in ("Buf::get_u16",)]
            ok = bool(opens) and bool(reads) and all(success_edge_dominates(b, ob, rb, need_levels=[0])[0] for (ob, _, _) in opens for (rb, _, _) in reads)
            ctx.ob("T1d", b.defp, "length-read-after-open", loc(b.sp), ok, "the length field is read only after it was opened" if ok else "the length field is read without / before authentication")

    # ---------------- T2 latch after error -----------------------------------------------------------------
    from .common import edge_dom
    streams = [prog.flat(b.defp) for b in prog.methods_of_trait_impls("Stream", "poll_next")]
    streams = [b for b in streams if any(c.name == "Decoder::decode" for (_, c, _) in b.calls())]
    ctx.floor("T2", "repo-defined Streams wrapping a Decoder", 1, len(streams))
    for b in streams:
        decs_ = [(blk, c, t) for (blk, c, t) in b.calls() if c.name == "Decoder::decode"]
        for (blk, c, t) in decs_:
            gs = [g for g in gates_of_value(b, t["dest"][0]) if g.kind == "result"]
            latch_fields = set()
            latch_vals = {}
            for g in gs:
                err_t = g.target_for(1)
                reach = b.reach_from(err_t)
                for x in reach:
                    for s in b.stmts(x):
                        if s["k"] in ("assign", "setdiscr") and _writes_self_field(b, s["p"]):
                            fl = [e for e in s["p"][1] if e[0] == "field"]
                            if fl:
                                fname = fl[-1][2] or fl[-1][1]
                                latch_fields.add(fname)
                                rv_ = s.get("rv") or {}
                                if rv_.get("k") == "use" and op_const(rv_["op"]) is not None and "int" in op_const(rv_["op"]):
                                    latch_vals.setdefault(fname, set()).add(op_const(rv_["op"])["int"])
                                elif rv_.get("k") == "agg" and rv_.get("ak") == "adt" and rv_.get("vidx") is not None:
                                    latch_vals.setdefault(fname, set()).add(rv_["vidx"])
                                elif rv_.get("k") == "use" and op_place(rv_["op"]) is not None:
                                    for d2 in b.defs().get(op_place(rv_["op"])[0], []):
                                        if d2[0] == "assign" and d2[3]["rv"]["k"] == "agg" and d2[3]["rv"].get("ak") == "adt" and d2[3]["rv"].get("vidx") is not None:
                                            latch_vals.setdefault(fname, set()).add(d2[3]["rv"]["vidx"])
            latched = bool(latch_fields)
            ctx.ob("T2", b.defp, "latches-after-decode-error", loc(t["sp"]), latched,
                   "a decode error is latched in the adapter" if latched else
                   "after a decode error the adapter keeps feeding later messages to the same codec (no latch): the server relay drops Err items and continues, so data after a "
                   "deleted/tampered chunk can still be released once the nonce counters re-align")
            # the latch is consulted before *every* decode of a later activation: each decode call is dominated by a test of a latch field
            # (a bool flag or the discriminant of a state enum) and is not reachable from that test's "latched" edge. A latch that only
            # stops the transport poll still lets the rest of an already buffered message be decoded.
            guarded = False
            for sb in b.rpo():
                st = b.term(sb)
                if not st or st["k"] != "switch":
                    continue
                dp = op_place(st["d"])
                if dp is None:
                    continue
                tested = None
                for d in b.defs().get(dp[0], []):
                    if d[0] == "assign" and d[3]["rv"]["k"] in ("use", "discr"):
                        q = op_place(d[3]["rv"]["op"]) if d[3]["rv"]["k"] == "use" else d[3]["rv"]["p"]
                        if q:
                            fl = [e for e in q[1] if e[0] == "field"]
                            if fl and (fl[-1][2] or fl[-1][1]) in latch_fields and not any(e[0] == "downcast" for e in q[1]):
                                tested = fl[-1][2] or fl[-1][1]
                if tested is None or not b.dominates(sb, blk):
                    continue
                vals = latch_vals.get(tested) or {1}
                latched_targets = set()
                for v_ in vals:
                    tg = [t_ for (vv, t_) in st["arms"] if vv == v_]
                    latched_targets.add(tg[0] if tg else st["otherwise"])
                if not any(blk in b.reach_from(lt, avoid=frozenset([sb])) for lt in latched_targets):
                    guarded = True
            if latched:
                ctx.ob("T2", b.defp, "latch-tested-before-decode", loc(t["sp"]), guarded,
                       f"every decode lies behind the not-set edge of a test of the latch ({sorted(map(str, latch_fields))})" if guarded else
                       f"the error latch ({sorted(map(str, latch_fields))}) is not tested on every path to this decode: after a decode error the rest of an already buffered "
                       "message is offered to the codec again (the consumer drops Err items and keeps polling), so chunks behind a deleted one are released once the nonce counters re-align")
    # consumers that discard Err items
    for b in prog.prod_bodies():
        for (blk, c, t) in b.calls():
            if c.name == "StreamExt::filter_map":
                clos = [a.get("d") for a in c.args if a.get("d") and "closure" in a.get("d", "")]
                drops_err = any(prog.body(d) is not None and any(cc.name == "Result::ok" for (_, cc, _) in prog.body(d).calls()) for d in clos)
                if drops_err:
                    ctx.ob("T2", b.defp, "consumer-discards-errors", loc(t["sp"]), True, "consumer filters Err items away: relies on every inbound Stream latching after its first error (checked above)", nontrivial=False)

    # ---------------- T3 -----------------------------------------------------------------------------------
    from ..engine import Ctx
    sub = Ctx(prog, "C10", ctx.tier)
    c10.run(sub)
    for o in sub.obs:
        if o.rule in ("V2", "V4"):     # V4: a response is bound to this request (spliced / reflected responses of another session are refused)
            ctx.ob("T3", o.key.split("|")[1], "ss2022:" + o.key.split("|")[2], o.where, o.ok, o.detail)
    sub = Ctx(prog, "C03", ctx.tier)
    c03.run(sub)
    for o in sub.obs:
        if o.rule == "S4":
            ctx.ob("T3", o.key.split("|")[1], "vmess:" + o.key.split("|")[2], o.where, o.ok, o.detail, ordinal=False)


def _guarded_by_any(b, opens, site):
    """every path from the entry to `site` passes the success edge of one of the given opens"""
    succ_targets = set()
    for (ob, oc, ot) in opens:
        for g in gates_of_value(b, ot["dest"][0]):
            if g.kind in SUCCESS_ARM and g.level == 0:
                st = g.success_target()
                if st is not None and len([p for p in b.pred(st) if p in b.reachable_blocks()]) == 1:
                    succ_targets.add(st)
    if not succ_targets:
        return False
    return site not in b.reach_from(0, avoid=frozenset(succ_targets))


def _carriers(b, local):
    """locals (and the return place 0) that carry the value through plain moves and result pass-through calls"""
    from .common import PASS_THROUGH
    out = {local}
    changed = True
    while changed:
        changed = False
        for blk in b.rpo():
            for s_ in b.stmts(blk):
                if s_["k"] == "assign" and s_["rv"]["k"] == "use" and not s_["p"][1]:
                    p = op_place(s_["rv"]["op"])
                    if p and not p[1] and p[0] in out and s_["p"][0] not in out:
                        out.add(s_["p"][0])
                        changed = True
            t = b.term(blk)
            if t and t["k"] == "call":
                c = Callee(t["f"])
                if c.name in PASS_THROUGH and c.name != "Try::branch" and t["args"]:
                    p = op_place(t["args"][0])
                    if p and not p[1] and p[0] in out and t["dest"][0] not in out:
                        out.add(t["dest"][0])
                        changed = True
    return out


def _carriers_payload(b, local):
    """locals that hold the Ok payload of a Result-valued local (through `?` / map_err / try_into ...)"""
    fwd, _, _ = b.slice_fwd([local])
    return {l for l in fwd if _is_buf(b, l)}


def _payload_locals(b, l, depth=0):
    """buffer-typed locals inside the value returned in Ok(..): unwrap Some(..) and tuples; None has no payload"""
    if depth > 4:
        return []
    out = []
    for d in b.defs().get(l, []):
        if d[0] == "assign":
            rv = d[3]["rv"]
            if rv["k"] == "agg" and rv["ak"] == "adt" and rv.get("variant") == "Some":
                for o in rv["ops"]:
                    p = op_place(o)
                    if p:
                        out += _payload_locals(b, p[0], depth + 1) or ([p[0]] if _is_buf(b, p[0]) else [])
                return out
            if rv["k"] == "agg" and rv["ak"] == "adt" and rv.get("variant") == "None":
                return []
            if rv["k"] == "agg" and rv["ak"] == "tuple":
                for o in rv["ops"]:
                    p = op_place(o)
                    if p and _is_buf(b, p[0]):
                        out.append(p[0])
                return out
            if rv["k"] == "use":
                p = op_place(rv["op"])
                if p and not p[1]:
                    r = _payload_locals(b, p[0], depth + 1)
                    if r:
                        return r
    if _is_buf(b, l) and "Option<" not in b.local_ty(l):
        return [l]
    return out


def _is_fresh_output(b, l):
    """a local BytesMut created with new()/with_capacity() in this function (filled by appends)"""
    for r in roots(b, l) | {l}:
        for d in b.defs().get(r, []):
            if d[0] == "call" and Callee(d[2]["f"]).name in ("BytesMut::new", "BytesMut::with_capacity"):
                return True
    return False


def _is_buf(b, l):
    ty = b.local_ty(l)
    return any(k in ty for k in ("BytesMut", "[u8", "Vec<u8>", "Bytes", "dyn aead::Buffer", "dyn aes_gcm::aead::Buffer", "Cursor<"))


def _is_output(b, l):
    """the append target is an output buffer: a `dst` parameter or a fresh local that is later returned"""
    rs = roots(b, l)
    for r in rs:
        if 1 <= r <= b.argc and b.local_name(r) in ("dst", "out", "buf", "output"):
            return True
        if b.local_name(r) in ("dst", "packet", "out"):
            return True
    return False


def _built_from_appends(b, l):
    rs = roots(b, l)
    return any(b.local_name(r) in ("dst", "packet") for r in rs)


def _param_root_only(b, ut, opened):
    return False


def _writes_self_field(b, place):
    if not any(e[0] == "field" for e in place[1]):
        return False
    if place[0] == 1:
        return True
    # through a reborrow of self (`Pin<&mut Self>` -> deref_mut): `(*_n).field` where _n derives from self
    locs, _, _ = b.slice_back([place[0]])
    return 1 in locs and any(e[0] == "deref" for e in place[1])


def t1f_no_step_without_open(ctx):
    """T1f: a chunk's place in the sequence is consumed only by authenticating it. In the authenticators every step of the nonce generator
    feeds an AEAD primitive call in the same function; a function that advances the generator without opening anything ("skip this chunk")
    lets the receiver step over a chunk on the strength of unauthenticated bytes — a deleted chunk goes unnoticed and what follows is released."""
    from .common import aead_roles
    prog = ctx.prog
    auths, gens = aead_roles(prog)
    n = 0
    for b in prog.prod_bodies():
        if (b.impl_self_def or "") not in auths or b.root != b.defp:
            continue
        def _is_step(c):
            """a step of the generator takes the generator by `&mut self`; its constructors (whatever they are called) take no receiver"""
            cb = prog.body(c.target)
            if cb is None:
                return c.method not in ("new", "default", "init")
            return cb.argc >= 1 and cb.local_ty(1).lstrip().startswith("&mut")
        steps = [(blk, c, t) for (blk, c, t) in b.calls() if (c.self_def or "") in gens and _is_step(c)]
        prims = [(blk, c, t) for (blk, c, t) in b.calls() if is_prim(c)]
        for (blk, c, t) in steps:
            n += 1
            fwd, fcalls, _ = b.slice_fwd([t["dest"][0]])
            feeds = any((cc.method or "") in ("encrypt_in_place", "encrypt_in_place_detached", "decrypt_in_place", "decrypt_in_place_detached", "encrypt", "decrypt") for (_, cc, _, _) in fcalls)
            ctx.ob("T1", b.defp, "generator-step-feeds-an-aead-call", loc(t["sp"]), feeds,
                   "the generated nonce is handed to the AEAD primitive in the same function" if feeds else
                   f"`{last_seg(b.defp)}` advances the nonce generator without sealing or opening anything: the receiver can step over a chunk without authenticating it, so a chunk "
                   "that an attacker removed (or replaced by filler of the expected size) is skipped silently and the chunks behind it still authenticate and are released")
    ctx.floor("T1", "nonce-generator steps in authenticators", 5, n)
