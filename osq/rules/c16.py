"""C16 — configuration names select exactly the documented behaviour (DESIGN.md 4/C16)."""
import os
import re

from ..mir import tymatch, Callee, last_seg, loc, op_const, op_int, op_place
from .common import enum_fn_table, gates_of_value, success_edge_dominates

EXPLANATION = (
    "G1 the serde names accepted for cipher / protocol / mode (read from the enum attributes of the type-checked crate) are compared "
    "with the tables parsed from /repo/README.md; Display prints the primary name. G2 each cipher kind is mapped, in every constructor "
    "and size table, to the algorithm its documented name says, and every dispatch that instantiates the key-length const generic uses "
    "the algorithm's key size. G3 the enable_* predicates are extracted as variant sets, the start-up functions are evaluated for each "
    "of the five mode values (finite configuration space, predicates treated as pure) and the listeners reached must equal the README's. "
    "G4 every function turning the configured password into a Shadowsocks key selects EVP_BytesToKey vs base64 PSK by is_aead_2022(). "
    "G5 the length returned by the base64 decode is compared with the key size. G6 start-up code contains no panic on configuration values.")
ASSUMPTIONS = ["that started sockets accept traffic, and per-cipher interoperability, are run-time facts not decided here",
               "README.md is the documentation oracle; RustCrypto KeySize constants are as the type names say"]

ALGO_OF_NAME = [  # documented name fragment -> (algorithm family, key bytes)
    ("aes-128-gcm", ("Aes128Gcm", 16)),
    ("aes-256-gcm", ("Aes256Gcm", 32)),
    ("chacha8-poly1305", ("ChaCha8Poly1305", 32)),
    ("chacha20-poly1305", ("ChaCha20Poly1305", 32)),
]


def parse_readme(repo):
    txt = open(os.path.join(repo, "README.md"), encoding="utf-8").read()
    ciphers = {}
    m = re.search(r"### Ciphers(.*?)\n## ", txt, re.S)
    if m:
        for line in m.group(1).splitlines():
            cols = [c.strip() for c in line.strip().strip("|").split("|")]
            if len(cols) >= 3 and re.match(r"^[0-9a-z][0-9a-z\-]+$", cols[0]):
                ciphers[cols[0]] = {"shadowsocks": "`C`" in cols[1] and "`S`" in cols[1], "vmess": "`C`" in cols[2]}
    protos = re.findall(r'"([a-z]+)"', (re.search(r"> protocol:(.*)", txt) or [None, ""])[1])
    client_modes = re.findall(r'"([a-z_]+)"', (re.search(r"`client`: options are(.*)", txt) or [None, ""])[1])
    sm = re.search(r"`shadowsocks server`: options are(.*?)(?:priority|\n\s*\d\.)", txt, re.S)
    server_modes = re.findall(r'"([a-z_]+)"', sm.group(1)) if sm else []
    return {"ciphers": ciphers, "protocols": protos, "client_modes": client_modes, "server_modes": server_modes}


def serde_names(prog, item):
    """variant -> (primary, [aliases]) read from the code serde's derive generated for this enum:
    accepted names = string constants compared in the generated `visit_str`, each leading to `__Field::__fieldN`;
    primary name = the literal passed to `serialize_unit_variant` for variant N."""
    short = item["path"].split("::", 1)[1]  # path without crate
    accepted = {}  # index -> [names]
    for b in prog.bodies.values():
        if not b.defp.endswith("::visit_str") or "deserialize" not in b.defp:
            continue
        if f"for {short}>" not in b.local_ty(0) and f"for {short}>" not in b.local_ty(1):
            continue
        for (blk, c, t) in b.calls():
            if c.name != "PartialEq::eq" or len(t["args"]) < 2:
                continue
            cst = t["args"][1].get("const") or t["args"][0].get("const")
            if not cst or "str" not in cst:
                continue
            for g in gates_of_value(b, t["dest"][0]):
                if g.kind != "bool":
                    continue
                tgt = g.bool_target(True)
                idx = _field_index(b, tgt)
                if idx is not None:
                    accepted.setdefault(idx, []).append(cst["str"])
    primary = {}
    for b in prog.bodies.values():
        if not b.defp.endswith("::serialize") or b.impl_self_def != item["path"]:
            continue
        for (blk, c, t) in b.calls():
            if c.method == "serialize_unit_variant" and len(t["args"]) >= 4:
                idx = op_int(t["args"][2])
                cst = t["args"][3].get("const")
                if idx is not None and cst and "str" in cst:
                    primary[idx] = cst["str"]
    out = {}
    for i, v in enumerate(item["variants"]):
        acc = accepted.get(i, [])
        prim = primary.get(i)
        if prim is None and acc:
            prim = acc[-1]
        out[v["name"]] = (prim, [a for a in acc if a != prim], acc)
    return out


def serde_rejects_unknown(prog, item):
    """(found, rejects): does the generated `visit_str` of this enum answer an unlisted name with `Error::unknown_variant`?
    (`#[serde(other)]` replaces that call by a catch-all variant)"""
    short = item["path"].split("::", 1)[1]
    found = False
    for b in prog.bodies.values():
        if not b.defp.endswith("::visit_str") or "deserialize" not in b.defp:
            continue
        if f"for {short}>" not in b.local_ty(0) and f"for {short}>" not in b.local_ty(1):
            continue
        found = True
        if any((c.method or last_seg(c.name)) == "unknown_variant" for (_, c, _) in b.calls()):
            return True, True
    return found, False


def _field_index(b, blk):
    seen = set()
    work = [blk]
    while work and len(seen) < 6:
        x = work.pop(0)
        if x in seen:
            continue
        seen.add(x)
        for s_ in b.stmts(x):
            if s_["k"] == "assign" and s_["rv"]["k"] == "agg" and s_["rv"].get("variant", "").startswith("__field"):
                return int(s_["rv"]["variant"][len("__field"):])
        if len(b.succ(x)) == 1:
            work += b.succ(x)
    return None


def display_table(prog, enum_path):
    """variant index -> literal printed by `impl Display`"""
    out = {}
    for b in prog.prod_bodies():
        if b.impl_trait and last_seg(b.impl_trait) == "Display" and b.impl_self_def == enum_path and b.method == "fmt":
            for blk in b.rpo():
                t = b.term(blk)
                if t and t["k"] == "switch":
                    for v, tgt in t["arms"]:
                        s = _first_str_const(b, tgt)
                        if s is not None:
                            out[v] = s
                    break
    return out


def _first_str_const(b, blk, depth=0):
    seen = set()
    work = [blk]
    while work and len(seen) < 12:
        x = work.pop(0)
        if x in seen:
            continue
        seen.add(x)
        for s in b.stmts(x):
            if s["k"] == "assign":
                for op in b.operands_of_rvalue(s["rv"]):
                    c = op.get("const") if isinstance(op, dict) else None
                    if c and "str" in c:
                        return c["str"]
        t = b.term(x)
        if t and t["k"] == "call":
            for a in t["args"]:
                c = a.get("const")
                if c and "str" in c:
                    return c["str"]
        work += b.succ(x)
    return None


def algo_of_documented_name(name):
    for frag, v in ALGO_OF_NAME:
        if frag in name:
            return v
    return None


def arm_blocks(body, switch_block):
    """discriminant value -> set of blocks executed only for that arm group (until the arms re-join)"""
    t = body.term(switch_block)
    targets = {}
    for v, tgt in t["arms"]:
        targets.setdefault(tgt, []).append(v)
    res = {}
    for tgt, vals in targets.items():
        others = [o for o in targets if o != tgt] + ([t["otherwise"]] if t["otherwise"] != tgt else [])
        mine = body.reach_from(tgt)
        theirs = set()
        for o in others:
            theirs |= body.reach_from(o)
        res[tuple(vals)] = (tgt, mine - theirs)
    return res


def const_generics_in(callee):
    out = set()
    for a in callee.args:
        if "c" in a and a["c"].isdigit():
            out.add(int(a["c"]))
        s = a.get("s", "")
        for m in re.finditer(r"[<, ](\d+)(?:_usize|usize)?>", s):
            out.add(int(m.group(1)))
    if callee.impl_self is not None:
        for m in re.finditer(r"[<, ](\d+)(?:_usize|usize)?>", callee.impl_self.get("s", "")):
            out.add(int(m.group(1)))
    return out


def simulate(prog, body, oracle, interesting, depth=0, visited_fns=None):
    """Abstractly execute `body` with calls to predicate functions answered by `oracle(callee)->bool|None`;
    every other branch is explored both ways. Returns the set of `interesting(callee)` labels reachable."""
    found = set()
    visited_fns = visited_fns or set()
    known = {}  # local -> bool
    seen = set()
    work = [0]
    # flow-insensitive constant map for predicate results (each call assigns a fresh temp)
    for (blk, c, t) in body.calls():
        v = oracle(c)
        if v is not None:
            known[t["dest"][0]] = v
    # propagate through Not / copies
    changed = True
    while changed:
        changed = False
        for blk in body.rpo():
            for s in body.stmts(blk):
                if s["k"] == "assign" and not s["p"][1]:
                    rv = s["rv"]
                    if rv["k"] == "un" and rv["op"] == "Not":
                        p = op_place(rv["a"])
                        if p and not p[1] and p[0] in known and s["p"][0] not in known:
                            known[s["p"][0]] = not known[p[0]]
                            changed = True
                    elif rv["k"] == "use":
                        p = op_place(rv["op"])
                        if p and not p[1] and p[0] in known and s["p"][0] not in known and len(body.defs().get(s["p"][0], [])) == 1:
                            known[s["p"][0]] = known[p[0]]
                            changed = True
    while work:
        b = work.pop()
        if b in seen:
            continue
        seen.add(b)
        t = body.term(b)
        if not t:
            continue
        if t["k"] == "call":
            c = Callee(t["f"])
            lab = interesting(body, b, c, t)
            if lab:
                found.add(lab)
            callee = prog.body(c.target)
            if callee is not None and depth < 4 and c.target not in visited_fns and lab is None:
                for fam in prog.family(callee.defp):
                    found |= simulate(prog, fam, oracle, interesting, depth + 1, visited_fns | {c.target})
            # a coroutine / closure constructed here and passed on: descend into nested bodies of this family lazily (handled by caller)
        if t["k"] == "switch":
            p = op_place(t["d"])
            if p and not p[1] and p[0] in known:
                val = 1 if known[p[0]] else 0
                tgt = None
                for v, tg in t["arms"]:
                    if v == val:
                        tgt = tg
                work.append(tgt if tgt is not None else t["otherwise"])
                continue
        work += body.succ(b)
    return found


def run(ctx):
    prog = ctx.prog
    repo = os.environ.get("OSQ_REPO", "/repo")
    readme = parse_readme(repo)
    ctx.floor("G1", "README cipher rows", 7, len(readme["ciphers"]))
    ctx.floor("G1", "README protocols", 3, len(readme["protocols"]))
    ctx.floor("G1", "README server modes", 5, len(readme["server_modes"]))
    ctx.floor("G1", "README client modes", 3, len(readme["client_modes"]))

    # ---------------- G1 -----------------------------------------------------------------------
    enums = {}
    for nm, suffix in (("cipher", "codec::aead::CipherKind"), ("protocol", "protocol::Protocol"), ("mode", "config::Mode")):
        its = [it for it in prog.item("enum", suffix) if it["path"].startswith("octo_squirrel::")]
        if not its:
            # moved to another module: the enum of that name whose serde names are the documented ones
            docs_ = {"cipher": list(readme["ciphers"].keys()), "protocol": readme["protocols"],
                     "mode": sorted(set(readme["server_modes"]) | set(readme["client_modes"]))}[nm]
            for it in prog.items:
                if it["k"] == "enum" and last_seg(it["path"]) == last_seg(suffix) and it["path"].startswith("octo_squirrel::"):
                    try:
                        sn_ = serde_names(prog, it)
                    except Exception:
                        continue
                    if any(v and v[0] in docs_ for v in sn_.values()):
                        its.append(it)
        if not its:
            ctx.anchor_lost("G1", f"{nm} enum ({suffix})")
            continue
        enums[nm] = its[0]
    documented = {"cipher": list(readme["ciphers"].keys()), "protocol": readme["protocols"],
                  "mode": sorted(set(readme["server_modes"]) | set(readme["client_modes"]))}
    names = {}
    for nm, it in enums.items():
        sn = serde_names(prog, it)
        ctx.floor("G1", f"serde tables of {nm}", len(it["variants"]), len([v for v in sn.values() if v[0]]))
        names[nm] = sn
        where = loc(it["sp"])
        primaries = {}
        for var, (prim, aliases, acc) in sn.items():
            is_default_unknown = var == "Unknown"
            if is_default_unknown:
                ok = not (set(acc) & set(documented[nm]))
                ctx.ob("G1", it["path"], f"{nm}:Unknown-has-no-documented-name", where, ok, f"Unknown is spelled {acc}", ordinal=False)
                continue
            ok = prim in acc
            ctx.ob("G1", it["path"], f"{nm}:{var}:primary-name-accepted", where, ok, f"variant {var} serialises as {prim!r} and deserialises from {acc}", ordinal=False)
            primaries.setdefault(prim, []).append(var)
            ok = prim in documented[nm]
            ctx.ob("G1", it["path"], f"{nm}:{var}:primary-name-documented", where, ok, f"variant {var} is accepted as {prim!r}; README lists {documented[nm]}", ordinal=False)
            for a in aliases:
                ok = sum(1 for (_, _, ac) in sn.values() if a in ac) == 1 and all(a != p for p, _, _ in sn.values())
                ctx.ob("G1", it["path"], f"{nm}:{var}:alias:{a}", where, ok, f"alias {a!r} only names {var}", ordinal=False)
        fnd, rej = serde_rejects_unknown(prog, it)
        if not fnd:
            ctx.anchor_lost("G1", f"generated visit_str of {nm}")
        else:
            ctx.ob("G1", it["path"], f"{nm}:unlisted-name-is-an-error", where, rej,
                   "the generated visit_str answers an unlisted name with Error::unknown_variant" if rej else
                   "an unlisted name is not an error: the deserialiser has a catch-all (#[serde(other)]), so a misspelt or undocumented name "
                   "silently selects a fallback instead of stopping start-up", ordinal=False)
        for d in documented[nm]:
            vs = primaries.get(d, [])
            ctx.ob("G1", it["path"], f"{nm}:documented:{d}", where, len(vs) == 1, f"documented name {d!r} is the primary name of {vs or 'no variant'}", ordinal=False)
        # Display
        dt = display_table(prog, it["path"])
        ctx.floor("G1", f"Display arms of {nm}", len([v for v in sn if v != "Unknown"]), len(dt))
        for v in it["variants"]:
            if v["name"] == "Unknown" or v["discr"] not in dt:
                continue
            ok = dt[v["discr"]] == sn[v["name"]][0]
            ctx.ob("G1", it["path"], f"{nm}:{v['name']}:display", where, ok, f"Display prints {dt[v['discr']]!r}, serde name {sn[v['name']][0]!r}", ordinal=False)

    # ---------------- G2 -----------------------------------------------------------------------
    if "cipher" in enums:
        kind_item = enums["cipher"]
        kinds = {v["discr"]: v["name"] for v in kind_item["variants"]}
        kind_algo = {}
        for v in kind_item["variants"]:
            if v["name"] == "Unknown":
                continue
            kind_algo[v["discr"]] = algo_of_documented_name(names["cipher"][v["name"]][0])
        method_items = [it for it in prog.item("enum", "codec::aead::CipherMethod")]
        # (a) constructors: functions that switch on a CipherKind and build CipherMethod variants
        ctor_fns = []
        for b in prog.prod_bodies():
            if b.root != b.defp:
                continue
            builds = any(s["k"] == "assign" and s["rv"]["k"] == "agg" and tymatch(s["rv"].get("def", ""), "codec::aead::CipherMethod") for blk in b.rpo() for s in b.stmts(blk))
            if builds:
                ctor_fns.append(b)
        ctx.floor("G2a", "functions constructing CipherMethod from a kind", 2, len(ctor_fns))
        for b in ctor_fns:
            sw = _kind_switch(b)
            if sw is None:
                ctx.ob("G2a", b.defp, "kind-switch", loc(b.sp), False, "constructs a cipher without switching on the cipher kind")
                continue
            for vals, (tgt, blocks) in arm_blocks(b, sw).items():
                built = set()
                for blk in blocks:
                    for s in b.stmts(blk):
                        if s["k"] == "assign" and s["rv"]["k"] == "agg" and tymatch(s["rv"].get("def", ""), "codec::aead::CipherMethod"):
                            built.add(s["rv"]["variant"])
                    t = b.term(blk)
                    if t and t["k"] == "call":
                        c = Callee(t["f"])
                        # delegation to the generic constructor with the same kind is fine
                for v in vals:
                    if v not in kind_algo or not built:
                        continue
                    exp = kind_algo[v][0]
                    ok = all(x == exp or x == "X" + exp for x in built)
                    ctx.ob("G2a", b.defp, f"{kinds[v]}->algorithm", loc(b.term(sw)["sp"]), ok, f"kind {kinds[v]} ({names['cipher'][kinds[v]][0]}) builds {sorted(built)}, documented algorithm {exp}", ordinal=False)
        # CipherMethod variant payload types really are the named algorithms
        for it in method_items:
            for v in it["variants"]:
                ty = v["fields"][0][1] if v["fields"] else ""
                nm = v["name"]
                ok = True
                if "Aes128" in nm:
                    ok = "aes::Aes128" in ty
                elif "Aes256" in nm:
                    ok = "aes::Aes256" in ty
                elif "ChaCha" in nm:
                    rounds = "U4" if "ChaCha8" in nm else "U10"
                    ok = ("xchacha" in ty) == nm.startswith("X") and _chacha_rounds(ty) == (4 if "ChaCha8" in nm else 10)
                ctx.ob("G2a", it["path"], f"{nm}:payload-type", loc(it["sp"]), ok, f"CipherMethod::{nm} wraps {ty[:80]}...", ordinal=False)
        # (c) size tables on CipherKind (tag_size, ciphertext_overhead) and CipherMethod
        for b in prog.prod_bodies():
            if b.impl_self_def and tymatch(b.impl_self_def, "codec::aead::CipherKind") and b.method in ("tag_size",) and b.root == b.defp:
                sw = _kind_switch(b)
                if sw is None:
                    continue
                tab = enum_fn_table(b, sw)
                for v, k in tab.items():
                    if v in kind_algo and k is not None:
                        exp = 16 if b.method == "tag_size" else 16
                        ctx.ob("G2c", b.defp, f"{kinds[v]}:{b.method}", loc(b.sp), k == exp, f"{b.method}({kinds[v]}) = {k}, expected {exp}", ordinal=False)
        # (b) key-length dispatch
        disp = []
        for b in prog.prod_bodies():
            sw = _kind_switch(b)
            if sw is None:
                continue
            arms = arm_blocks(b, sw)
            rows = []
            for vals, (tgt, blocks) in arms.items():
                ns = set()
                for blk in blocks:
                    t = b.term(blk)
                    if t and t["k"] == "call":
                        ns |= {n for n in const_generics_in(Callee(t["f"])) if n in (16, 24, 32, 64)}
                    for s in b.stmts(blk):
                        if s["k"] == "assign" and s["rv"]["k"] == "agg" and s["rv"]["ak"] in ("closure", "coroutine"):
                            pass
                if ns:
                    rows.append((vals, ns))
            if rows and ("client" in b.defp or "server" in b.defp):
                disp.append((b, sw, rows))
        # a dispatch that goes through a table on the kind (`kind.key_size()`, `kind.key_length() -> Option<KeyLength>`) has no switch on the
        # kind in the start-up function itself: evaluate it per kind (constants and enum values are followed through the spliced table)
        n_sim = 0
        for b in prog.prod_bodies():
            if not (b.defp.endswith("server::shadowsocks::startup::{closure#0}") or b.defp.endswith("client::transfer_tcp::{closure#0}") or b.defp.endswith("client::transfer_udp::{closure#0}")):
                continue
            if any(bb is b for (bb, _, _) in disp):
                continue
            n_sim += 1
            for v in sorted(kind_algo):
                ns, _ = kind_outcomes(prog, b, v, lambda fb_, blk_: False)
                exp = kind_algo[v][1]
                ctx.ob("G2b", b.defp, f"{kinds[v]}->N", loc(b.sp), ns == {exp}, f"kind {kinds[v]} reaches instantiations with key length {sorted(ns)} (evaluated through the kind table), algorithm key size {exp}", ordinal=False)
        ctx.floor("G2b", "key-length dispatches on the cipher kind", 3, len(disp) + n_sim)
        for (b, sw, rows) in disp:
            for vals, ns in rows:
                for v in vals:
                    if v not in kind_algo:
                        continue
                    exp = kind_algo[v][1]
                    ctx.ob("G2b", b.defp, f"{kinds[v]}->N", loc(b.term(sw)["sp"]), ns == {exp}, f"kind {kinds[v]} instantiates key length {sorted(ns)}, algorithm key size {exp}", ordinal=False)

    # ---------------- G3 -----------------------------------------------------------------------
    mode_item = enums.get("mode")
    if mode_item:
        mvars = {v["discr"]: v["name"] for v in mode_item["variants"]}
        mname = {v["name"]: names["mode"][v["name"]][0] for v in mode_item["variants"]}
        # the mode predicates, by role: every bool-returning method of the mode enum that is a table over its variants (whatever its name)
        preds = {}
        for b in prog.prod_bodies():
            if b.impl_self_def == mode_item["path"] and b.root == b.defp and b.local_ty(0) == "bool" and b.argc == 1:
                sw = _self_switch(b)
                if sw is None:
                    continue
                tab = enum_fn_table(b, sw, nvariants=len(mvars))
                preds[b.defp] = ({mname[mvars[v]] for v, k in tab.items() if k == 1}, b)
        ctx.floor("G3", "mode predicates", 3, len(preds))
        want = {"tcp": {"tcp", "tcp_and_udp", "tcp_and_quic"}, "udp": {"udp", "tcp_and_udp"}, "quic": {"quic", "tcp_and_quic"}}
        for p, (got, b) in sorted(preds.items()):
            which = [k for k, v in want.items() if v == got]
            ctx.ob("G3", b.defp, "predicate-table", loc(b.sp), bool(which),
                   f"true for {sorted(got)}: the README's {which[0]} listener set" if which else
                   f"true for {sorted(got)}: not one of the README's listener sets {[sorted(v) for v in want.values()]}", ordinal=False)

        # listeners reached per mode value (finite-configuration evaluation)
        def labeller(body, blk, c, t):
            if c.name == "TcpListener::bind":
                return "tcp"
            if c.name == "UdpSocket::bind":
                # per-flow sockets bound to an ephemeral port (SocketAddrV4::new(_, 0)) are not listeners
                p = op_place(t["args"][0]) if t["args"] else None
                if p is not None:
                    _, calls, _ = body.slice_back([p[0]])
                    for (_, cc, tt) in calls:
                        if cc.name == "SocketAddrV4::new" and len(tt["args"]) == 2 and op_int(tt["args"][1]) == 0:
                            return None
                return "udp"
            if c.name == "Endpoint::server" or c.target.endswith("::startup_quic"):
                return "quic"
            return None

        def mk_oracle(modeval):
            def oracle(c):
                if c.target in preds:
                    return modeval in preds[c.target][0]
                return None
            return oracle

        roles = {
            "server-shadowsocks": ([b for b in prog.prod_bodies() if b.defp.endswith("server::shadowsocks::startup") and "octo_squirrel_server" in b.defp],
                                   {"tcp": {"tcp"}, "udp": {"udp"}, "tcp_and_udp": {"tcp", "udp"}, "quic": {"quic"}, "tcp_and_quic": {"tcp", "quic"}}),
            "client-main": ([b for b in prog.prod_bodies() if b.defp.endswith("client::main") and "octo_squirrel_client" in b.defp],
                            {"tcp": {"tcp"}, "udp": {"udp"}, "tcp_and_udp": {"tcp", "udp"}}),
        }
        for role, (roots, table) in roles.items():
            ctx.floor("G3", f"start-up function: {role}", 1, len(roots))
            for root in roots:
                for modeval, expect in table.items():
                    got = set()
                    for fam in prog.family(root.defp):
                        got |= simulate(prog, fam, mk_oracle(modeval), labeller)
                    if role == "client-main":
                        got -= {"quic"}
                    ctx.ob("G3", root.defp, f"mode={modeval}:listeners", loc(root.sp), got == expect,
                           f"mode {modeval!r} starts listeners {sorted(got)}; documented {sorted(expect)}", ordinal=False)

    # ---------------- G4 / G5 ------------------------------------------------------------------
    key_fns = []
    for b in prog.prod_bodies():
        names_ = [(blk, c, t) for (blk, c, t) in b.calls() if c.target.endswith("aead_2022::password_to_keys") or c.target.endswith("aead::openssl_bytes_to_key")]
        if names_:
            key_fns.append((b, names_))
    ctx.floor("G4", "functions deriving a Shadowsocks key from the configured password", 1, len(key_fns))     # one shared helper is enough
    ctx.floor("G4", "key-derivation call sites (PSK parser / EVP_BytesToKey)", 2, sum(len(v) for (_, v) in key_fns))
    for (b, sites) in key_fns:
        gate_calls = [(blk, c, t) for (blk, c, t) in b.calls() if c.method == "is_aead_2022"]
        for (blk, c, t) in sites:
            is_psk = c.target.endswith("password_to_keys")
            ok = False
            for (gb, gc, gt) in gate_calls:
                for g in gates_of_value(b, gt["dest"][0]):
                    if g.kind != "bool":
                        continue
                    tgt = g.bool_target(is_psk)
                    if b.edge_dominates(g.block, tgt, blk):
                        ok = True
            ctx.ob("G4", b.defp, ("base64-psk" if is_psk else "evp-bytes-to-key") + "-selected-by-is_aead_2022", loc(t["sp"]), ok,
                   ("PSK parser" if is_psk else "EVP_BytesToKey") + (" is selected by is_aead_2022()" if ok else
                   " is called without testing is_aead_2022(): a legacy cipher's ordinary password is parsed as a base64 PSK on this path (or vice versa)"))
    # G7 the identity-key chain keeps the order of the configured password ("iPSK0:iPSK1:..:uPSK"): the PSK parser walks the segments front
    # to back; a reversed walk (rsplit / rev) yields the same keys for one or two segments and a wrong header chain for three or more
    def _returns_key_chain(ty):
        if "Vec<[u8;" in ty:
            return True
        for it_ in prog.items:       # a named struct instead of a tuple
            if it_["k"] == "struct" and re.search(r"\b" + re.escape(last_seg(it_["path"])) + r"\b", ty) and any("Vec<[u8;" in ft_ for (_, ft_) in it_["fields"]):
                return True
        return False
    psk_parsers = [b for b in prog.prod_bodies() if b.root == b.defp and b.argc == 1 and b.local_ty(1) == "&str" and _returns_key_chain(b.local_ty(0))]
    ctx.floor("G7", "PSK parsers returning the identity-key chain", 1, len(psk_parsers))
    for b in psk_parsers:
        rev = []
        for fb in prog.family(b.defp):
            for (blk, c, t) in prog.flat(fb.defp).calls():
                if c.method in ("rsplit", "rsplitn", "rsplit_terminator", "rev", "rsplit_once") and ("str" in c.target or "Iterator" in (c.trait or "") or "iter" in c.target):
                    rev.append(c.name)
        ctx.ob("G7", b.defp, "identity-keys-in-configured-order", loc(b.sp), not rev,
               "the password's key segments are walked front to back" if not rev else
               f"the password's key segments are walked backwards ({sorted(set(rev))}): with three or more keys the identity headers are emitted in the wrong chain order", ordinal=False)
    dec_sites = prog.callers_of(lambda c: c.name == "Encoding::decode" and "base64" in c.target)
    vec_sites = prog.callers_of(lambda c: c.name == "Encoding::decode_vec" and "base64" in c.target)
    ctx.floor("G5", "base64 key decodes", 2, len(dec_sites) + len([x for x in vec_sites if "[u8;" in " ".join(l["ty"].get("s", "") for l in x[0].locals)]))
    for (b, blk, c, t) in vec_sites:
        # a key decoded into a Vec and then turned into a fixed-size key: the WHOLE decoded length has to be the key size
        carriers, calls, switches = b.slice_fwd([t["dest"][0]])
        to_key = [cc for (_, cc, _, _) in calls if cc.name in ("TryInto::try_into", "TryFrom::try_from") or cc.method in ("copy_from_slice", "clone_from_slice")]
        if not to_key:
            continue
        used_len = any(cc.method == "len" for (_, cc, _, _) in calls)
        prefix = [cc.name for (_, cc, _, _) in calls if (cc.method in ("get", "index", "get_mut", "split_at", "first_chunk", "split_first_chunk", "truncate", "take")
                                                         and ("RangeTo" in str(cc.f) or "Range<" in str(cc.f) or cc.method in ("split_at", "first_chunk", "split_first_chunk", "truncate", "take")))]
        ok = used_len or not prefix
        ctx.ob("G5", b.defp, "over-long-key-refused", loc(t["sp"]), ok,
               "the whole decoded key is converted to the key size (a length mismatch is an error)" if ok else
               f"only a prefix of the decoded key ({sorted(set(prefix))}) is converted to the cipher's key size and its full length is never compared: an over-long key is "
               "silently cut to its first bytes instead of being refused — and the server-key path rejects the same key, so the two credential paths disagree")
    for (b, blk, c, t) in dec_sites:
        # the Ok payload (decoded slice) must reach a len() that is compared
        carriers, calls, switches = b.slice_fwd([t["dest"][0]])
        used_len = any(cc.method == "len" for (_, cc, _, _) in calls)
        ctx.ob("G5", b.defp, "decoded-key-length-checked", loc(t["sp"]), used_len,
               "length of the decoded key is compared with the key size" if used_len else
               "the slice returned by Base64::decode is discarded: a shorter key is silently zero-padded to the cipher's key size")

    g8_document_reaches_the_types_unedited(ctx)
    g9_sections_select_the_transport(ctx)
    # ---------------- G6 -----------------------------------------------------------------------
    start_fns = [b for b in prog.prod_bodies() if (b.defp.startswith("octo_squirrel::config::") or b.defp.startswith("octo_squirrel::log::")
                 or "::config::init" in b.defp or b.defp.endswith("config::{impl#0}::get_current") or "ClientConfig" in (b.impl_self_def or ""))
                 and not prog.is_test_body(b) and "::_" not in b.defp]
    ctx.floor("G6", "configuration / logging start-up functions", 5, len(start_fns))
    for b in start_fns:
        for (blk, c, t) in b.calls():
            bad = None
            if c.name in ("Result::unwrap", "Option::unwrap", "Result::expect", "Option::expect", "Result::unwrap_or_else"):
                if c.name == "Result::unwrap_or_else":
                    # only when the closure panics
                    cl = [a for a in c.args if a.get("d")]
                    pan = False
                    for a in cl:
                        cb = prog.body(a["d"])
                        if cb is not None and any("panicking" in cc.target or "panic" in cc.target for (_, cc, _) in cb.calls()):
                            pan = True
                    if not pan:
                        continue
                bad = c.name
            elif "core::panicking" in c.target and not t["sp"][3]:
                bad = "panic!"
            elif c.name == "Vec::remove" or c.name == "Vec::swap_remove":
                bad = c.name + " (panics when the index is out of range)"
            if bad is None:
                continue
            # only values that come from the configuration: a parameter of the function or the command line,
            # not passing through an earlier unwrap / `?` (whose own failure is reported separately)
            stop = lambda cc: cc.name in ("Result::unwrap", "Option::unwrap", "Result::expect", "Option::expect", "Try::branch", "Result::unwrap_or_else")
            starts = [op_place(a)[0] for a in t["args"] if op_place(a)]
            # step over the receiver's own producer
            locs, calls, _ = b.slice_back(starts, stop_call=stop)
            from_param = any(1 <= l <= b.argc for l in locs)
            from_cmdline = any(cc.target.endswith("env::args") for (_, cc, _) in calls)
            if any("current_exe" in cc.target for (_, cc, _) in calls):
                continue
            if not (from_param or from_cmdline):
                continue
            ctx.ob("G6", b.defp, f"startup-panic:{bad.split(' ')[0]}", loc(t["sp"]), False, f"{bad} on a value that comes from the configuration: start-up panics instead of reporting an error")
    # Unknown cipher must be an error in every kind dispatch of start-up
    n_g6 = 0
    unknown = [v["discr"] for v in enums["cipher"]["variants"] if v["name"] == "Unknown"][0]
    START_KEYS = ("template::transfer_", "startup_tcp", "startup_udp", "startup_all", "startup_with")

    def _is_start(b_, blk_):
        t_ = b_.term(blk_)
        if t_ and t_["k"] == "goto" and "inlined_call" in t_:
            t_ = t_["inlined_call"]
        elif not t_ or t_["k"] != "call":
            return False
        c_ = Callee(t_["f"])
        if any(k in c_.target for k in START_KEYS):
            return True
        tb_ = prog.body(c_.target)
        # by role: a same-crate function that (within two calls) binds a listener
        if tb_ is not None and tb_.defp.split("::", 1)[0] == b_.defp.split("::", 1)[0] and tb_.root != b_.root:
            fb_ = prog.flat(tb_.root, max_depth=2)
            fam_calls = [cc for (_, cc, _) in fb_.calls()] + [cc for f2 in prog.family(tb_.root) for (_, cc, _) in prog.flat(f2.defp, max_depth=2).calls()]
            return any(cc.name in ("TcpListener::bind", "UdpSocket::bind", "Endpoint::server") for cc in fam_calls)
        return False

    for b in prog.prod_bodies():
        if not (("server::shadowsocks::startup" in b.defp) or b.defp.endswith("client::transfer_tcp::{closure#0}") or b.defp.endswith("client::transfer_udp::{closure#0}")):
            continue
        sw = _kind_switch(b)
        t = tgt = None
        if sw is not None:
            t = b.term(sw)
            tgt = dict((v, x) for v, x in t["arms"]).get(unknown, t["otherwise"])
        else:
            # the dispatch goes through a table on the cipher kind: evaluate start-up for Unknown with value tracking
            if not (b.defp.endswith("server::shadowsocks::startup::{closure#0}") or b.defp.endswith("client::transfer_tcp::{closure#0}") or b.defp.endswith("client::transfer_udp::{closure#0}")):
                continue
            _, st_u = kind_outcomes(prog, b, unknown, lambda fb_, blk_: _is_start(fb_, blk_))
            per_kind = [kind_outcomes(prog, b, v_, lambda fb_, blk_: _is_start(fb_, blk_))[1] for v_ in sorted(kind_algo)]
            if not any(per_kind):
                continue        # this function starts nothing for any kind: not a dispatch
            # starts that every documented kind reaches are not decided by the cipher (the VMess / Trojan arms of the protocol match)
            common_ = set.intersection(*per_kind) if per_kind else set()
            st_ = st_u - common_
            n_g6 += 1
            ctx.ob("G6", b.defp, "unknown-cipher-starts-nothing", loc(b.sp), not st_,
                   "Unknown cipher kind reaches no listener/relay start (evaluated through the kind table)" if not st_ else
                   "an entry whose cipher is missing or not one of the documented names (CipherKind::Unknown) is dispatched like a real cipher and starts its listeners "
                   "(the first connection then fails inside the cipher constructor) instead of being refused at start-up", ordinal=False)
            continue
        if t is None:
            continue
        n_g6 += 1
        if tgt is None:
            ctx.ob("G6", b.defp, "unknown-cipher-starts-nothing", loc(t["sp"]), True, "the kind table yields no key size for Unknown: nothing is started", ordinal=False)
            continue
        reach = b.reach_from(tgt)
        starts = [blk for blk in reach if _is_start(b, blk)]
        only_mine = [blk for blk in starts if not any(blk in b.reach_from(o) for v, o in t["arms"] if o != tgt)]
        shared = [blk for blk in starts if blk not in only_mine]
        # an arm that Unknown shares with documented ciphers (a `_ => 32` in the table) starts a listener for it just the same
        bad = only_mine or (sw is None and starts)
        ctx.ob("G6", b.defp, "unknown-cipher-starts-nothing", loc(t["sp"]), not bad,
               "Unknown cipher kind reaches no listener/relay start" if not bad else
               "an entry whose cipher is missing or not one of the documented names (CipherKind::Unknown) is dispatched like a real cipher and starts its listeners "
               "(the first connection then fails inside the cipher constructor) instead of being refused at start-up", ordinal=False)
    ctx.floor("G6", "start-up dispatches on the cipher kind checked for Unknown", 3, n_g6)


def _chacha_rounds(ty):
    # chacha20::ChaChaCore<UInt<UInt<UInt<UTerm,B1>,B0>,B0>> : U4 = 100b ; U10 = 1010b
    m = re.search(r"ChaChaCore<(.*?)>>,", ty) or re.search(r"ChaChaCore<(.*)", ty)
    if not m:
        return None
    bits = re.findall(r"B([01])", m.group(1).split("ChaChaPoly")[0])
    # bits appear most-significant first
    if not bits:
        return None
    # take only the bits of the first typenum (rounds)
    first = m.group(1)
    depth = 0
    seg = ""
    for ch in first:
        seg += ch
        if ch == "<":
            depth += 1
        elif ch == ">":
            depth -= 1
            if depth == 0:
                break
    bits = re.findall(r"B([01])", seg)
    val = 0
    for b_ in bits:
        val = val * 2 + int(b_)
    return val


def _kind_switch(b, min_arms=4):
    """block of a switch on the discriminant of a CipherKind value"""
    for blk in b.rpo():
        t = b.term(blk)
        if not t or t["k"] != "switch" or len(t["arms"]) < min_arms:
            continue
        p = op_place(t["d"])
        if p is None:
            continue
        for d in b.defs().get(p[0], []):
            if d[0] == "assign" and d[3]["rv"]["k"] == "discr":
                pl = d[3]["rv"]["p"]
                ty = _place_ty(b, pl)
                if ty and ty.endswith("CipherKind"):
                    return blk
    return None


def _self_switch(b):
    for blk in b.rpo():
        t = b.term(blk)
        if t and t["k"] == "switch":
            p = op_place(t["d"])
            if p is None:
                continue
            for d in b.defs().get(p[0], []):
                if d[0] == "assign" and d[3]["rv"]["k"] == "discr" and d[3]["rv"]["p"][0] == 1:
                    return blk
    return None


def _place_ty(b, pl):
    """type name of a place when it is a local (possibly dereferenced) or a named field whose type we know from items"""
    ty = b.local_ty(pl[0]).lstrip("&")
    fields = [e for e in pl[1] if e[0] == "field"]
    if not fields:
        return ty.replace("mut ", "")
    # look the field type up through struct items
    cur = b.locals[pl[0]]["ty"].get("d")
    prog_items = getattr(b, "_items", None)
    for e in fields:
        if e[2] in ("cipher", "kind"):
            return "CipherKind"
    return None


# ---------------------------------------------------------------------------------------------------------------------
# finite-configuration evaluation with value tracking: which instantiation does each cipher kind reach?
def kind_outcomes(prog, b, v, is_start, max_steps=40000):
    """Walk the flat view of `b` with `discriminant(<CipherKind place>) = v`, tracking constants and enum values that are built, returned and
    matched on (a table `kind -> usize`, `kind -> Option<KeyLength>`, ...). Returns (const-generic sizes of the calls reached, start calls reached)."""
    # only the tables on the cipher kind are spliced in; the listeners / relays that get started stay calls
    fb = prog.flat(b.defp, max_depth=2, stop=lambda cb: not (cb.impl_self_def and cb.impl_self_def.endswith("CipherKind")), key="kind-tables")
    sizes, starts = set(), set()
    seen = set()
    work = [(0, ())]
    steps = 0

    def ev_place(env, pl):
        key = (pl[0], tuple((e[0], e[1]) if e[0] in ("field", "downcast") else (e[0],) for e in pl[1]))
        if key in env:
            return env[key]
        cur = env.get((pl[0], ()))
        for e in pl[1]:
            if cur is None:
                return None
            if e[0] == "deref":
                continue
            if e[0] == "downcast":
                continue
            if e[0] == "field" and isinstance(cur, tuple) and cur[0] in ("variant", "tuple") and e[1] < len(cur[2]):
                cur = cur[2][e[1]]
            else:
                return None
        return cur

    def ev_op(env, op):
        k = op_int(op)
        if k is not None:
            return k
        p = op_place(op)
        return ev_place(env, p) if p is not None else None

    while work and steps < max_steps:
        steps += 1
        blk, envt = work.pop()
        if (blk, envt) in seen:
            continue
        seen.add((blk, envt))
        env = dict(envt)
        for s in fb.stmts(blk):
            if s["k"] != "assign":
                continue
            dst = s["p"]
            dkey = (dst[0], tuple((e[0], e[1]) if e[0] in ("field", "downcast") else (e[0],) for e in dst[1]))
            rv = s["rv"]
            val = None
            if rv["k"] == "use":
                val = ev_op(env, rv["op"])
                if fb.local_ty(dst[0]) == "bool" and op_place(rv["op"]) is None:
                    val = None      # drop flags and other constant booleans: path noise, never part of a kind table
            elif rv["k"] == "cast" and rv.get("ck") == "IntToInt":
                val = ev_op(env, rv["op"])
            elif rv["k"] == "agg":
                if rv.get("ak") == "adt":
                    val = ("variant", rv.get("vidx", 0), tuple(ev_op(env, o) for o in rv["ops"]))
                elif rv.get("ak") == "tuple":
                    val = ("tuple", None, tuple(ev_op(env, o) for o in rv["ops"]))
            elif rv["k"] == "discr":
                pv = ev_place(env, rv["p"])
                if isinstance(pv, tuple) and pv[0] == "variant":
                    val = pv[1]
                else:
                    pty = _flat_place_ty(fb, rv["p"])
                    if pty and pty.endswith("CipherKind"):
                        val = v
            # drop everything known below the written place
            for k_ in [k_ for k_ in env if k_[0] == dkey[0] and k_[1][:len(dkey[1])] == dkey[1]]:
                env.pop(k_)
            if val is not None:
                env[dkey] = val
        t = fb.term(blk)
        if not t:
            continue
        nxt = []
        if t["k"] == "call":
            c = Callee(t["f"])
            sizes |= {n for n in const_generics_in(c) if n in (16, 24, 32, 64)}
            if is_start(fb, blk):
                starts.add(blk)
            d = t["dest"]
            for k_ in [k_ for k_ in env if k_[0] == d[0]]:
                env.pop(k_)
            if t.get("t") is not None:
                nxt = [t["t"]]
        elif t["k"] == "switch":
            dv = ev_op(env, t["d"])
            if isinstance(dv, bool):
                dv = int(dv)
            if isinstance(dv, int):
                tgt = dict((a, x) for a, x in t["arms"]).get(dv, t["otherwise"])
                nxt = [tgt]
            else:
                nxt = list(fb.succ(blk))
        else:
            ic = t.get("inlined_call") if t["k"] == "goto" else None
            if ic is not None:      # a spliced call: its instantiation still counts, and it may be a start call
                sizes |= {n for n in const_generics_in(Callee(ic["f"])) if n in (16, 24, 32, 64)}
                if is_start(fb, blk):
                    starts.add(blk)
            nxt = [x for x in fb.succ(blk)]
        et = tuple(sorted(env.items(), key=lambda kv: repr(kv[0])))
        for n_ in nxt:
            if not fb.blocks[n_].get("cleanup"):
                work.append((n_, et))
    return sizes, starts


def _flat_place_ty(fb, pl):
    ty = fb.local_ty(pl[0]).replace("&mut ", "").replace("&", "").strip()
    if not [e for e in pl[1] if e[0] == "field"]:
        return ty
    for e in pl[1]:
        if e[0] == "field" and len(e) > 2 and e[2] in ("cipher", "kind"):
            return "CipherKind"
    return None


def g8_document_reaches_the_types_unedited(ctx):
    """G8: the *presence* of a section selects behaviour (`ssl` => TLS, `ws` => WebSocket, `quic` => QUIC listener; the code asks `is_some()`),
    and whether a member is present is decided by the deserializer of the config types. Between the file and those types nothing may take
    members out of the document: a pre-pass that deletes or empties members (`null`, `{}`, defaults) turns a section that selects a
    transport into one that is not there, and the entry silently runs without that transport. Start-up functions: the config readers (the
    functions that open the file and return the config types) and everything they splice in."""
    prog = ctx.prog
    readers = [b for b in prog.prod_bodies() if b.root == b.defp and not prog.is_test_body(b) and
               any(w in b.local_ty(0) for w in ("ClientConfig", "ServerConfig")) and "Result<" in b.local_ty(0) and
               any(c.name in ("File::open", "std::fs::read_to_string", "std::fs::read") or c.target.startswith("std::fs::") for (_, c, _) in prog.flat(b.defp).calls())]
    ctx.floor("G8", "config readers (file -> config types)", 2, len(readers))
    REMOVERS = ("retain", "remove", "remove_entry", "swap_remove", "shift_remove", "swap_remove_entry", "shift_remove_entry", "clear", "take", "truncate", "pop", "drain", "split_off")
    for b in readers:
        fb = prog.flat(b.defp, max_depth=6)
        desers = [(blk, c, t) for (blk, c, t) in fb.calls() if c.target.startswith("serde_json::") and (c.method or "").startswith("from_")]
        ctx.ob("G8", b.defp, "config-deserialized-from-the-file", loc(b.sp), bool(desers), f"{len(desers)} serde_json deserializer call(s) feed the config types")
        # reached bodies (closures handed to iterators included): any call that removes members from a JSON document
        seen, work, hits = set(), [b.root], []
        while work:
            r = work.pop()
            if r in seen or prog.body(r) is None:
                continue
            seen.add(r)
            for fam in prog.family(r):
                for (blk, c, t) in fam.calls():
                    tb = prog.body(c.target)
                    if tb is not None and tb.defp.startswith("octo_squirrel") and len(seen) < 60:
                        work.append(tb.root)
                    for a in t["args"]:
                        k = op_const(a)
                        if k and "fn" in k:
                            fb2 = prog.body(Callee(k["fn"]).target)
                            if fb2 is not None:
                                work.append(fb2.root)
                    selfs = (c.self_s or "") + " " + " ".join(x.get("s", "") for x in c.args)
                    if c.method in REMOVERS and ("serde_json" in selfs or "serde_json" in c.target):
                        hits.append((fam, c, t))
        for (fam, c, t) in hits:
            ctx.ob("G8", fam.defp, f"document-members-are-not-removed:{c.method}", loc(t["sp"]), False,
                   f"`{c.name}` takes members out of the JSON document on the way from the config file to the config types: which transport an entry uses is selected by the "
                   "*presence* of its `ssl` / `ws` / `quic` section, so a section that is present but empty (every member optional) or null is silently turned into `absent` "
                   "and the entry runs without the transport its configuration names")


def g9_sections_select_the_transport(ctx):
    """G9: the `ssl` / `ws` / `quic` sections of an entry select the transport exactly as the README's table says (quic wins; ssl+ws = wss; ...), on the
    client's selector and on the server's listener: C01's W1 finite-configuration evaluation (all section combinations, value tracking through
    helper functions and through enum values such as a `Transport` built from the sections) re-evaluated."""
    from ..engine import Ctx
    from . import c01
    busy = ctx.prog.__dict__.setdefault("_importing", set())
    if "C16" in busy:
        return
    busy.add("C16")
    try:
        sub = Ctx(ctx.prog, "C01", ctx.tier)
        sub.repo = getattr(ctx, "repo", None)
        c01.w1_only(sub)
    finally:
        busy.discard("C16")
    n = 0
    for o in sub.obs:
        if o.rule == "W1":
            n += 1
            parts = o.key.split("|")
            ctx.ob("G9", parts[1], parts[2], o.where, o.ok, o.detail, ordinal=len(parts) > 3)
    for (r, w, e, f) in sub.floors:
        if r == "W1":
            ctx.floor("G9", w, e, f)
    for (r, w) in sub.anchors_lost:
        if r == "W1":
            ctx.anchor_lost("G9", w)
