"""Shared analysis helpers for the rule modules (B3/B4 building blocks)."""
import re

from ..mir import Callee, base, is_plain, last_seg, loc, op_const, op_int, op_place

PASS_THROUGH = {
    # callee name -> index of the argument whose value flows to the result
    "Result::map_err": 0,
    "Result::map": 0,
    "Result::ok": 0,
    "Result::or_else": 0,
    "Option::ok_or": 0,
    "Option::ok_or_else": 0,
    "Option::map": 0,
    "Option::as_ref": 0,
    "Option::as_mut": 0,
    "Option::cloned": 0,
    "Option::copied": 0,
    "Try::branch": 0,
    "Into::into": 0,
    "From::from": 0,
    "Clone::clone": 0,
    "IntoFuture::into_future": 0,
    "Pin::new_unchecked": 0,
    "Pin::new": 0,
    "Pin::as_mut": 0,
    "Future::poll": 0,
    "core::hint::must_use": 0,
}

BOOL_QUERIES = {
    "Result::is_ok": ("result", 0, True),
    "Result::is_err": ("result", 1, True),
    "Option::is_some": ("option", 1, True),
    "Option::is_none": ("option", 0, True),
}


def ty_kind(s):
    s = s.lstrip("&").replace("mut ", "")
    if s.startswith("std::ops::ControlFlow") or s.startswith("core::ops::ControlFlow"):
        return "try"
    if s.startswith("std::result::Result") or s.startswith("core::result::Result"):
        return "result"
    if s.startswith("std::option::Option") or s.startswith("core::option::Option"):
        return "option"
    if s.startswith("std::task::Poll") or s.startswith("core::task::Poll"):
        return "poll"
    if s == "bool":
        return "bool"
    return "other"


SUCCESS_ARM = {"try": 0, "result": 0, "option": 1}


class Gate:
    """A switch whose discriminant derives from a checked value."""

    def __init__(self, body, block, kind, negated, term, level):
        self.body = body
        self.block = block
        self.kind = kind  # try | result | option | bool | poll | other
        self.negated = negated
        self.term = term
        self.level = level

    def target_for(self, val):
        for v, t in self.term["arms"]:
            if v == val:
                return t
        return self.term["otherwise"]

    def success_target(self):
        if self.kind in SUCCESS_ARM:
            return self.target_for(SUCCESS_ARM[self.kind])
        return None

    def bool_target(self, truth):
        """target taken when the (un-negated) predicate has the given truth value"""
        t = truth != self.negated
        return self.target_for(1 if t else 0)


def gates_of_value(body, start_local, max_level=6):
    """Follow a value forward through pass-through calls, copies, payload extraction of the success
    variant, and boolean queries; return the switches (Gate) that test it."""
    gates = []
    # carriers: local -> (level, kind-hint)
    carriers = {start_local: 0}
    bools = {}  # local -> (kind, arm, positive?, level)  e.g. is_some
    discrs = {}  # local -> (kind, level)
    tup = {}  # (tuple local, field index) -> level : a carrier packed into a tuple (match on several values)
    discr_place = {}
    changed = True
    rounds = 0
    while changed and rounds < 50:
        rounds += 1
        changed = False
        for b in body.rpo():
            for s in body.stmts(b):
                if s["k"] != "assign" or not is_plain(s["p"]):
                    continue
                dst = s["p"][0]
                rv = s["rv"]
                if rv["k"] == "use":
                    p = op_place(rv["op"])
                    if p is None:
                        continue
                    if p[0] in carriers:
                        lvl = carriers[p[0]]
                        if not p[1]:
                            if dst not in carriers:
                                carriers[dst] = lvl
                                changed = True
                        else:
                            # payload of the success variant: (x as Continue).0 / (x as Ok).0 / (x as Some).0
                            pr = p[1]
                            if len(pr) >= 2 and pr[0][0] == "downcast" and pr[0][1] in ("Continue", "Ok", "Some", "Ready") and pr[1][0] == "field":
                                if dst not in carriers and lvl + 1 <= max_level:
                                    carriers[dst] = lvl + 1
                                    changed = True
                    if p[0] in bools and not p[1] and dst not in bools:
                        bools[dst] = bools[p[0]]
                        changed = True
                elif rv["k"] == "ref":
                    p = rv["p"]
                    if p[0] in carriers and dst not in carriers:
                        # &x or &(*x): same level; &((x as Some).0): payload
                        pr = [e for e in p[1] if e[0] != "deref"]
                        if not pr:
                            carriers[dst] = carriers[p[0]]
                            changed = True
                        elif len(pr) >= 2 and pr[0][0] == "downcast" and pr[0][1] in ("Continue", "Ok", "Some", "Ready"):
                            carriers[dst] = carriers[p[0]] + 1
                            changed = True
                elif rv["k"] == "agg" and rv["ak"] == "tuple":
                    for i, o in enumerate(rv["ops"]):
                        p = op_place(o)
                        if p is not None and not p[1] and p[0] in carriers and (dst, i) not in tup:
                            tup[(dst, i)] = carriers[p[0]]
                            changed = True
                elif rv["k"] == "discr" and rv["p"][1] and rv["p"][1][0][0] == "field" and (rv["p"][0], rv["p"][1][0][1]) in tup:
                    if dst not in discrs:
                        rest = [e for e in rv["p"][1][1:] if e[0] != "deref"]
                        lvl = tup[(rv["p"][0], rv["p"][1][0][1])]
                        if not rest:
                            discrs[dst] = lvl
                            discr_place[dst] = "tuple"
                            changed = True
                elif rv["k"] == "discr":
                    p = rv["p"]
                    if p[0] in carriers and dst not in discrs:
                        # discriminant of the carrier itself (possibly through derefs) or of its payload
                        pr = [e for e in p[1] if e[0] != "deref"]
                        lvl = carriers[p[0]]
                        if pr:
                            if pr[0][0] == "downcast" and pr[0][1] in ("Continue", "Ok", "Some", "Ready"):
                                lvl += 1
                            else:
                                continue
                        discrs[dst] = lvl
                        changed = True
                elif rv["k"] == "un" and rv["op"] == "Not":
                    p = op_place(rv["a"])
                    if p is not None and p[0] in bools and dst not in bools:
                        k, arm, pos, lvl = bools[p[0]]
                        bools[dst] = (k, arm, not pos, lvl)
                        changed = True
            t = body.term(b)
            if t and t["k"] == "call":
                c = Callee(t["f"])
                nm = c.name
                if nm in PASS_THROUGH and t["args"]:
                    p = op_place(t["args"][PASS_THROUGH[nm]])
                    if p is not None and p[0] in carriers and is_plain(t["dest"]) and t["dest"][0] not in carriers:
                        carriers[t["dest"][0]] = carriers[p[0]]
                        changed = True
                if nm in BOOL_QUERIES and t["args"]:
                    p = op_place(t["args"][0])
                    if p is not None and p[0] in carriers and t["dest"][0] not in bools:
                        k, arm, pos = BOOL_QUERIES[nm]
                        bools[t["dest"][0]] = (k, arm, pos, carriers[p[0]])
                        changed = True
    for b in body.rpo():
        t = body.term(b)
        if not t or t["k"] != "switch":
            continue
        p = op_place(t["d"])
        if p is None or p[1]:
            continue
        l = p[0]
        if l in discrs:
            # type of what was discriminated: find the defining discr stmt
            kind = "other"
            for d in body.defs().get(l, []):
                if d[0] == "assign" and d[3]["rv"]["k"] == "discr":
                    pp = d[3]["rv"]["p"]
                    if discr_place.get(l) == "tuple":
                        targs = _generic_args("T<" + body.local_ty(pp[0]).strip()[1:-1] + ">")
                        idx = pp[1][0][1]
                        kind = ty_kind(targs[idx]) if idx < len(targs) else "other"
                    else:
                        kind = _place_kind(body, pp)
            gates.append(Gate(body, b, kind, False, t, discrs[l]))
        elif l in bools:
            k, arm, pos, lvl = bools[l]
            g = Gate(body, b, "bool", not pos, t, lvl)
            g.query = (k, arm)
            gates.append(g)
        elif l in carriers and body.local_ty(l) == "bool":
            gates.append(Gate(body, b, "bool", False, t, carriers[l]))
    return gates


def _place_kind(body, place):
    """kind of the value whose discriminant is read, from the local's type and downcasts"""
    ty = body.local_ty(place[0])
    k = ty_kind(ty)
    pr = [e for e in place[1] if e[0] != "deref"]
    # payload navigation: Continue.0 of ControlFlow<R, T> -> T ; we only know by name
    i = 0
    while i + 1 < len(pr) and pr[i][0] == "downcast":
        # peel one generic layer textually
        inner = _generic_payload(ty, pr[i][1])
        if inner is None:
            return "other"
        ty = inner
        k = ty_kind(ty)
        i += 2
    return k


def _generic_args(ty):
    """top-level generic args of a type string"""
    lt = ty.find("<")
    if lt < 0 or not ty.endswith(">"):
        return []
    inner = ty[lt + 1:-1]
    out = []
    depth = 0
    cur = ""
    for ch in inner:
        if ch in "<([":
            depth += 1
        elif ch in ">)]":
            depth -= 1
        if ch == "," and depth == 0:
            out.append(cur.strip())
            cur = ""
        else:
            cur += ch
    if cur.strip():
        out.append(cur.strip())
    return out


def _generic_payload(ty, variant):
    ty = ty.lstrip("&")
    if ty.startswith("mut "):
        ty = ty[4:]
    args = _generic_args(ty)
    k = ty_kind(ty)
    if k == "try" and variant == "Continue" and len(args) >= 2:
        return args[1]
    if k == "try" and variant == "Break" and args:
        return args[0]
    if k == "result" and variant == "Ok" and args:
        return args[0]
    if k == "result" and variant == "Err" and len(args) >= 2:
        return args[1]
    if k == "option" and variant == "Some" and args:
        return args[0]
    if k == "poll" and variant == "Ready" and args:
        return args[0]
    return None


def call_success_guards(body, call_block):
    """Gates on the result of the call at call_block."""
    t = body.call_term(call_block)
    return gates_of_value(body, t["dest"][0])


def success_edge_dominates(body, call_block, site_block, need_levels=None):
    """True iff `site_block` is only reachable through the success edge of a test of the call's result
    (`?`-continue, Ok, Some). With several nested levels (e.g. Result<Option<_>>), every level listed in
    need_levels (default: all levels that exist) must be passed on its success edge."""
    gates = [g for g in call_success_guards(body, call_block) if g.kind in SUCCESS_ARM]
    if not gates:
        return False, "result is never tested"
    levels = sorted({g.level for g in gates})
    if need_levels is not None:
        levels = [l for l in levels if l in need_levels]
    for lvl in levels:
        ok = False
        for g in gates:
            if g.level != lvl:
                continue
            st = g.success_target()
            if st is not None and body.edge_dominates(g.block, st, site_block):
                ok = True
        if not ok:
            return False, f"level-{lvl} test of the result does not dominate the site on its success edge"
    return True, "dominated by success edge(s) at levels " + ",".join(map(str, levels))


def const_cmp_of_switch(body, switch_block):
    """If the switch at `switch_block` tests `x <op> y` (a BinaryOp comparison computed in the same body), return
    (op, a_operand, b_operand, false_target, true_target) else None."""
    t = body.term(switch_block)
    p = op_place(t["d"])
    if p is None or p[1]:
        return None
    for d in body.defs().get(p[0], []):
        if d[0] == "assign" and d[3]["rv"]["k"] == "bin" and d[3]["rv"]["op"] in ("Lt", "Le", "Gt", "Ge", "Eq", "Ne"):
            rv = d[3]["rv"]
            ft = None
            for v, tgt in t["arms"]:
                if v == 0:
                    ft = tgt
            tt = t["otherwise"]
            if ft is None:
                continue
            return (rv["op"], rv["a"], rv["b"], ft, tt)
    return None


def returns_variant(body):
    """Classify blocks that set the return place: block -> 'Ok' | 'Err' | 'Some' | 'None' | 'residual' | other variant name"""
    out = {}
    for b in body.rpo():
        for s in body.stmts(b):
            if s["k"] == "assign" and s["p"][0] == 0 and not s["p"][1] and s["rv"]["k"] == "agg" and s["rv"]["ak"] == "adt":
                out[b] = s["rv"]["variant"]
        t = body.term(b)
        if t and t["k"] == "call" and t["dest"][0] == 0 and not t["dest"][1]:
            c = Callee(t["f"])
            if c.name == "FromResidual::from_residual":
                out[b] = "residual"
    return out


def ok_some_blocks(body):
    """Blocks that build `Ok(Some(..))` into the return place (accept points of a decoder)."""
    res = []
    rv_blocks = returns_variant(body)
    for b, v in rv_blocks.items():
        if v != "Ok":
            continue
        # operand of the Ok aggregate
        for s in body.stmts(b):
            if s["k"] == "assign" and s["p"][0] == 0 and s["rv"]["k"] == "agg" and s["rv"].get("variant") == "Ok":
                ops = s["rv"]["ops"]
                if not ops:
                    continue
                p = op_place(ops[0])
                if p is None:
                    continue
                if _local_is_some(body, p[0]):
                    res.append(b)
    return res


def _local_is_some(body, l, depth=0):
    if depth > 6:
        return False
    for d in body.defs().get(l, []):
        if d[0] == "assign":
            rv = d[3]["rv"]
            if rv["k"] == "agg" and rv["ak"] == "adt" and rv.get("variant") == "Some":
                return True
            if rv["k"] == "use":
                p = op_place(rv["op"])
                if p is not None and not p[1] and _local_is_some(body, p[0], depth + 1):
                    return True
    return False


def err_return_reachable_only(body, block):
    """every path from `block` reaches a return with an Err / residual value without passing an Ok return"""
    rv = returns_variant(body)
    reach = body.reach_from(block)
    bad = [b for b in reach if rv.get(b) in ("Ok",)]
    good = [b for b in reach if rv.get(b) in ("Err", "residual")]
    return (not bad) and bool(good)


def fn_display(body):
    """stable, line-free display name for keys"""
    return body.defp


def body_calls_named(body, name):
    return [(b, c, t) for (b, c, t) in body.calls() if c.name == name]


def calls_to_path_suffix(body, suffix):
    return [(b, c, t) for (b, c, t) in body.calls() if c.target.endswith(suffix) or c.path.endswith(suffix)]


def enum_fn_table(body, switch_block, nvariants=None):
    """For `match <enum> { A | B => k1, C => k2, _ => k3 }` compiled to a switch at `switch_block`:
    discriminant value -> integer constant stored into the return place along that arm (None if not constant)."""
    t = body.term(switch_block)
    out = {}
    listed = set()
    for v, tgt in t["arms"]:
        listed.add(v)
        out[v] = _ret_const(body, tgt)
    if nvariants is not None:
        k = _ret_const(body, t["otherwise"])
        for v in range(nvariants):
            if v not in listed:
                out[v] = k
    return out


def _ret_const(body, blk, depth=0):
    if depth > 8:
        return None
    for s in body.stmts(blk):
        if s["k"] == "assign" and s["p"][0] == 0 and not s["p"][1] and s["rv"]["k"] == "use":
            v = op_int(s["rv"]["op"])
            if v is not None:
                return v
            c = op_const(s["rv"]["op"])
            if c is not None and "item" in c:
                return ("item", c["item"])
    succ = body.succ(blk)
    if len(succ) == 1:
        return _ret_const(body, succ[0], depth + 1)
    return None


def simulate_cfg(body, decide, stop=None):
    """Explore the CFG from the entry; at a switch `decide(block, term)` may force one target (configuration
    known) — otherwise all successors are explored. `stop(block)` -> True prunes. Returns visited blocks."""
    seen = set()
    work = [0]
    while work:
        b = work.pop()
        if b in seen:
            continue
        seen.add(b)
        if stop is not None and stop(b):
            continue
        t = body.term(b)
        if t and t["k"] == "switch":
            forced = decide(b, t)
            if forced is not None:
                work.append(forced)
                continue
        work.extend(body.succ(b))
    return seen


def discr_source_field(body, local):
    """if `local = discr(P)` return (base_local, [field indices/names along P])"""
    for d in body.defs().get(local, []):
        if d[0] == "assign" and d[3]["rv"]["k"] == "discr":
            p = d[3]["rv"]["p"]
            return p[0], [(e[1], e[2]) for e in p[1] if e[0] == "field"]
    return None


def switch_target(term, val):
    for v, t in term["arms"]:
        if v == val:
            return t
    return term["otherwise"]


def import_length_predictor_agreement(ctx, rule, floor=3):
    """The reads inside the SOCKS5-style address decoder are not guarded in the decoder itself (it trusts its callers); every caller guards
    with the length predictor (`try_decode_at`-role helper). That argument holds only while the predictor agrees, per address variant, with
    what the encoder writes / the decoder consumes: C14's E3 sibling table. The agreement is a premise of C04 / C07 / C13 as well, so those
    checks re-evaluate it (shared verdict, own key)."""
    from ..engine import Ctx
    from . import c14
    sub = Ctx(ctx.prog, "C14", ctx.tier)
    c14.run(sub)
    n = 0
    for o in sub.obs:
        if o.rule == "E3" and ("length-equals-encoded-size" in o.key or o.key.endswith("|all-variants")):
            parts = o.key.split("|")
            n += 1
            ctx.ob(rule, parts[1], "predictor:" + parts[2], o.where, o.ok,
                   ("length predictor agrees with the encoded size: " if o.ok else
                    "the length predictor that guards the callers of the address decoder disagrees with the encoded size, so the guard admits a "
                    "buffer the decoder then over-reads (panic) or holds back a complete message: ") + o.detail, ordinal=False)
    for (r, w, e, f) in sub.floors:
        if r == "E3" and "length helpers" in w:
            ctx.floor(rule, "address length predictors (imported from C14 E3): " + w, e, f)
    ctx.floor(rule, "length-predictor agreement obligations", floor, n)


def flat_err_only(prog, fb, blk):
    """In a flat body: every path from `blk` ends with the *root* function returning Err. Decided modularly, because the splice re-joins a
    callee's Ok and Err returns before the caller's `?`: (1) inside the function the block came from, every path from it returns Err;
    (2) at the call site of that function the result is `?`-propagated (the Break edge returns Err in the caller) — recursively up to the root."""
    if not getattr(fb, "is_flat", False) or fb.callsite[blk] is None:
        src = prog.body(fb.origin[blk]) if getattr(fb, "is_flat", False) else fb
        ob = fb.origin_blk[blk] if getattr(fb, "is_flat", False) else blk
        return err_return_reachable_only(src, ob)
    src = prog.body(fb.origin[blk])
    if not err_return_reachable_only(src, fb.origin_blk[blk]):
        return False
    cs = fb.callsite[blk]
    caller = prog.body(fb.origin[cs])
    cblk = fb.origin_blk[cs]
    t = caller.term(cblk)
    if not t or t["k"] != "call":
        return False
    carriers, calls, sw = caller.slice_fwd([t["dest"][0]])
    gated = False
    for l in carriers:
        for g in gates_of_value(caller, l):
            if g.kind in ("try", "result"):
                gated = True
                ft = g.target_for(1)
                # the failure edge in the caller, as a block of the flat body: same origin function instance as the call site
                fidx = _flat_index(fb, cs, ft)
                if fidx is not None and flat_err_only(prog, fb, fidx):
                    return True
    if not gated and _returned_as_is(caller, t["dest"][0]):
        # `return helper(..)`: the callee's Err is the caller's Err — continue at the caller's own call site
        if fb.callsite[cs] is None:
            return True
        return flat_err_only(prog, fb, cs) if False else _err_only_from_callsite(prog, fb, cs)
    return False


def _returned_as_is(body, local):
    """the value is moved, untested, into the function's return place"""
    seen, work = set(), [local]
    while work:
        l = work.pop()
        if l in seen:
            continue
        seen.add(l)
        if l == 0:
            return True
        for blk in body.rpo():
            for s in body.stmts(blk):
                if s["k"] == "assign" and s["rv"]["k"] == "use" and not s["p"][1]:
                    p = op_place(s["rv"]["op"])
                    if p is None or p[0] != l:
                        continue
                    # a plain move, or the output taken out of a completed poll (`.await` as the tail expression)
                    if not p[1] or (len(p[1]) == 2 and p[1][0][0] == "downcast" and p[1][0][1] == "Ready" and p[1][1][0] == "field"):
                        work.append(s["p"][0])
            # an adapter that keeps an Err an Err (`helper(..).map(Wrap)`)
            t = body.term(blk)
            if t and t["k"] == "call" and t["args"]:
                p0 = op_place(t["args"][0])
                if p0 is not None and not p0[1] and p0[0] == l and Callee(t["f"]).name in ("Result::map", "Result::map_err", "Result::inspect", "Result::inspect_err"):
                    work.append(t["dest"][0])
    return False


def _err_only_from_callsite(prog, fb, cs):
    """the function instance that contains flat block `cs` returns what its callee returned: judge its own call site one level up"""
    up = fb.callsite[cs]
    if up is None:
        return True
    caller = prog.body(fb.origin[up])
    t = caller.term(fb.origin_blk[up])
    if not t or t["k"] != "call":
        return False
    gated = False
    for l in caller.slice_fwd([t["dest"][0]])[0]:
        for g in gates_of_value(caller, l):
            if g.kind in ("try", "result"):
                gated = True
                fidx = _flat_index(fb, up, g.target_for(1))
                if fidx is not None and flat_err_only(prog, fb, fidx):
                    return True
    if not gated and _returned_as_is(caller, t["dest"][0]):
        return _err_only_from_callsite(prog, fb, up)
    return False


def _flat_index(fb, like_blk, orig_idx):
    """flat block index of original block `orig_idx` in the same inlined instance as flat block `like_blk`"""
    inst = fb.callsite[like_blk]
    fn = fb.origin[like_blk]
    for i in range(fb.n):
        if fb.origin[i] == fn and fb.callsite[i] == inst and fb.origin_blk[i] == orig_idx:
            return i
    return None


ADDR_TY = "protocol::address::Address"
MAP_LOOKUPS = ("get", "get_mut", "get_key_value", "contains_key", "entry", "peek", "remove", "get_or_insert_with")


def inbound_enum(prog):
    """the server's inbound message enum, by role: an enum with a variant carrying (bytes, Address) and a variant carrying bytes only.
    Returns (item, addressed_variants, plain_variants)."""
    for it in prog.items:
        if it["k"] != "enum":
            continue
        addressed = [v["name"] for v in it["variants"] if len(v["fields"]) == 2 and "BytesMut" in v["fields"][0][1] and ADDR_TY in v["fields"][1][1]]
        plain = [v["name"] for v in it["variants"] if len(v["fields"]) == 1 and "BytesMut" in v["fields"][0][1]]
        if addressed and plain:
            return it, addressed, plain
    return None, [], []


def variant_bindings(b, enum_def, variants=None):
    """local -> (variant, field index) for locals bound from a payload field of `enum_def` (pattern bindings)"""
    out = {}
    for blk in b.rpo():
        for s in b.stmts(blk):
            if s["k"] != "assign" or s["rv"]["k"] not in ("use", "ref"):
                continue
            p = op_place(s["rv"]["op"]) if s["rv"]["k"] == "use" else s["rv"]["p"]
            if not p:
                continue
            dc = [e for e in p[1] if e[0] == "downcast"]
            fl = [e for e in p[1] if e[0] == "field"]
            if dc and fl and (variants is None or dc[-1][1] in variants):
                ty = b.local_ty(p[0])
                if last_seg(enum_def) in ty:
                    out[s["p"][0]] = (dc[-1][1], fl[-1][1])
    return out


def partial_key_caches(prog, crate_prefix="octo_squirrel_server"):
    """Lookups in a map whose value carries a socket address (host AND port) while the key derives from the host name alone: the port of
    an earlier flow / datagram is substituted for the port of this one. Returns [(body, block, term, map type, reason)]."""
    out = []
    for b in prog.prod_bodies():
        if not b.defp.startswith(crate_prefix):
            continue
        for (blk, c, t) in b.calls():
            if c.method not in MAP_LOOKUPS or not t["args"]:
                continue
            rp = op_place(t["args"][0])
            mty = b.local_ty(rp[0]) if rp is not None else (c.self_s or "")
            if not any(m in mty for m in ("HashMap<", "BTreeMap<", "LruCache<")) or "SocketAddr" not in mty:
                continue
            if len(t["args"]) < 2:
                continue
            kp = op_place(t["args"][1])
            if kp is None:
                continue
            seen, calls, consts = b.slice_back([kp[0]])
            # which parts of an Address does the key derive from?
            parts = set()
            whole = False
            for l in seen:
                for d in b.defs().get(l, []):
                    if d[0] != "assign":
                        continue
                    for o in b.operands_of_rvalue(d[3]["rv"]):
                        pp = op_place(o)
                        if pp is None:
                            continue
                        proj = pp[1]
                        # the field taken right after a downcast to the name-carrying address variant (`Address::Domain(host, port)`)
                        hit = False
                        for i, e in enumerate(proj):
                            if e[0] == "downcast" and e[1] == "Domain" and i + 1 < len(proj) and proj[i + 1][0] == "field":
                                parts.add(proj[i + 1][1])
                                hit = True
                        if hit or ADDR_TY not in b.local_ty(pp[0]):
                            continue
                        if not [e for e in proj if e[0] == "field"] and l != pp[0] and ADDR_TY not in b.local_ty(l):
                            whole = True     # the whole address went into a non-address value (to_string, hash ..)
            if parts and not whole and 1 not in parts:
                udp = any("Udp" in str(e[1]) for blk2 in b.rpo() for s2 in b.stmts(blk2) if s2["k"] == "assign"
                          for o2 in (b.operands_of_rvalue(s2["rv"]) + [{"copy": s2["p"]}]) if op_place(o2) for e in op_place(o2)[1] if e[0] == "downcast") or \
                    any(s2["k"] == "assign" and s2["rv"]["k"] == "agg" and "Udp" in str(s2["rv"].get("variant")) for blk2 in b.rpo() for s2 in b.stmts(blk2)) or \
                    any("Udp" in l["ty"].get("s", "") for l in b.locals)
                out.append((b, blk, t, mty, "the key derives from the host name only (field 0 of Address::Domain) while the value is a SocketAddr with a port", "udp" if udp else "tcp"))
    return out


def first_item_handlers(prog, crate_prefix="octo_squirrel_server"):
    """The server code that handles the first decoded message of a flow, by role: its flat view binds the payload of an addressed variant of
    the inbound enum and dials TcpStream::connect. Returns (enum item, addressed variants, [(flat body, bindings)]) — innermost bodies only."""
    enum_it, addressed, plain = inbound_enum(prog)
    if enum_it is None:
        return None, [], []
    cands = []
    for b in prog.prod_bodies():
        if not b.defp.startswith(crate_prefix) or "::_" in b.defp:
            continue
        fb = prog.flat(b.defp)
        if not any(c.name == "TcpStream::connect" for (_, c, _) in fb.calls()):
            continue
        binds = variant_bindings(fb, enum_it["path"], addressed)
        if binds:
            cands.append((fb, binds))
    byroot = {}
    for fb, binds in cands:
        if fb.root not in byroot or fb.n < byroot[fb.root][0].n:
            byroot[fb.root] = (fb, binds)
    inner = [v for v in byroot.values() if not any(w[0].root in {prog.body(o).root for o in v[0].origin} and w[0].root != v[0].root for w in byroot.values())]
    return enum_it, addressed, (inner or list(byroot.values()))


def outermost(prog, bodies):
    """of the candidate bodies keep those that are not spliced into another candidate's flat view (a helper extracted from an anchor
    function is analysed inside the anchor, not as an anchor of its own)"""
    defs = {b.defp for b in bodies}
    inner = set()
    for b in bodies:
        fb = prog.flat(b.defp)
        for o in set(fb.origin):
            if o != b.defp and o in defs:
                inner.add(o)
    return [b for b in bodies if b.defp not in inner]


def accept_blocks(fb):
    """accepting returns of a decoder, also when the accept was moved into a helper that the flat view splices in:
    blocks that build `Ok(Some(..))` (Result<Option<..>> functions) / `Ok(..)` of the function's own result type into a value that is, or
    flows unchanged into, the return place"""
    rty = fb.local_ty(0)
    want_some = "Option<" in rty.split("Result<", 1)[-1][:60]
    out = []
    for blk in fb.rpo():
        for s in fb.stmts(blk):
            if s["k"] != "assign" or s["p"][1] or s["rv"]["k"] != "agg" or s["rv"].get("variant") != "Ok" or not s["rv"].get("def", "").endswith("result::Result"):
                continue
            dst = s["p"][0]
            if dst != 0:
                if fb.local_ty(dst) != rty:
                    continue
                fwd, _, _ = fb.slice_fwd([dst])
                if 0 not in fwd:
                    continue
            if want_some:
                p = op_place(s["rv"]["ops"][0]) if s["rv"]["ops"] else None
                if p is None or not _local_is_some(fb, p[0]):
                    continue
            out.append(blk)
    return out


def err_only(prog, body, blk):
    return flat_err_only(prog, body, blk) if getattr(body, "is_flat", False) else err_return_reachable_only(body, blk)


def decoder_shaped(b):
    """False for a pure check helper: a function whose result carries no data (`Result<(), _>`, `Result<bool, _>`, `bool`, `()`, an integer)"""
    rt = b.local_ty(0)
    payload = rt
    if "Result<" in rt:
        payload = rt.split("Result<", 1)[1].split(",", 1)[0].strip()
    return payload not in ("()", "bool", "u8", "u16", "u32", "u64", "usize")


def lift_to_decoders(prog, cands, depth=3):
    """A check (timestamp, type byte, salt lookup ..) may sit in a helper that a decoder calls. The unit the rules are about is the decode
    step: a function returning Result<Option<_>>. Candidates that are not decoder-shaped are replaced by their (transitive) callers that are."""
    callers = {}
    for b in prog.prod_bodies():
        for (blk, c, t) in b.calls():
            cb = prog.body(c.target)
            if cb is not None:
                callers.setdefault(cb.root, set()).add(b.root)
    out, seen = {}, set()
    work = [(b.root, 0) for b in cands]
    while work:
        r, d = work.pop()
        if r in seen:
            continue
        seen.add(r)
        rb = prog.body(r)
        if rb is None:
            continue
        if decoder_shaped(rb) or d >= depth or not callers.get(r):
            out[r] = rb
            continue
        for c in callers[r]:
            if c != r:
                work.append((c, d + 1))
    return sorted(out.values(), key=lambda b: b.defp)


def _same_instance(fb, a, b):
    return fb.origin[a] == fb.origin[b] and fb.callsite[a] == fb.callsite[b]


def _ok_return_blocks(body):
    """blocks of a (non-flat) body that put a non-Err value into the return place"""
    rv = returns_variant(body)
    out = [b for b, v in rv.items() if v not in ("Err", "residual")]
    if not out and "Result<" not in body.local_ty(0):
        out = body.return_blocks()
    return out


def _lift_through_call(prog, fb, blk):
    """the chain of call-site blocks (flat indices) from the instance `blk` lives in up to the root: [(callsite flat block), ...]"""
    chain = []
    cur = blk
    while fb.callsite[cur] is not None:
        cur = fb.callsite[cur]
        chain.append(cur)
    return chain


def edge_dom(prog, body, src, dst, site):
    """`site` is only reachable through the CFG edge src->dst. In a flat body this is decided modularly when the edge lies in a spliced
    callee: the edge must dominate every non-Err return of that callee (in the callee's own body), and the call must be success-gated
    (`?` / Ok arm) with that success edge dominating the site — recursively up the splice chain."""
    if not getattr(body, "is_flat", False) or _same_instance(body, src, site):
        return body.edge_dominates(src, dst, site)
    if body.edge_dominates(src, dst, site):
        return True
    f = prog.body(body.origin[src])
    osrc = body.origin_blk[src]
    odst = body.origin_blk[dst] if body.origin[dst] == body.origin[src] and body.callsite[dst] == body.callsite[src] else None
    if odst is None:
        return False
    oks = _ok_return_blocks(f)
    if not oks or not all(f.edge_dominates(osrc, odst, r) for r in oks):
        return False
    cs = body.callsite[src]
    if cs is None:
        return False
    return succ_dom(prog, body, cs, site)[0]


def succ_dom(prog, body, call_blk, site, need_levels=None):
    """flat-aware success_edge_dominates (see edge_dom)"""
    if not getattr(body, "is_flat", False) or _same_instance(body, call_blk, site):
        return success_edge_dominates(body, call_blk, site, need_levels)
    ok, why = success_edge_dominates(body, call_blk, site, need_levels)
    if ok:
        return ok, why
    f = prog.body(body.origin[call_blk])
    ob = body.origin_blk[call_blk]
    oks = _ok_return_blocks(f)
    if not oks:
        return False, "the helper has no successful return"
    for r in oks:
        ok2, why2 = success_edge_dominates(f, ob, r, need_levels)
        if not ok2:
            return False, f"inside {last_seg(f.defp)} a successful return is reachable without passing the check ({why2})"
    cs = body.callsite[call_blk]
    if cs is None:
        return False, why
    ok3, why3 = succ_dom(prog, body, cs, site)
    return ok3, (f"checked inside {last_seg(f.defp)}, whose success edge dominates the site" if ok3 else
                 f"the result of {last_seg(f.defp)} (which contains the check) is not success-gated before the site: {why3}")


def aead_roles(prog):
    """(authenticator struct paths, nonce-generator struct paths), by role: an authenticator is a struct that owns the AEAD primitive
    (a field of the repo's cipher type, the enum that wraps the AEAD implementations) together with a nonce generator; the generator
    is the other workspace struct among its fields."""
    cipher = [it for it in prog.items if it["k"] == "enum" and last_seg(it["path"]) == "CipherMethod"]
    if not cipher:
        # renamed: the enum whose variants wrap AEAD implementations
        cipher = [it for it in prog.items if it["k"] == "enum" and sum(1 for v in it["variants"] if any("Gcm" in f[1] or "Poly1305" in f[1] for f in v["fields"])) >= 2]
    cnames = {last_seg(it["path"]) for it in cipher}
    structs = {last_seg(it["path"]): it for it in prog.items if it["k"] == "struct"}
    auths, gens = set(), set()
    for it in prog.items:
        if it["k"] != "struct" or "::test" in it["path"]:
            continue
        ftys = [fty for (_, fty) in it["fields"]]
        if any(any(re.search(r"\b" + re.escape(c) + r"\b", f) for c in cnames) for f in ftys):
            others = [structs[last_seg(f.split("<")[0])] for f in ftys if last_seg(f.split("<")[0]) in structs and last_seg(f.split("<")[0]) not in cnames]
            others = [o for o in others if o["path"].startswith("octo_squirrel")]
            if others:
                auths.add(it["path"])
                gens |= {o["path"] for o in others}
    return auths, gens


def bytes_equality_kind(prog, target):
    """Is the workspace function `target` an equality test of two byte strings? Returns
    'equality'  — a plain `==` inside, or an accumulate-OR of byte XORs compared with zero (constant-time compare);
    'not-equality' — it looks like a byte-wise compare but folds the differences with something that lets them cancel (XOR / ADD fold):
                     different inputs can compare equal;
    None — not a byte-compare helper."""
    b = prog.bodies.get(target)
    if b is None or b.local_ty(0) != "bool" or b.argc != 2:
        return None
    if not all("[u8" in b.local_ty(i) for i in (1, 2)):
        return None
    fam = prog.family(b.root)
    for fb in fam:
        if any(c.name in ("PartialEq::eq", "PartialEq::ne") for (_, c, _) in fb.calls()) and \
                not any(c.name.startswith(("BitXor", "BitOr")) for f2 in fam for (_, c, _) in f2.calls()) and \
                not any(s["k"] == "assign" and s["rv"]["k"] == "bin" and s["rv"]["op"] in ("BitXor", "BitOr") for f2 in fam for blk in f2.rpo() for s in f2.stmts(blk)):
            return "equality"
    xors, ors, folds_xor = 0, 0, 0
    for fb in fam:
        for (_, c_, _) in fb.calls():       # `u8 ^ &u8` is a trait call, not a MIR binary operation
            if c_.name in ("BitXor::bitxor", "BitXorAssign::bitxor_assign"):
                xors += 1
            elif c_.name in ("BitOr::bitor", "BitOrAssign::bitor_assign"):
                ors += 1
        for blk in fb.rpo():
            for s in fb.stmts(blk):
                if s["k"] == "assign" and s["rv"]["k"] == "bin":
                    op = s["rv"]["op"]
                    if op == "BitXor":
                        xors += 1
                    elif op == "BitOr":
                        ors += 1
    # `diff |= x ^ y`: one XOR per element pair and an OR accumulate; `diff ^= x ^ y` / `diff = diff ^ x ^ y`: XORs only
    if xors >= 1 and ors >= 1:
        return "equality"
    if xors >= 1 and ors == 0:
        return "not-equality"
    return None


# ---------------------------------------------------------------------------------------------------------------------
# process-wide single-slot state
ONCE_FILL = ("get_or_init", "get_or_try_init", "set", "try_insert", "get_mut_or_init", "get_or_insert_with", "get_or_insert", "insert", "replace")
TABLE_TYS = ("HashMap<", "BTreeMap<", "LruCache<", "DashMap<", "HashSet<", "BTreeSet<")
SLOT_TYS = ("OnceLock<", "OnceCell<", "LazyLock<", "LazyCell<", "Mutex<", "RwLock<", "ArcSwap<")


def listener_config_types(prog):
    """structs describing one configured listener / outbound: they carry the credential (`password`) of that entry"""
    return [it for it in prog.items if it["k"] == "struct" and any(n == "password" for (n, _) in it.get("fields", []))]


def single_slot_static_fills(prog):
    """A `static` that is not a keyed table holds ONE value for the whole process. A fill whose value derives from a parameter of the enclosing
    function is decided by whichever caller arrives first: every later flow / listener gets the first one's value.
    Returns [(static item, body, term, reason or None)] — reason None: the fill is a constant (no run-time input)."""
    out = []
    cfg_last = {last_seg(it["path"]) for it in listener_config_types(prog)}
    for it in prog.items:
        if it["k"] != "static" or "::test" in it["path"] or "::_" in it["path"]:
            continue
        ty = it["ty"]
        if not any(k in ty for k in SLOT_TYS) or any(k in ty for k in TABLE_TYS):
            continue
        for b in prog.prod_bodies():
            refs = set()
            for blk in b.rpo():
                for s in b.stmts(blk):
                    if s["k"] == "assign":
                        for o in b.operands_of_rvalue(s["rv"]):
                            c = op_const(o)
                            if c and c.get("static") == it["path"]:
                                refs.add(s["p"][0])
            if not refs:
                continue
            for (blk, c, t) in b.calls():
                if c.method not in ONCE_FILL or not t["args"]:
                    continue
                p0 = op_place(t["args"][0])
                if p0 is None:
                    continue
                src, _, consts = b.slice_back([p0[0]])
                if not (src & refs) and not any(k.get("static") == it["path"] for (_, k) in consts):
                    continue
                vals = []
                for a in t["args"][1:]:
                    p = op_place(a)
                    if p is not None:
                        vals.append(p[0])
                seen, calls, _ = b.slice_back(vals) if vals else (set(), [], [])
                params = sorted(l for l in seen if 1 <= l <= b.argc)
                reason = None
                if params:
                    rootb = prog.body(b.root) or b
                    ptys = [b.local_ty(l) for l in params]
                    cfgp = [pt for pt in ptys + [rootb.local_ty(i) for i in range(1, rootb.argc + 1)] if any(re.search(r"\b" + re.escape(n) + r"\b", pt) for n in cfg_last)]
                    what = f"a value of the configuration entry type ({cfgp[0][:60]})" if cfgp else f"parameter(s) {[b.local_name(l) or '_%d' % l for l in params]} of the enclosing function"
                    reason = (f"the single process-wide slot `{last_seg(it['path'])}` ({ty[:60]}) is filled from {what}: whichever listener / flow gets here first "
                              "decides the value every other one will use")
                out.append((it, b, t, reason))
    return out


def struct_of_type(prog, ty):
    """the workspace struct a (possibly borrowed / boxed / generic) type string names, or None"""
    t = ty.strip()
    while True:
        m = re.match(r"^(&(?:'\w+ )?(?:mut )?|\*(?:const|mut) )", t)
        if m:
            t = t[m.end():].strip()
            continue
        m = re.match(r"^(?:std::boxed::)?Box<(.*)>$", t)
        if m:
            t = m.group(1).strip()
            continue
        break
    head = last_seg(t.split("<")[0].strip())
    cands = [it for it in prog.items if it["k"] == "struct" and last_seg(it["path"]) == head]
    if len(cands) == 1:
        return cands[0]
    full = [it for it in cands if it["path"].endswith(t.split("<")[0].strip())]
    return full[0] if len(full) == 1 else None


def place_field_owners(prog, b, place):
    """[(struct item, field name)] for every field projection of a place, resolved through the struct table"""
    out = []
    cur = struct_of_type(prog, b.local_ty(place[0]))
    for e in place[1]:
        if e[0] == "field":
            name = e[2] if len(e) > 2 else None
            if cur is None or name is None:
                out.append((None, name))
                cur = None
                continue
            out.append((cur, name))
            fty = [ft for (fn, ft) in cur["fields"] if fn == name]
            cur = struct_of_type(prog, fty[0]) if fty else None
        elif e[0] == "downcast":
            cur = None
    return out


LOCK_METHODS = ("lock", "try_lock", "read", "write", "try_read", "try_write", "blocking_lock", "blocking_read", "blocking_write")


def is_lock_call(c):
    """acquisition of a Mutex / RwLock guard (std, tokio or parking_lot)"""
    return c.method in LOCK_METHODS and ("Mutex" in (c.self_s or "") or "RwLock" in (c.self_s or ""))


def relock_sites(prog):
    """A std / parking_lot Mutex (and the write side of an RwLock) is not re-entrant: a thread that acquires it again while it still holds a
    guard of the same lock blocks forever - and, holding the guard, blocks every other user of that lock with it. For every lock
    acquisition: the blocks reachable from it while the guard is alive (until the drop / StorageDead of the local that holds the guard;
    a guard that is a temporary of a `match` / `if let` scrutinee lives to the end of that statement), and in those blocks every call
    that acquires a lock of the same type again, directly or inside a workspace callee (flat view). Returns [(body, lock term, inner
    term, inner callee, how)]."""
    out = []
    for b in prog.prod_bodies():
        for (blk, c, t) in b.calls():
            if not is_lock_call(c) or "tokio::sync" in c.target or c.method.startswith("try_"):
                continue
            lock_ty = c.self_s
            carriers, _, _ = b.slice_fwd([t["dest"][0]])
            holders = {l for l in carriers if "Guard<" in b.local_ty(l) and "Result<" not in b.local_ty(l) and "&" not in b.local_ty(l)[:1]}
            if not holders:
                holders = {t["dest"][0]}
            ends = set()
            for x in b.rpo():
                tt = b.term(x)
                if tt and tt["k"] == "drop" and tt["p"][0] in holders and not tt["p"][1]:
                    ends.add(x)
                for s in b.stmts(x):
                    if s["k"] == "dead" and s["l"] in holders:
                        ends.add(x)
            if t["t"] is None:
                continue
            reach = b.reach_from(t["t"], avoid=frozenset(ends))
            for (blk2, c2, t2) in b.calls():
                if blk2 not in reach or blk2 == blk or blk2 in ends:
                    continue
                if is_lock_call(c2) and c2.self_s == lock_ty and not c2.method.startswith("try_"):
                    out.append((b, t, t2, c2, "directly"))
                    continue
                cb = prog.body(c2.target)
                if cb is None:
                    continue
                inner = [cc for (_, cc, _) in prog.flat(cb.defp).calls() if is_lock_call(cc) and cc.self_s == lock_ty and not cc.method.startswith("try_")]
                if inner:
                    out.append((b, t, t2, c2, f"inside {last_seg(cb.defp)}"))
    return out


def datagram_decoder_none_leaves_nothing(prog):
    """A decoder that reads *datagrams* (the codec of a `UdpFramed`) is called once per datagram through `decode_eof`, whose default body turns
    `Ok(None)` with bytes still in the buffer into an error of the whole stream ("bytes remaining on stream") - the reader's task ends. So
    such a decoder may answer `None` (drop this datagram) only with the buffer emptied, on every path - or it overrides `decode_eof`.
    Decided with the buffer-length interpreter, per path, where the answer is built. Returns [(decoder body, where, ok, detail)] and the
    number of datagram decoders found."""
    from . import c07
    an, _ = c07.analysis(prog)
    codecs = set()
    for b in prog.prod_bodies():
        for (_, c, _) in b.calls():
            if c.name == "UdpFramed::new" and c.args:
                codecs.add(re.sub(r"<.*$", "", c.args[0].get("s") or ""))
    rows, n = [], 0
    eof_impls = {d.impl_self_def for d in prog.methods_of_trait_impls("Decoder", "decode_eof")}
    for d in prog.methods_of_trait_impls("Decoder", "decode"):
        sd = d.impl_self_def or ""
        if not any(cn and (sd == cn or sd.endswith("::" + cn)) for cn in codecs):
            continue
        n += 1
        if sd in eof_impls:
            continue
        for ev in an.events.get(d.defp, []):
            if ev[1] != "none-leaves":
                continue
            for (i_, empty, ln) in ev[2]:
                rows.append((d, loc(ev[4]) if ev[4] else loc(d.sp), empty,
                             "the datagram's buffer is empty when the decoder answers None" if empty else
                             f"the decoder answers Ok(None) for a datagram while its buffer may still hold bytes (length {ln}): UdpFramed calls decode_eof, whose default turns "
                             "`None` with bytes remaining into an error of the stream - one dropped datagram (e.g. a replayed or stale packet id) ends the task that reads the socket"))
    return rows, n


def _moved_into_spawn(b, local):
    """the value (followed through plain moves / copies) is an argument of tokio::spawn"""
    carriers = {local}
    changed = True
    while changed:
        changed = False
        for blk in b.rpo():
            for s_ in b.stmts(blk):
                if s_["k"] == "assign" and s_["rv"]["k"] == "use" and not s_["p"][1]:
                    p = op_place(s_["rv"]["op"])
                    if p and not p[1] and p[0] in carriers and s_["p"][0] not in carriers:
                        carriers.add(s_["p"][0])
                        changed = True
    for (blk, c, t) in b.calls():
        if c.target.endswith("task::spawn::spawn") or c.target.endswith("task::spawn::spawn_local") or c.name.endswith("JoinSet::spawn"):
            if any(op_place(a) and not op_place(a)[1] and op_place(a)[0] in carriers for a in t["args"]):
                return True
    return False


def inline_family(prog, root):
    """the bodies of a function's family that run in the activation that calls it (and awaits it): the function, its own coroutine body, and
    nested closures / async blocks - except those whose value is handed to tokio::spawn (they run in a task of their own), and what is nested
    in those. Used where a rule asks what a call *makes its caller wait for*."""
    fam = prog.family(root)
    spawned = set()
    for fb in fam:
        for blk in fb.rpo():
            for s_ in fb.stmts(blk):
                if s_["k"] == "assign" and s_["rv"]["k"] == "agg" and s_["rv"].get("ak") in ("closure", "coroutine") and s_["rv"].get("def"):
                    if not s_["p"][1] and _moved_into_spawn(fb, s_["p"][0]):
                        spawned.add(s_["rv"]["def"])
    changed = True
    while changed:
        changed = False
        for fb in fam:
            if fb.defp not in spawned and getattr(fb, "parent", None) in spawned:
                spawned.add(fb.defp)
                changed = True
    return [fb for fb in fam if fb.defp not in spawned]


def inline_calls(prog, fb):
    """the calls of a body whose result is not handed to tokio::spawn (a future built by `f(x)` and spawned is not awaited here)"""
    return [(blk, c, t) for (blk, c, t) in fb.calls() if not _moved_into_spawn(fb, t["dest"][0])]


TAKES = ("StreamExt::next", "StreamExt::try_next", "TryStreamExt::try_next", "Receiver::recv", "UnboundedReceiver::recv", "AsyncReadExt::read", "AsyncReadExt::read_buf", "AsyncReadExt::read_exact", "UdpSocket::recv_from", "UdpSocket::recv")
GIVES = ("SinkExt::send", "SinkExt::feed", "SinkExt::send_all", "AsyncWriteExt::write_all", "AsyncWriteExt::write", "AsyncWriteExt::write_buf", "UdpSocket::send_to", "UdpSocket::send", "Sender::send")


def select_arms_carrying_data(prog):
    """`tokio::select!` polls its branch futures until ONE completes and drops the others. Inside a loop whose branch futures are created
    afresh on every iteration, a branch that *takes* an item from a source (`next`, `recv`, `read`) and then awaits *giving* it to a sink
    (`send`, `write_all`) loses that item whenever the other branch completes while it waits for the sink: the item was already taken out of
    the source and lives only in the dropped future. (Single primitives - `next()`, `recv()`, `accept()`, `tick()` - are cancel-safe; a compound
    future that carries data across an await is not.) Returns [(loop body, poll_fn term, arm callee name, take name, give name, where)]."""
    out, n_sel = [], 0
    for b in prog.prod_bodies():
        for (blk, c, t) in b.calls():
            if not c.target.endswith("future::poll_fn::poll_fn") or not t["args"]:
                continue
            lp = b.innermost_loop(blk)
            if lp is None:
                continue
            n_sel += 1
            p = op_place(t["args"][0])
            if p is None:
                continue
            locs, calls, _ = b.slice_back([p[0]])
            arms = []
            for (cb_, cc, ct) in calls:
                if cb_ not in lp[1]:
                    continue            # a future made once before the loop and polled by reference is resumed, not re-created
                tb = prog.body(cc.target)
                if tb is not None and cc.target.startswith("octo_squirrel"):
                    co = [fb for fb in prog.family(tb.root) if fb.defp != tb.defp and getattr(fb, "parent", None) == tb.defp]
                    arms += [(cc, ct, x) for x in co]
            for l_ in locs:
                for d in b.defs().get(l_, []):
                    if d[0] == "assign" and d[1] in lp[1] and d[3]["rv"]["k"] == "agg" and d[3]["rv"].get("ak") == "coroutine" and prog.body(d[3]["rv"].get("def")) is not None:
                        arms.append((None, {"sp": d[3].get("sp")}, prog.body(d[3]["rv"]["def"])))
            for (cc, ct, pb) in arms:
                fb = prog.flat(pb.defp)
                takes = [(x, y, z) for (x, y, z) in fb.calls() if y.name in TAKES]
                for (gb, gc, gt) in fb.calls():
                    if gc.name not in GIVES or len(gt["args"]) < 2:
                        continue
                    q = op_place(gt["args"][1])
                    if q is None:
                        continue
                    _, gcalls, _ = fb.slice_back([q[0]])
                    src = [y for (x, y, z) in gcalls if y.name in TAKES]
                    if src and takes:
                        out.append((b, t, (cc.name if cc is not None else "an async block"), src[0].name, gc.name, loc(ct["sp"]) if ct.get("sp") else loc(b.sp)))
                        break
    return out, n_sel


def biased_selects(prog):
    """`tokio::select!` starts polling its branches at a random one (`thread_rng_n`) unless it is `biased;`. A biased select in a loop that
    serves several flows polls a later branch only when every earlier one is idle: a steady load on an early branch (replies queued for some
    sessions) starves the later ones (datagrams of every other session) for as long as it lasts. Returns [(body, poll_fn term)] of biased
    selects inside loops, and the number of selects in loops."""
    out, n = [], 0
    for b in prog.prod_bodies():
        for (blk, c, t) in b.calls():
            if not c.target.endswith("future::poll_fn::poll_fn") or not t["args"] or b.innermost_loop(blk) is None:
                continue
            p = op_place(t["args"][0])
            clos = None
            for l_ in (b.slice_back([p[0]], stop_call=lambda c_: True)[0] if p else set()):
                for d in b.defs().get(l_, []):
                    if d[0] == "assign" and d[3]["rv"]["k"] == "agg" and d[3]["rv"].get("ak") == "closure":
                        clos = prog.body(d[3]["rv"].get("def"))
            if clos is None:
                continue
            polls = [cc for (_, cc, _) in clos.calls() if cc.name == "Future::poll"]
            if len(polls) < 2:
                continue
            n += 1
            if not any(cc.target.endswith("thread_rng_n") for (_, cc, _) in clos.calls()):
                # a per-flow task (an async block handed to tokio::spawn) may order its own two branches as it likes: it starves nobody else
                parent = prog.body(getattr(b, "parent", None) or "")
                per_flow = False
                if parent is not None:
                    for blk_ in parent.rpo():
                        for s_ in parent.stmts(blk_):
                            if s_["k"] == "assign" and s_["rv"]["k"] == "agg" and s_["rv"].get("def") == b.defp and not s_["p"][1] and _moved_into_spawn(parent, s_["p"][0]):
                                per_flow = True
                if not per_flow:
                    out.append((b, t, len(polls)))
    return out, n
