"""C08 — one failing or hostile flow never takes the service down for others (DESIGN.md 4/C08)."""
import re

from ..mir import Callee, last_seg, loc, op_place
from .common import gates_of_value

EXPLANATION = (
    "Service loops are found by role: the outermost loop of a body that awaits a listening source (TcpListener::accept, quinn Endpoint::accept) or that "
    "receives datagrams while owning a routing table (an LruCache local). L1: every edge that leaves a service loop is classified by the call that "
    "decides it: allowed causes are the listening source being finished (None from an endpoint / stream / owned channel) or the failure of an "
    "operation none of whose operands derive from a received connection or datagram (configuration-only, loop-invariant); a failure of an operation on "
    "per-flow data, or `while let Ok(_) = accept()`, must not leave the loop. L2: no per-flow handshake or dial (TLS accept, TCP/TLS/WebSocket/QUIC "
    "connect, and workspace functions whose summary contains one, including the instantiations of generic outbound constructors) is awaited in the "
    "loop's own task. L3: per-connection relay futures are handed to tokio::spawn.")
ASSUMPTIONS = ["that the canary flow actually succeeds, and exhaustion that is not an error return (a full bounded channel), are run-time facts",
               "panics inside the listener task are decided under C07 (P4/L4 cross-reference)"]

SOURCES = {"TcpListener::accept": "tcp-accept", "Endpoint::accept": "quic-accept", "UdpSocket::recv_from": "udp-recv", "StreamExt::next": "stream-next", "Receiver::recv": "chan-recv"}
DIAL_NAMES = ("TcpStream::connect", "TlsAcceptor::accept", "TlsConnector::connect", "ClientBuilder::connect_on", "ClientBuilder::connect", "ServerBuilder::accept", "Endpoint::connect", "Connection::open_bi")


def dial_summary(prog, memo, defp, depth=0):
    """does the function (family) contain a per-flow handshake / dial, transitively through workspace calls?"""
    if defp in memo:
        return memo[defp]
    memo[defp] = None
    res = None
    from .common import inline_family, inline_calls
    for fb in inline_family(prog, defp):          # what a caller that awaits this function waits for: not what it hands to tokio::spawn
        for (blk, c, t) in inline_calls(prog, fb):
            if c.name in DIAL_NAMES or (c.method in ("accept", "connect", "connect_on") and "tokio_websockets" in ((c.self_s or "") + " " + c.target)):
                res = c.name if c.name in DIAL_NAMES else f"WebSocket {c.method} ({c.name})"
                break
            if c.target.startswith("octo_squirrel") and depth < 6 and c.target != defp:
                sub = dial_summary(prog, memo, prog.bodies[c.target].root if c.target in prog.bodies else c.target, depth + 1)
                if sub:
                    res = f"{last_seg(c.target)} -> {sub}"
                    break
        if res:
            break
    memo[defp] = res
    return res


def run(ctx):
    prog = ctx.prog
    bodies = [b for b in prog.prod_bodies() if "::_" not in b.defp and "::test" not in b.defp]
    memo = {}
    service = []
    perflow = []
    for b0 in bodies:
        if not any(c.name in SOURCES for (_, c, _) in b0.calls()):
            continue
        # helpers of the same crate that the loop body calls are spliced in: an error that a helper propagates (`?`) out of the loop is
        # judged by what fails *inside* the helper; calls into other crates stay calls
        crate = b0.defp.split("::", 1)[0]
        b = prog.flat(b0.defp, stop=lambda cb, crate=crate: not cb.defp.startswith(crate + "::"), key="same-crate")
        srcs = [(blk, c, t) for (blk, c, t) in b.calls() if c.name in SOURCES and b.innermost_loop(blk) and b.origin[blk] == b0.defp]
        if not srcs:
            continue
        has_table = any("LruCache<" in l["ty"].get("s", "") and l.get("user") and not l["ty"]["s"].startswith("&") for l in b.locals)
        accepts = [x for x in srcs if x[1].name in ("TcpListener::accept", "Endpoint::accept")]
        dgram = [x for x in srcs if x[1].name in ("UdpSocket::recv_from", "StreamExt::next")]
        if accepts or (dgram and has_table):
            # outermost loop containing each source
            loops = {}
            for (blk, c, t) in (accepts or dgram):
                outer = None
                for h, body in b.loops():
                    if blk in body:
                        outer = (h, body)  # loops() is sorted by size: keep the largest
                loops[outer[0]] = (outer, c.name)
            for h, (lp, src) in loops.items():
                service.append((b, lp, src))
        elif dgram or any(x[1].name == "Receiver::recv" for x in srcs):
            perflow.append(b)
    ctx.floor("L1", "service loops (TCP/TLS/QUIC accept, server UDP, client TCP accept, client UDP)", 6, len(service))
    l6_sibling_listeners(ctx, bodies, {b_.root for (b_, _, _) in service})
    l4_no_panic_in_listener_task(ctx, service)
    l7_shared_lock_never_wedged(ctx)
    l9_counted_slots_are_released_on_every_exit(ctx)
    l10_no_peer_chosen_recursion_depth(ctx)
    ctx.floor("L1", "per-flow loops (association task, binding reply task, ...)", 1, len(perflow))
    for (b, (h, body), src) in service:
        src_results = set()
        for (blk, c, t) in b.calls():
            if c.name in SOURCES and blk in body:
                fwd, _, _ = b.slice_fwd([t["dest"][0]])
                src_results |= fwd
        exits = b.loop_exits(body)
        n_exit = 0
        seen_sw = set()
        for (x, y) in exits:
            t = b.term(x)
            ty = b.term(y)
            if ty is not None and ty["k"] == "unreachable":
                continue
            if not t or t["k"] != "switch" or (x, y) in seen_sw:
                continue
            seen_sw.add((x, y))
            n_exit += 1
            p = op_place(t["d"])
            causes = []
            if p is not None:
                causes = failure_causes(b, p[0])
            # `x.await?` where x is not the result of a call made here but a future that *arrived as data* from the loop's own
            # source (quinn's `Incoming`, a JoinHandle, ...): the exit is decided by that per-flow future, not by the source
            carried = _awaited_carried_future(b, p[0], src_results) if p is not None else None
            if carried is not None:
                leaving_vals = [v for v, tgt in t["arms"] if tgt == y] + (["otherwise"] if t["otherwise"] == y else [])
                ctx.ob("L1", b.defp, f"exit:{src}:await of `{carried}`", loc(t["sp"]), False,
                       f"the result of awaiting `{carried}` — a per-flow future handed out by {src} (e.g. a connection handshake) — leaves the service loop "
                       f"(`?`/break): one failing peer ends the service for all, and while it is pending nobody else is accepted")
                continue
            # which value of the switch leaves?
            leaving_vals = [v for v, tgt in t["arms"] if tgt == y] + (["otherwise"] if t["otherwise"] == y else [])
            # one obligation per distinct operation that can decide this exit (a spliced helper may propagate several)
            groups = {}
            for cz in causes:
                groups.setdefault(_shown(b, cz[1]), []).append(cz)
            if not groups:
                groups = {"?": []}
            for cname, cs_ in sorted(groups.items()):
                verdict, why = classify_exit(b, body, cs_, src_results, leaving_vals, t)
                ctx.ob("L1", b.defp, f"exit:{src}:{cname}", loc(cs_[0][2]["sp"] if cs_ and cs_[0][2].get("sp") else t["sp"]), verdict, why)
        ctx.floor("L1", f"classified exits of the {src} loop in {last_seg(b.root)}", 1, n_exit)
        # ---------------- L2 ---------------------------------------------------------------------
        for (blk, c, t) in b.calls():
            if blk not in body:
                continue
            if c.name == "IntoFuture::into_future":
                nm = _carried(b, t, src_results)
                # select!/join! expansions move their own branch futures out of a tuple: not user-written awaits
                if nm and not nm.startswith("_"):
                    ctx.ob("L2", b.defp, f"inline-handshake:await of `{nm}`", loc(t["sp"]), False,
                           f"`{nm}`, a per-flow future handed out by {src} (a connection handshake), is awaited in the listener's own task: "
                           f"one stalled peer blocks every other flow of this service loop")
                continue
            dial = None
            if c.name in DIAL_NAMES:
                dial = c.name
            elif c.target.startswith("octo_squirrel") and c.target in prog.bodies:
                dial = dial_summary(prog, memo, prog.bodies[c.target].root)
                if dial:
                    dial = f"{last_seg(c.target)} -> {dial}"
            elif "indirect" in c.f:
                nm = _callee_name(b, c)
                insts = _instantiations(prog, b.root, nm)
                hits = []
                for d in insts:
                    s = dial_summary(prog, memo, d)
                    if s:
                        hits.append(f"{d.split('::client::')[-1]} -> {s}")
                if hits:
                    dial = f"{nm} instantiated with " + "; ".join(sorted(hits)[:3]) + (" ..." if len(hits) > 3 else "")
            if dial is None and c.name == "AsyncFn::async_call":
                insts = _instantiations(prog, b.root, None)
                hits = []
                for d in insts:
                    s_ = dial_summary(prog, memo, d)
                    if s_:
                        hits.append(f"{d.split('::client::')[-1]} -> {s_}")
                if hits:
                    dial = "generic outbound constructor instantiated with " + "; ".join(sorted(hits)[:3]) + (" ..." if len(hits) > 3 else "")
            if dial is None:
                continue
            awaited = "IntoFuture::into_future" in _direct_consumers(b, t["dest"][0])
            if not awaited:
                continue
            # per-flow operand?
            locs = set()
            for a in t["args"]:
                p = op_place(a)
                if p:
                    locs |= b.slice_back([p[0]])[0]
            if not (locs & src_results) and c.name not in ("TlsAcceptor::accept",):
                continue
            ctx.ob("L2", b.defp, f"inline-handshake:{_shown(b, c)}", loc(t["sp"]), False,
                   f"a per-flow handshake/dial ({dial}) is awaited in the listener's own task: one stalled peer blocks every other flow of this service loop")
        # ---------------- L3 ---------------------------------------------------------------------
        for (blk, c, t) in b.calls():
            if blk in body and c.target.startswith("octo_squirrel") and _is_relay(prog, c.target):
                spawned = any(n.endswith("task::spawn::spawn") for n in _direct_consumers(b, t["dest"][0]))
                ctx.ob("L3", b.defp, f"relay-is-spawned:{last_seg(c.target)}", loc(t["sp"]), spawned, "the per-connection relay future is handed to tokio::spawn" if spawned else "the per-connection relay is awaited inside the accept loop")
    # ---------------- L5 process-wide containment ------------------------------------------------------
    # a panic in one flow's task is confined to that task by tokio — unless the process is told otherwise. Three constructs undo that for
    # every flow at once: a panic hook that can itself panic (a panic while panicking aborts the process), an explicit process exit/abort
    # in library code, and `panic = "abort"` in a Cargo profile.
    n_l5 = 0
    PANICKY = ("Option::unwrap", "Option::expect", "Result::unwrap", "Result::expect", "core::panicking::panic", "core::panicking::panic_fmt",
               "core::panicking::panic_display", "core::panicking::unreachable_display", "core::panicking::panic_explicit")
    for b in bodies:
        for (blk, c, t) in b.calls():
            if c.target.endswith("panic::set_hook") or c.target.endswith("panicking::set_hook"):
                n_l5 += 1
                clos = [a.get("d") for a in c.args if a.get("d") and "closure" in a.get("d", "")]
                # the hook closure is usually boxed first: take every closure defined in this function that takes the panic info
                hooks = [x for x in prog.family(b.root) if x.kind == "Closure" and any("PanicHookInfo" in l["ty"].get("s", "") or "PanicInfo" in l["ty"].get("s", "") for l in x.locals[:4])]
                bad = []
                for h in hooks:
                    fh = prog.flat(h.defp)
                    for (hb, hc, ht) in fh.calls():
                        if hc.name in PANICKY or hc.target in PANICKY:
                            bad.append(hc.name)
                    for hb in fh.rpo():
                        tt = fh.term(hb)
                        if tt and tt["k"] == "assert":
                            bad.append("assert(" + str(tt.get("msg"))[:20] + ")")
                ok = bool(hooks) and not bad
                ctx.ob("L5", b.defp, "panic-hook-cannot-panic", loc(t["sp"]), ok,
                       "the installed panic hook contains no panicking construct" if ok else
                       f"the process-wide panic hook can itself panic ({sorted(set(bad))[:4] if bad else 'hook body not found'}): a panic while panicking aborts the "
                       "process, so a panic that tokio would have confined to one flow's task takes every listener and flow down")
            if c.target in ("std::process::exit", "std::process::abort") and not b.defp.endswith("::main"):
                n_l5 += 1
                ctx.ob("L5", b.defp, f"process-{last_seg(c.target)}", loc(t["sp"]), False, f"{c.target} outside main: one code path ends every flow of the process")
    import os as _os
    repo_root = getattr(ctx, "repo", None)
    if repo_root:
        for root_, dirs_, files_ in _os.walk(repo_root):
            dirs_[:] = [d for d in dirs_ if d not in (".git", "target")]
            for f_ in files_:
                if f_ == "Cargo.toml" or (f_ == "config.toml" and root_.endswith(".cargo")):
                    try:
                        txt = open(_os.path.join(root_, f_)).read()
                    except OSError:
                        continue
                    n_l5 += 1
                    m_ = re.search(r'^\s*panic\s*=\s*"abort"', txt, re.M)
                    if m_:
                        ctx.ob("L5", _os.path.relpath(_os.path.join(root_, f_), repo_root), "panic-strategy-is-unwind", _os.path.relpath(_os.path.join(root_, f_), repo_root), False,
                               'a build profile sets panic = "abort": a panic in one flow\'s task ends the whole process instead of that task', ordinal=False)
    ctx.note(f"L5: {n_l5} process-wide constructs inspected")

    n_spawn = sum(1 for b in bodies for (_, c, _) in b.calls() if c.target.endswith("task::spawn::spawn"))
    ctx.floor("L3", "tokio::spawn sites", 6, n_spawn)


CAUSE_PASS = ("Try::branch", "Result::map_err", "IntoFuture::into_future", "Future::poll", "Pin::new_unchecked", "core::future::get_context", "Pin::new",
              "FromResidual::from_residual", "Result::map", "Into::into", "From::from")


def failure_causes(b, local):
    """the fallible operations whose failure can be the value tested at a loop exit: a backward walk that goes through `?` plumbing and
    through the return of a spliced helper, follows the *error* route (residuals) and does not enter success values (`Ok(..)` / `Some(..)`
    aggregates are not causes of a failure)"""
    defs = b.defs()
    seen, out, work = set(), [], [local]
    while work:
        l = work.pop()
        if l in seen:
            continue
        seen.add(l)
        ds = defs.get(l, [])
        spliced = {id(d[2]) for d in ds if d[0] == "call" and len(d) > 3}
        for d in ds:
            if d[0] == "assign":
                rv = d[3]["rv"]
                if rv["k"] == "agg" and rv.get("variant") in ("Ok", "Some"):
                    continue
                for op in b.operands_of_rvalue(rv):
                    q = op_place(op)
                    if q is not None:
                        work.append(q[0])
            elif d[0] == "call":
                t = d[2]
                c = Callee(t["f"])
                if len(d) > 3:
                    continue      # a spliced call: its body is walked through the return assignment instead
                if c.name in CAUSE_PASS:
                    for a in t["args"]:
                        q = op_place(a)
                        if q is not None:
                            work.append(q[0])
                else:
                    out.append((d[1], c, t))
    return out


def _is_relay(prog, target):
    from .c01 import _relay_kind
    return _relay_kind(prog, target) is not None


def classify_exit(b, body, causes, src_results, leaving_vals, t):
    if not causes:
        return False, "UNCLASSIFIED-EXIT: cannot determine what decides this exit of a service loop"
    (cb, c, ct) = causes[0]
    nm = c.name
    if nm in ("Endpoint::accept", "StreamExt::next", "Receiver::recv"):
        return True, f"the loop ends when its own listening source is finished ({nm} returned None)"
    if nm == "core::future::poll_fn::poll_fn":
        # output of a select!: which value is being tested?
        p = op_place(t["d"])
        kind = "other"
        for d in b.defs().get(p[0], []) if p else []:
            if d[0] == "assign" and d[3]["rv"]["k"] == "discr":
                from .common import _place_kind
                kind = _place_kind(b, d[3]["rv"]["p"])
        if kind == "result" and 1 in leaving_vals:
            return False, "an Err from the listening socket itself leaves the service loop"
        if kind == "result" and "otherwise" in leaving_vals:
            return False, "a non-Ok result of the listening socket leaves the service loop"
        return True, "select! exhausted / a listening source returned None: the loop ends only when its own sources are finished"
    if nm == "TcpListener::accept":
        return False, "`while let Ok(_) = listener.accept().await`: a single accept error (e.g. EMFILE / ECONNABORTED) ends the listener for everyone"
    # operands per-flow?
    locs = set()
    for a in ct["args"]:
        p = op_place(a)
        if p:
            locs |= b.slice_back([p[0]])[0]
    shown = _shown(b, c)
    if locs & src_results:
        return False, f"failure of `{shown}` — an operation on a received connection/datagram — propagates out of the service loop (`?`/break): one bad flow ends the service for all"
    return True, f"exit caused by `{shown}` whose operands are loop-invariant (configuration): not a per-flow fault"


PASS_AWAIT = ("Try::branch", "Result::map_err", "Future::poll", "Pin::new_unchecked", "core::future::get_context", "Pin::new")


def _carried(b, ct, src_results):
    """`ct` is an IntoFuture::into_future call: name of the awaited future if it was moved out of data deriving from the loop's source"""
    if not ct["args"]:
        return None
    pl = op_place(ct["args"][0])
    if pl is None:
        return None
    cur = pl[0]
    seen = set()
    while cur not in seen:
        seen.add(cur)
        ds = b.defs().get(cur, [])
        if any(d[0] == "call" for d in ds):
            return None
        nxt = None
        for d in ds:
            if d[0] == "assign" and d[3]["rv"]["k"] in ("use", "cast"):
                q = op_place(d[3]["rv"].get("op"))
                if q is not None:
                    nxt = q
        if nxt is None:
            return None
        if nxt[1]:      # moved out of a field / enum payload: carried as data
            if nxt[0] in src_results or cur in src_results:
                return b.local_name(pl[0]) or b.local_name(cur) or f"_{pl[0]}"
            return None
        cur = nxt[0]
    return None


def _awaited_carried_future(b, local, src_results):
    """If the value tested derives from polling a future that was not created by a call in this body but moved out of data that
    derives from the loop's source, return a display name for that future; else None."""
    _, calls, _ = b.slice_back([local], stop_call=lambda cc: cc.name not in PASS_AWAIT)
    for (cb, cc, ct) in calls:
        if cc.name == "IntoFuture::into_future":
            nm = _carried(b, ct, src_results)
            if nm:
                return nm
    return None


def _direct_consumers(b, local):
    """names of the calls that take the value (followed through plain moves/copies only) as an argument"""
    carriers = {local}
    changed = True
    while changed:
        changed = False
        for blk in b.rpo():
            for s_ in b.stmts(blk):
                if s_["k"] == "assign" and s_["rv"]["k"] == "use" and not s_["p"][1]:
                    p = op_place(s_["rv"]["op"])
                    if p and not p[1] and p[0] in carriers and s_["p"][0] not in carriers:
                        carriers.add(s_["p"][0])
                        changed = True
    out = set()
    for (blk, c, t) in b.calls():
        for a in t["args"]:
            p = op_place(a)
            if p and not p[1] and p[0] in carriers:
                out.add(c.name if c.name != c.path else c.target)
                out.add(c.target)
    return out


def _shown(b, c):
    if "indirect" in c.f:
        return "call of " + (_callee_name(b, c) or "a function value")
    if c.name == "AsyncFn::async_call" and c.args:
        return "call of the generic constructor " + c.args[0].get("s", "?")
    return c.name


def _callee_name(b, c):
    p = op_place(c.f["indirect"])
    if p is None:
        return None
    seen = set()
    work = [p]
    while work:
        q = work.pop()
        if (q[0], str(q[1])) in seen:
            continue
        seen.add((q[0], str(q[1])))
        n = b.local_name(q[0]) if not q[1] else None
        if n:
            return n
        u = b.upvar_name(q)
        if u:
            return u
        for d in b.defs().get(q[0], []):
            if d[0] == "assign":
                rv = d[3]["rv"]
                pp = rv.get("p") if rv["k"] == "ref" else (op_place(rv.get("op")) if rv["k"] == "use" else None)
                if pp:
                    work.append(pp)
    return None


def _instantiations(prog, root, param_name):
    """FnDef generic arguments passed for `root`'s generic function parameters at its call sites (all of them: we cannot tell which one is `param_name`)"""
    out = set()
    for b in prog.prod_bodies():
        for (blk, c, t) in b.calls():
            if c.target == root:
                for a in c.args:
                    d = a.get("d")
                    if d and d in prog.bodies and "new_" in d and "outbound" in d:
                        out.add(d)
    return sorted(out)


def l6_sibling_listeners(ctx, bodies, service_roots):
    """L6: the listeners of one configuration entry (TCP accept loop, datagram loop, QUIC endpoint) are siblings: where a function drives two of
    them in one task, the end of one must not cancel the other. `join!` lets the survivor run on; `try_join!` and `select!` drop it together with
    its listening socket the moment the other returns (an error that one hostile datagram can cause then also ends TCP service)."""
    prog = ctx.prog
    memo = {}

    def reaches(target, depth=0):
        tb = prog.body(target)
        if tb is None:
            return False
        r = tb.root
        if r in service_roots:
            return True
        if r in memo:
            return memo[r]
        memo[r] = False
        if depth < 3:
            for fb in prog.family(r):
                for (_, c, _) in fb.calls():
                    if c.target.startswith("octo_squirrel") and reaches(c.target, depth + 1):
                        memo[r] = True
                        return True
        return memo[r]

    n = 0
    roots = sorted({b.root for b in bodies})
    for r in roots:
        if r in service_roots:
            continue
        fam = prog.family(r)
        callees = {}
        for fb in fam:
            for (blk, c, t) in fb.calls():
                if c.target.startswith("octo_squirrel") and prog.body(c.target) is not None and prog.body(c.target).root != r and reaches(c.target):
                    callees.setdefault(prog.body(c.target).root, t)
        if len(callees) < 2:
            continue
        joiners = [fb for fb in fam if sum(1 for (_, c, _) in fb.calls() if c.name == "MaybeDone::take_output") >= 2]
        tryj = [fb for fb in joiners if any(c.name == "Result::is_err" for (_, c, _) in fb.calls())]
        # tokio::select! leaves a `BRANCHES` constant next to the futures it races; the race is over service loops when the body that holds it
        # creates their futures itself
        selectors = [fb for fb in fam if prog.body(fb.defp + "::BRANCHES") is not None or any(x.defp == fb.defp + "::BRANCHES" for x in prog.prod_bodies() if x.defp.startswith(fb.defp))]
        selectors = [fb for fb in selectors if len({prog.body(c.target).root for (_, c, _) in fb.calls() if prog.body(c.target) is not None and prog.body(c.target).root in callees}) >= 2]
        if not joiners and not selectors:
            continue
        n += 1
        names = sorted(last_seg(x) for x in callees)
        bad = tryj or selectors
        ctx.ob("L6", r, "sibling-listeners-survive-each-other", loc(prog.body(r).sp), not bad,
               f"the listeners {names} are driven with join!: each runs until it ends by itself" if not bad else
               f"the listeners {names} are driven with {'try_join!' if tryj else 'select!'}: when one of them returns (the datagram loop propagates per-flow errors with `?`) the "
               "other is dropped with its listening socket — one failing flow on one transport ends the service on the other", ordinal=False)
    ctx.ob("L6", "workspace", "sibling-listener-joins-inventoried", "-", True, f"{n} function(s) drive two or more service loops in one task", nontrivial=False, ordinal=False)


def l4_no_panic_in_listener_task(ctx, service):
    """L4: what a service loop executes in its OWN task (not in a spawned per-flow task) on data that arrived from the network must not be able
    to panic: the panic unwinds the listener task and the listening socket goes with it. C07's panic-site obligations (P2) are re-evaluated for
    the functions that the loop bodies call synchronously."""
    from ..engine import Ctx
    from . import c07
    prog = ctx.prog
    inline_fns = set()
    for (b, (h, body), src) in service:
        work = []
        for blk in body:
            t = b.call_term(blk) if hasattr(b, "call_term") else None
            t = t or b.term(blk)
            if t and t.get("k") == "call":
                work.append(Callee(t["f"]).target)
            for o in {b.origin[blk]} if getattr(b, "origin", None) else set():
                inline_fns.add(prog.body(o).defp if prog.body(o) is not None else o)
        seen = set()
        depth = {w: 0 for w in work}
        while work:
            tg = work.pop()
            if tg in seen:
                continue
            seen.add(tg)
            tb = prog.body(tg)
            if tb is None or not tg.startswith("octo_squirrel"):
                continue
            if tb.j.get("asyncness") or tb.kind in ("Closure",) and "{closure" in tb.defp and False:
                pass
            inline_fns.add(tb.defp)
            if depth.get(tg, 0) >= 6:
                continue
            for (_, c2, t2) in tb.calls():
                if c2.target.endswith("task::spawn::spawn"):
                    continue
                if c2.target not in seen:
                    depth[c2.target] = depth.get(tg, 0) + 1
                    work.append(c2.target)
    sub = Ctx(prog, "C07", ctx.tier)
    c07.run(sub)
    # C07's own reviewed-safe list is matched the way C07 matches it: a site whose function was renamed (or whose ordinal shifted) is the same
    # reviewed site at a new place (relocation, with the entry's premise re-evaluated) - not a new panic site of the listener task
    from ..engine import relocate
    _unlisted = [o for o in sub.obs if o.verdict == "violation"]
    relocate(sub, _unlisted, {}, set())
    n = 0
    disp = {prog.display(f): f for f in inline_fns}
    for o in sub.obs:
        if o.rule != "P2":
            continue
        parts = o.key.split("|")
        if parts[1] not in disp:
            continue
        n += 1
        if o.ok or o.verdict == "reviewed-safe":
            continue
        ctx.ob("L4", parts[1], "no-panic-in-listener-task:" + parts[2], o.where, False,
               "executed by a listener loop in its own task on received data: " + o.detail[:300])
    ctx.ob("L4", "workspace", "listener-task-panic-sites-inventoried", "-", True, f"{n} panic-site obligations (C07 P2) lie in functions that the service loops call in their own task; {len(inline_fns)} such functions", nontrivial=False, ordinal=False)
    ctx.floor("L4", "panic-site obligations in listener-task code", 5, n)


def l7_shared_lock_never_wedged(ctx):
    """L7 (= C09 K9): state shared by all flows of a listener (the replay cache behind its mutex) must stay usable whatever one flow does. A flow
    that re-acquires a non-re-entrant lock while it still holds a guard of it blocks its worker thread forever *with the guard held*: every
    later flow that needs the shared state blocks behind it, one worker each, until the runtime has none left."""
    from .common import relock_sites, is_lock_call
    prog = ctx.prog
    n = sum(1 for b in prog.prod_bodies() for (_, c, _) in b.calls() if is_lock_call(c) and "tokio::sync" not in c.target)
    ctx.floor("L7", "blocking lock acquisitions on shared state", 1, n)
    for (b, t, t2, c2, how) in relock_sites(prog):
        ctx.ob("L7", b.defp, f"shared-lock-never-wedged:{c2.method}", loc(t2["sp"]), False,
               f"`{c2.name}` takes the lock again {how} while the guard acquired at {loc(t['sp'])} is alive: a self-deadlock with the guard held; one flow that reaches this "
               "path parks its worker for good and every later flow that touches the same shared state parks behind it")
    ctx.ob("L7", "workspace", "scan", "-", True, f"{n} blocking lock acquisitions scanned", nontrivial=False, ordinal=False)


def l9_counted_slots_are_released_on_every_exit(ctx):
    """L9: a service that admits flows against a shared counter (an atomic incremented per accepted flow, decremented when the flow is done, compared
    with a bound in the accept loop) must give the slot back on *every* way out of the flow's task. A return that skips the decrement - a
    failed handshake, an early `return` - leaks one slot per such flow; once the bound's worth of them has accumulated the listener refuses
    everybody, for ever. Pairing rule on the task body that owns the decrement: from its entry, no return is reachable without passing a
    release (`fetch_sub` / `fetch_add` of a negative / `store`) of that counter."""
    from .common import _moved_into_spawn
    prog = ctx.prog
    n = 0
    for b in prog.prod_bodies():
        rel = [blk for (blk, c, t) in b.calls() if c.method == "fetch_sub" and "Atomic" in ((c.self_s or "") + c.target)]
        if not rel:
            continue
        # only the body of a spawned task: the slot belongs to the task's lifetime (a helper or a Drop impl that decrements is not a task)
        parent = prog.body(getattr(b, "parent", None) or "")
        spawned = False
        if parent is not None:
            for blk_ in parent.rpo():
                for s_ in parent.stmts(blk_):
                    if s_["k"] == "assign" and s_["rv"]["k"] == "agg" and s_["rv"].get("def") == b.defp and not s_["p"][1] and _moved_into_spawn(parent, s_["p"][0]):
                        spawned = True
        if not spawned:
            continue
        n += 1
        rets = set(b.return_blocks())
        reach = b.reach_from(0, avoid=frozenset(rel))
        bad = sorted(x for x in reach if x in rets)
        t0 = b.call_term(rel[0]) if hasattr(b, "call_term") else b.term(rel[0])
        ctx.ob("L9", b.defp, "counted-slot-released-on-every-exit", loc((t0 or {}).get("sp") or b.sp), not bad,
               "every return of the task passes the decrement of the admission counter" if not bad else
               "this task gives its slot of a shared admission counter back with `fetch_sub`, but it can return without passing it (an early return on a failed step): each such "
               "flow leaks one slot, and when as many have accumulated as the bound allows the accept loop refuses every new connection - one kind of failing flow takes the "
               "service down for all others")
    ctx.ob("L9", "workspace", "scan", "-", True, f"{n} task bodies release a counted slot", nontrivial=False, ordinal=False)


def l10_no_peer_chosen_recursion_depth(ctx):
    """L10: a stack overflow is not a panic - it aborts the process, every listener and every flow with it. A `poll_*` function that calls itself for
    every transport message that yields no item lets one peer choose the recursion depth (C07 P4 re-evaluated: there it is a crash of the flow, here
    it is the outage of the service for everybody)."""
    prog = ctx.prog
    n = 0
    for b in prog.prod_bodies():
        if b.root != b.defp or not (b.method or "").startswith("poll_") or not b.impl_trait:
            continue
        n += 1
        fb = prog.flat(b.defp)
        for (blk, c, t) in fb.calls():
            if prog.body(c.target) is not None and prog.body(c.target).defp == b.defp and "inlined_call" not in t:
                ctx.ob("L10", b.defp, "poll-fn-does-not-recurse", loc(t["sp"]), False,
                       f"`{last_seg(b.defp)}` calls itself to go round again: the depth is chosen by the peer (a burst of messages that complete no item) and overflowing a worker's stack "
                       "aborts the whole process - one connection without credentials takes every listener down")
    ctx.floor("L10", "poll_* functions of trait impls scanned for self-recursion", 5, n)
