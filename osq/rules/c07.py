"""C07 — no input from the network can crash a task or the process (DESIGN.md 4/C07)."""
from ..mir import Callee, last_seg, loc, op_const, op_place
from .. import bla

EXPLANATION = (
    "Scope: everything the buffer-length abstract interpreter (osq/bla.py) reaches by inlining from the network-facing entry points found by role — every "
    "impl of tokio_util::codec::Decoder::decode, every impl of futures::Stream::poll_next, the closures nested in the functions reached, and the client's "
    "local-handshake functions. P1 every construct there that can panic is an obligation: consuming Buf reads (get_*, advance, split_to/off, copy_to_*), "
    "split_at, slice / str range indexing, Assert(BoundsCheck), unsigned subtraction underflow, copy_from_slice / GenericArray::from_slice length "
    "equality, Option/Result unwrap/expect (also passed as a function value), explicit panic!/unreachable!. P2 an obligation is discharged when it "
    "follows from the symbolic buffer lengths and the branch conditions on the path (linear reasoning over non-negative symbols; per calling "
    "context, all contexts must agree), is listed as reviewed-safe with its reason, or is a known finding; an AEAD open does not discharge reads of "
    "the opened buffer. P3 decoder-reachable unsafe operations on wire data: from_utf8_unchecked, pointer casts that raise alignment before a read.")
ASSUMPTIONS = ["panics inside third-party crates on inputs our guards admit are outside the workspace (their documented contracts are trusted)",
               "signed/add arithmetic overflow panics exist only in overflow-checks (debug) builds and are recorded, not counted",
               "precision bound: linear reasoning with at most two hypotheses; unproven is reported, never assumed"]

_CACHE = {}


def entries(prog):
    es = list(prog.methods_of_trait_impls("Decoder", "decode")) + list(prog.methods_of_trait_impls("Stream", "poll_next"))
    for b in prog.prod_bodies():
        if b.defp.startswith("octo_squirrel_client::client::handshake::recognize") or "socks5::handshake::" in b.defp:
            if b not in es and b.kind != "Fn" or b.defp.endswith("recognize_http"):
                es.append(b)
    seen = set()
    out = []
    for b in es:
        if b.defp not in seen:
            seen.add(b.defp)
            out.append(b)
    return out


def analysis(prog):
    key = id(prog)
    if key in _CACHE:
        return _CACHE[key]
    an = bla.Analysis(prog, max_depth=8)
    es = entries(prog)
    for b in es:
        an.analyse_entry(b)
    # closures nested in visited functions are analysed as entries of their own (captured state unknown)
    done = {b.defp for b in es}
    changed = True
    while changed:
        changed = False
        for f in sorted(an.visited_fns):
            for cb in prog.family(prog.bodies[f].root) if f in prog.bodies else []:
                if cb.defp not in done and cb.defp != cb.root and cb.kind == "Closure" and not prog.is_test_body(cb):
                    done.add(cb.defp)
                    an.analyse_entry(cb)
                    changed = True
    _CACHE[key] = (an, es)
    return an, es


def site_rows(prog, an):
    """[(fn, kind, ordinal, site)] with ordinals assigned in block order per (fn, kind)"""
    rows = []
    per = {}
    for (fn, blk, kind, idx), s in sorted(an.sites.items(), key=lambda kv: (kv[0][0], kv[0][2], kv[0][1], kv[0][3])):
        n = per.get((fn, kind), 0)
        per[(fn, kind)] = n + 1
        rows.append((fn, kind, n, s))
    return rows


def run(ctx):
    prog = ctx.prog
    an, es = analysis(prog)
    ctx.floor("P1", "network-facing entry points (Decoder impls, Stream impls, local handshake)", 17, len(es))
    ctx.floor("P1", "functions reached from the entry points", 90, len(an.visited_fns))
    n = 0
    for (fn, kind, ordn, s) in site_rows(prog, an):
        if kind in ("add-overflow", "div-zero", "signed-overflow"):
            continue
        n += 1
        bad = [r for r in s.results if not r[0]]
        ok = not bad
        detail = (s.results[0][1] if ok else bad[0][1] + f"  [calling context: {bad[0][2]}]")[:600]
        o = ctx.ob("P2", fn, f"{kind}", s.where, ok, detail + (f" ({len(s.results)} context(s))" if ok else f" ({len(bad)} of {len(s.results)} context(s) unproven)"))
    ctx.floor("P1", "panic-site obligations in the decoder-reachable set", 150, n)
    from .common import import_length_predictor_agreement
    import_length_predictor_agreement(ctx, "P2g")
    # P4 a `poll_*` function must loop, not call itself: how often it goes round before an item or `Pending` appears is decided by the peer
    # (control frames, empty frames, messages that complete no frame), so the recursion depth - and with it the stack - is the peer's to choose;
    # a stack overflow aborts the whole process, not just the flow's task
    n_poll = 0
    for b in prog.prod_bodies():
        if b.root != b.defp or not (b.method or "").startswith("poll_") or not b.impl_trait:
            continue
        n_poll += 1
        fb = prog.flat(b.defp)
        rec = [(blk, c, t) for (blk, c, t) in fb.calls() if prog.body(c.target) is not None and prog.body(c.target).defp == b.defp and "inlined_call" not in t]
        for (blk, c, t) in rec:
            ctx.ob("P2", b.defp, "poll-fn-does-not-recurse", loc(t["sp"]), False,
                   f"`{last_seg(b.defp)}` calls itself to go round again: every transport message that yields no item costs one stack frame, the depth is chosen by the peer (a burst of "
                   "payload-less frames), and overflowing the worker's stack aborts the process")
    ctx.floor("P1", "poll_* functions of trait impls scanned for self-recursion", 5, n_poll)
    # unwrap/expect passed as a function value
    for b in prog.prod_bodies():
        if b.defp not in an.visited_fns and not ("handshake" in b.defp):
            continue
        for (blk, c, t) in b.calls():
            for a in t["args"]:
                k = op_const(a)
                if k and "fn" in k:
                    cc = Callee(k["fn"])
                    if cc.name in ("Option::unwrap", "Option::expect", "Result::unwrap", "Result::expect"):
                        ctx.ob("P2", b.defp, f"unwrap-as-fn-value:{cc.name}", loc(t["sp"]), False,
                               f"`{cc.name}` is applied to every item of a stream/future ({c.name}): end-of-stream (None) or an early close panics the task")
    # P2c `str` slices must cut at char boundaries: slicing a &str at a byte offset that is not a boundary panics, and a length guard
    # does not help. A bound is a boundary when it comes from a search on a string (find / rfind / len / char_indices ..) or is 0;
    # a bare constant, or arithmetic that does not involve such a search, is not known to be one (`path[..7]` on "/wiki/\u{dc}nal").
    from ..engine import premise_str_index_from_search
    n_str = 0
    for b in prog.prod_bodies():
        if b.defp not in an.visited_fns and "handshake" not in b.defp:
            continue
        lines = set()
        for (blk, c, t) in b.calls():
            if c.method in ("index", "index_mut", "split_at") and "core::str" in c.target and t.get("sp") and len(t["args"]) >= 2:
                lines.add((t["sp"][0], t["sp"][1]))
        for (f_, ln) in sorted(lines):
            n_str += 1
            ok = premise_str_index_from_search(prog, b.defp, f"{f_}:{ln}")
            ctx.ob("P2", b.defp, "str-slice-at-char-boundary", f"{f_}:{ln}", ok,
                   "the bounds of this &str slice come from a search on a string (a char boundary)" if ok else
                   "a &str is sliced at an offset that is not known to be a char boundary (a constant or computed byte offset): a multi-byte character across that "
                   "offset makes the slice panic, whatever the length check says")
    ctx.floor("P1", "&str slice sites in network-facing code", 5, n_str)
    # P3 unsafe operations on wire data
    for b in prog.prod_bodies():
        if b.defp not in an.visited_fns:
            continue
        for (blk, c, t) in b.calls():
            if c.method == "from_utf8_unchecked":
                ctx.ob("P3", b.defp, "from_utf8_unchecked", loc(t["sp"]), False, "bytes taken from the network are turned into str/String without validation (later str operations are undefined behaviour / panic on non-UTF-8)")
            if c.target.endswith("slice::raw::from_raw_parts") and c.args and c.args[0].get("s") in ("u64", "u32", "u16", "u128"):
                ctx.ob("P3", b.defp, f"unaligned-read:{c.args[0].get('s')}", loc(t["sp"]), False,
                       f"a `&[{c.args[0].get('s')}]` is materialised from a byte pointer of arbitrary alignment (undefined behaviour; use from_be_bytes on a copied array)")
