"""C11 — each UDP packet ID is accepted at most once (use-site clauses + constant relations; DESIGN.md 4/C11)."""
import re

from ..mir import Callee, last_seg, loc, op_int, op_place
from .common import gates_of_value, returns_variant, ok_some_blocks, const_cmp_of_switch

EXPLANATION = (
    "F1 every forward of a client datagram (server association task) / every accepting return (client datagram decoder) is dominated "
    "by the accept edge of the replay filter applied to that datagram's packet id. F2 the filter's refusal edge must drop the packet "
    "only: it must not reach an exit of the per-session loop nor an Err return. F3 the filter is a plain field of the per-session "
    "object (never static / Arc / Mutex-shared), constructed fresh with it, and called with a constant limit. F4 constant relations "
    "inside the filter: ring length L (from the array type), shifts S, masks L-1 and 2^S-1, window = (L-1)*2^S = 8128, the forward-jump "
    "clamp equals L, the limit test comes first, the verdict is old != new. F5 the table that owns the per-session objects holding a filter is keyed by the "
    "type of Session::client_session_id alone (one filter per authenticated session id, whatever address a datagram comes from). "
    "These are necessary conditions, not a proof of the bitmap.")
ASSUMPTIONS = ["the sliding-window bitmap's answer for all ID histories is NOT decided (needs model checking / proof; out of this technique family)"]


def _first_generic(ty):
    """first generic argument of `Name<A, B, ..>` (top-level comma split)"""
    i = ty.find("<")
    if i < 0:
        return ""
    depth = 0
    start = i + 1
    for j in range(i, len(ty)):
        ch = ty[j]
        if ch in "<([":
            depth += 1
        elif ch in ">)]":
            depth -= 1
            if depth == 0:
                return ty[start:j].strip()
        elif ch == "," and depth == 1:
            return ty[start:j].strip()
    return ""


def _shallow_components(b, local, depth=0):
    """what a key value is made of, following only moves, copies, references and tuples: names of the fields it is read from"""
    out = []
    if depth > 8:
        return ["?"]
    ds = b.defs().get(local, [])
    if not ds:
        return [f"_{local}" if local > b.argc else f"arg{local}"]
    for d in ds:
        if d[0] != "assign":
            out.append("call-result")
            continue
        rv = d[3]["rv"]
        if rv["k"] in ("use", "cast"):
            q = op_place(rv.get("op"))
            if q is None:
                out.append("constant")
            else:
                fields = [str(e[2] if e[2] is not None else e[1]) for e in q[1] if e[0] == "field" and len(e) > 2]
                if fields:
                    out.append(fields[-1])
                else:
                    out += _shallow_components(b, q[0], depth + 1)
        elif rv["k"] == "ref":
            q = rv["p"]
            fields = [str(e[2] if e[2] is not None else e[1]) for e in q[1] if e[0] == "field" and len(e) > 2]
            if fields:
                out.append(fields[-1])
            else:
                out += _shallow_components(b, q[0], depth + 1)
        elif rv["k"] == "agg":
            for o in rv["ops"]:
                q = op_place(o)
                out += _shallow_components(b, q[0], depth + 1) if q is not None else ["constant"]
        else:
            out.append(rv["k"])
    return sorted(set(out))


def filter_type(prog):
    """the replay window type, by role: a struct with a ring of u64 words (`[u64; N]`) and a u64 high-water mark (whatever it is called,
    wherever it lives). Returns (def path, last segment)."""
    c = [it for it in prog.items if it["k"] == "struct" and any(re.match(r"^\[u64; .+\]$", fty.strip()) for (_, fty) in it["fields"])
         and any(fty.strip() == "u64" for (_, fty) in it["fields"]) and "::test" not in it["path"]]
    named = [it for it in c if last_seg(it["path"]) == "PacketWindowFilter"]
    it = (named or c or [None])[0]
    return (it["path"], last_seg(it["path"])) if it else (None, "PacketWindowFilter")


def filter_fn(prog):
    """the replay filter's verdict function, by role: the public method of the window-filter type that takes ids and returns bool"""
    fpath, fname = filter_type(prog)
    c = [b for b in prog.prod_bodies() if (b.impl_self_def or "") == fpath and b.root == b.defp and b.local_ty(0) == "bool"
         and b.argc >= 2 and b.local_ty(2) == "u64"]
    pub = [b for b in c if b.j.get("vis") == "Public"]
    return pub or c


def filter_roles(prog):
    """(filter function paths, wrapper paths): wrappers are workspace functions that only forward to the filter and return its bool"""
    ff = filter_fn(prog)
    wrappers = set()
    fpaths = {b.defp for b in ff}
    for b in prog.prod_bodies():
        if b.defp in fpaths or b.root != b.defp or b.local_ty(0) != "bool":
            continue
        cs = [c for (_, c, _) in b.calls()]
        if len(cs) == 1 and cs[0].target in fpaths:
            wrappers.add(b.defp)
    return ff, fpaths, wrappers


def f2_dropped_datagram_leaves_nothing(ctx, rule="F2"):
    """F2 (second half): `a refusal drops the packet and nothing else` also means the reader survives the drop"""
    from .common import datagram_decoder_none_leaves_nothing
    rows, n = datagram_decoder_none_leaves_nothing(ctx.prog)
    ctx.floor(rule, "datagram decoders (codecs of a UdpFramed)", 2, n)
    for (d, where, ok, detail) in rows:
        ctx.ob(rule, d.defp, "dropped-datagram-leaves-nothing-behind", where, ok, detail)


def f6_refused_datagram_changes_nothing(ctx):
    """F6: `a refused packet is simply dropped`: nothing about the session may have changed by the time the filter refuses it. The reply address of an
    association is state a datagram can change; C02's U3 obligations (replies go to the address recorded in the association; that address is only
    rewritten behind the filter's accept edge) are re-evaluated: a dispatcher that follows the source address of every *decrypted* datagram lets a
    replayed copy, which the filter then refuses, take the session's replies away from the client."""
    from ..engine import Ctx
    from . import c02
    busy = ctx.prog.__dict__.setdefault("_importing", set())
    if "C02" in busy:          # C02 is importing C11's filter rules right now (U10): do not import back
        return
    busy.add("C11")
    try:
        sub = Ctx(ctx.prog, "C02", ctx.tier)
        c02.run(sub)
    finally:
        busy.discard("C11")
    n = 0
    for o in sub.obs:
        if o.rule == "U3" and ("association-address" in o.key or "reply-address-changed-only-behind-filter" in o.key or "reply-to-recorded-client" in o.key):
            n += 1
            parts = o.key.split("|")
            ctx.ob("F6", parts[1], parts[2], o.where, o.ok, o.detail)
    ctx.floor("F6", "reply-address obligations of the association (C02 U3)", 2, n)


def run(ctx):
    f5_association_removed_only_by_expiry(ctx)
    f6_refused_datagram_changes_nothing(ctx)
    f2_dropped_datagram_leaves_nothing(ctx)
    prog = ctx.prog
    FT_PATH, FT = filter_type(prog)
    if FT_PATH is None:
        ctx.anchor_lost("F3", "replay window type (struct with a [u64; N] ring and a u64 mark)")
        return
    ff, fpaths, wrappers = filter_roles(prog)
    ctx.floor("F4", "replay filter function", 1, len(ff))

    def is_filter(c):
        return c.target in fpaths or c.target in wrappers

    sites = [(b, blk, c, t) for b in prog.prod_bodies() if b.defp not in wrappers for (blk, c, t) in b.calls() if is_filter(c)]
    ctx.floor("F1", "filter use sites (server association task, client datagram decoder)", 2, len(sites))
    for (b, blk, c, t) in sites:
        gates = [g for g in gates_of_value(b, t["dest"][0]) if g.kind == "bool"]
        if not gates:
            ctx.ob("F1", b.defp, "filter-result-tested", loc(t["sp"]), False, "the filter's verdict is never branched on")
            continue
        in_loop = b.innermost_loop(blk)
        # sinks: forwards of the datagram / accepting returns
        sends = [(sb, sc, st) for (sb, sc, st) in b.calls() if sc.name == "UdpSocket::send_to" and sb in b.reach_from(blk)]
        acc = ok_some_blocks(b) if "Option<" in b.local_ty(0) else []
        for g in gates:
            acc_t, rej_t = g.bool_target(True), g.bool_target(False)
            for (sb, sc, st) in sends:
                ok = b.edge_dominates(g.block, acc_t, sb)
                ctx.ob("F1", b.defp, "forward-behind-filter", loc(st["sp"]), ok, "send_to is dominated by the filter's accept edge" if ok else "the datagram can be forwarded without passing the replay filter")
            for ab in acc:
                ok = b.edge_dominates(g.block, acc_t, ab)
                ctx.ob("F1", b.defp, "accept-behind-filter", loc(t["sp"]), ok, "Ok(Some) is dominated by the filter's accept edge" if ok else "a datagram can be delivered without passing the replay filter")
            if not sends and not acc:
                ctx.ob("F1", b.defp, "sink-found", loc(t["sp"]), False, "no forward / accepting return found after the filter call")
            # F2
            if in_loop:
                h, body = in_loop
                # walk from the refusal target inside the loop, stopping at the header
                seen = set()
                st_ = [rej_t]
                exits = []
                while st_:
                    x = st_.pop()
                    if x in seen or x == h:
                        continue
                    seen.add(x)
                    if x not in body:
                        exits.append(x)
                        continue
                    st_.extend(b.succ(x))
                ok = not exits
                ctx.ob("F2", b.defp, "refusal-stays-in-session-loop", loc(t["sp"]), ok,
                       "a refused packet id returns to the loop head" if ok else "a refused (duplicate / stale) packet id leaves the per-session loop: one replayed datagram ends the session")
            else:
                rv = returns_variant(b)
                reach = b.reach_from(rej_t)
                errs = [x for x in reach if rv.get(x) in ("Err", "residual")]
                ok = not errs
                ctx.ob("F2", b.defp, "refusal-is-not-an-error", loc(t["sp"]), ok,
                       "a refused packet id yields Ok(None) (drop)" if ok else "a refused (duplicate / stale) packet id returns Err, which ends the reply stream of this binding")
        # id provenance + limit
        idarg = t["args"][1] if len(t["args"]) > 1 else None
        p = op_place(idarg) if idarg else None
        ok = False
        if p is not None:
            locs, calls, _ = b.slice_back([p[0]])
            for l in locs:
                for d in b.defs().get(l, []):
                    if d[0] == "assign" and d[3]["rv"]["k"] in ("use", "ref"):
                        pp = op_place(d[3]["rv"].get("op")) if d[3]["rv"]["k"] == "use" else d[3]["rv"]["p"]
                        if pp and any(e[0] == "field" and e[2] == "packet_id" for e in pp[1]):
                            ok = True
        ctx.ob("F1", b.defp, "checked-id-is-the-packets-id", loc(t["sp"]), ok, "filter argument derives from the decoded session's packet_id" if ok else "filter argument does not derive from the decoded packet_id")
    # limit constants (at the outermost call sites, including inside wrappers)
    for b in prog.prod_bodies():
        for (blk, c, t) in b.calls():
            if c.target in fpaths and len(t["args"]) >= 3:
                lim = t["args"][2]
                cst = lim.get("const")
                ok = cst is not None and (cst.get("int") == 2**64 - 1 or (cst.get("item") or "").endswith("u64::MAX") or cst.get("int") is not None)
                ctx.ob("F3", b.defp, "limit-is-constant", loc(t["sp"]), ok, f"limit argument is the constant {cst.get('int') if cst else None}" if ok else "limit argument is not a constant")
    # F3 ownership
    holders = []
    for it in prog.items:
        if it["k"] == "struct" and it["path"] != FT_PATH:
            for (fname, fty) in it["fields"]:
                if re.search(r"\b" + re.escape(FT) + r"\b", fty):
                    holders.append((it, fname, fty))
        if it["k"] == "static" and re.search(r"\b" + re.escape(FT) + r"\b", it.get("ty", "")):
            ctx.ob("F3", it["path"], "filter-not-static", loc(it["sp"]), False, "a replay filter lives in a static: shared by all sessions")
    ctx.floor("F3", "per-session objects holding a filter", 2, len(holders))
    for (it, fname, fty) in holders:
        ok = fty.endswith(FT) and not any(k in fty for k in ("Arc<", "Mutex<", "Rc<", "RefCell<", "&"))
        ctx.ob("F3", it["path"], f"field:{fname}:owned-plain", loc(it["sp"]), ok, f"field type {fty}", ordinal=False)
        # constructed fresh wherever the holder is constructed
        ctors = []
        for b in prog.prod_bodies():
            for blk in b.rpo():
                for s in b.stmts(blk):
                    if s["k"] == "assign" and s["rv"]["k"] == "agg" and s["rv"].get("def") == it["path"]:
                        idx = [i for i, (n, _) in enumerate(it["fields"]) if n == fname][0]
                        op = s["rv"]["ops"][idx]
                        p = op_place(op)
                        fresh = False
                        if p is not None:
                            _, calls, _ = b.slice_back([p[0]])
                            fresh = any(cc.name in (FT + "::new", "Default::default") for (_, cc, _) in calls) and \
                                not any(cc.name == "Clone::clone" for (_, cc, _) in calls)
                        ctors.append((b, s, fresh))
        # F3b the filter of a live session is never cleared or replaced: outside the functions that construct the holder, the field is not
        # assigned as a whole and no state-clearing method of the filter (a `&mut self` method without an id argument) is called on it
        ctor_fns = {b.defp for (b, _, _) in ctors}
        for b in prog.prod_bodies():
            if b.defp in ctor_fns or (b.impl_self_def or "") == FT_PATH:
                continue
            for blk in b.rpo():
                for s in b.stmts(blk):
                    if s["k"] == "assign" and s["p"][1]:
                        fl = [e for e in s["p"][1] if e[0] == "field"]
                        last = s["p"][1][-1]
                        if fl and last[0] == "field" and (last[2] == fname) and last_seg(it["path"]) in b.local_ty(s["p"][0]).replace("&mut ", "").replace("&", ""):
                            ctx.ob("F3", b.defp, f"{last_seg(it['path'])}:filter-never-replaced", loc(s["sp"]), False,
                                   f"the per-session replay filter (`{fname}`) is replaced with a new one in a live session: the ids accepted so far are forgotten, "
                                   "so a datagram that was already delivered (or lies behind the window) is accepted again")
            for (blk, c, t) in b.calls():
                if (c.self_def or "") == FT_PATH and c.target not in fpaths and t["args"]:
                    cb = prog.body(c.target)
                    clears = cb is not None and cb.argc == 1 and cb.local_ty(1).startswith("&mut") and cb.local_ty(0) == "()"
                    if clears and (b.defp, blk) not in ctx.__dict__.setdefault("_f3_seen", set()):
                        ctx._f3_seen.add((b.defp, blk))
                        ctx.ob("F3", b.defp, f"filter-never-cleared:{c.method}", loc(t["sp"]), False,
                               f"`{c.name}` clears the replay filter of a live session: ids accepted so far are forgotten and replays of them pass again")
        ctx.floor("F3", f"constructions of {last_seg(it['path'])}", 1, len(ctors))
        for (b, s, fresh) in ctors:
            ctx.ob("F3", b.defp, f"{last_seg(it['path'])}:fresh-filter", loc(s["sp"]), fresh, "filter is created fresh with the session object" if fresh else "filter is not created fresh (cloned / shared)")

    # F5: one filter per authenticated session id — the table that owns the per-session objects is keyed by the session id alone
    sess_id_ty = None
    for it in prog.items:
        if it["k"] == "struct" and last_seg(it["path"]) == "Session":
            for (fname, fty) in it["fields"]:
                if fname == "client_session_id":
                    sess_id_ty = fty
    holder_ctor_fns = set()
    for (it, fname, fty) in holders:
        for b in prog.prod_bodies():
            for blk in b.rpo():
                for s in b.stmts(blk):
                    if s["k"] == "assign" and s["rv"]["k"] == "agg" and s["rv"].get("def") == it["path"]:
                        holder_ctor_fns.add(b.root)
    n_tab = 0
    for b in prog.prod_bodies():
        for (blk, c, t) in b.calls():
            if c.method != "insert" or len(t["args"]) < 3:
                continue
            mp = op_place(t["args"][0])
            vp = op_place(t["args"][2])
            if mp is None or vp is None:
                continue
            passthru = ("Try::branch", "Result::map_err", "IntoFuture::into_future", "Future::poll", "Pin::new_unchecked", "core::future::get_context", "Pin::new", "From::from")
            _, vcalls, _ = b.slice_back([vp[0]], stop_call=lambda cc: cc.name not in passthru)
            if not any(cc.target in holder_ctor_fns or any(prog.bodies[f].root in holder_ctor_fns for f in [cc.target] if f in prog.bodies) for (_, cc, _) in vcalls):
                continue
            mlocs, _, _ = b.slice_back([mp[0]], stop_call=lambda cc: True)
            mty = next((b.local_ty(l) for l in sorted(mlocs) if ("LruCache<" in b.local_ty(l) or "HashMap<" in b.local_ty(l)) and not b.local_ty(l).startswith("&")), None) \
                or next((b.local_ty(l) for l in sorted(mlocs) if "LruCache<" in b.local_ty(l) or "HashMap<" in b.local_ty(l)), "")
            kty = _first_generic(mty)
            n_tab += 1
            kp = op_place(t["args"][1])
            comps = _shallow_components(b, kp[0]) if kp is not None else ["?"]
            ok = sess_id_ty is not None and kty == sess_id_ty and comps == ["client_session_id"]
            if kty == sess_id_ty and not ok:
                ctx.ob("F5", b.defp, "session-table-keyed-by-session-id", loc(t["sp"]), False,
                       f"the key under which a per-session filter holder is stored is built from {comps}, not from Session::client_session_id alone")
                continue
            ctx.ob("F5", b.defp, "session-table-keyed-by-session-id", loc(t["sp"]), ok,
                   f"the table owning the per-session replay filters is keyed by {kty!r}, the type of Session::client_session_id" if ok else
                   f"the table owning the per-session replay filters is keyed by {kty!r}, not by the session id ({sess_id_ty!r}) alone: one session "
                   f"gets a second, empty filter whenever the extra key component differs (e.g. the datagram's source address), and ids it already accepted pass again")
    ctx.floor("F5", "tables that own per-session filter holders", 1, n_tab)

    # F4 constants
    for b0 in ff:
        b = prog.flat(b0.defp)      # helper methods extracted from the filter are part of it
        # ring length from BoundsCheck constants
        Ls = set()
        shr, band, gts, assigns = [], [], [], []
        for blk in b.rpo():
            for s in b.stmts(blk):
                if s["k"] != "assign":
                    continue
                rv = s["rv"]
                if rv["k"] == "bin":
                    ka, kb = op_int(rv["a"]), op_int(rv["b"])
                    if rv["op"] == "Lt" and kb is not None and "usize" in (rv["b"]["const"]["ty"]):
                        Ls.add(kb)
                    elif rv["op"] in ("Shr", "ShrUnchecked") and kb is not None:
                        shr.append(kb)
                    elif rv["op"] == "BitAnd" and kb is not None:
                        band.append(kb)
                    elif rv["op"] == "Gt" and kb is not None:
                        gts.append((blk, kb, rv))
                elif rv["k"] == "use" and op_int(rv["op"]) is not None and not s["p"][1] and b.local_name(s["p"][0]):
                    assigns.append((s["p"][0], op_int(rv["op"])))
        where = loc(b.sp)
        ctx.ob("F4", b.defp, "ring-length-known", where, len(Ls) == 1, f"ring length(s) from bounds checks: {sorted(Ls)}", ordinal=False)
        if len(Ls) != 1:
            continue
        L = Ls.pop()
        ok = len(set(shr)) == 1 and len(shr) >= 2
        S = shr[0] if shr else None
        ctx.ob("F4", b.defp, "block-shift-consistent", where, ok, f"block index shifts {shr}", ordinal=False)
        if S is None:
            continue
        ok = sorted(set(band)) == sorted({L - 1, 2**S - 1}) and band.count(L - 1) >= 2
        ctx.ob("F4", b.defp, "masks", where, ok, f"masks {band}; need ring mask {L - 1} (twice) and bit mask {2**S - 1}", ordinal=False)
        ctx.ob("F4", b.defp, "power-of-two", where, L & (L - 1) == 0, f"ring length {L} is a power of two", ordinal=False)
        win = [k for (_, k, _) in gts if k > L]
        ctx.ob("F4", b.defp, "window-size", where, win == [(L - 1) * 2**S] and win == [8128], f"window comparison constants {win}; need (L-1)*2^S = {(L - 1) * 2**S} = 8128", ordinal=False)
        clamp = [k for (_, k, _) in gts if k <= L]
        # the local that is clamped: the one compared with the clamp constant; the constants assigned to that same local
        clamped = set()
        for (_, k, rv_) in gts:
            if k <= L:
                pa_ = op_place(rv_["a"])
                if pa_ is not None:
                    clamped |= {l for l in b.slice_back([pa_[0]], stop_call=lambda cc: True)[0] if b.local_name(l)}
        diff_assign = [v for (n, v) in assigns if n in clamped]
        # equivalent idiom: diff.min(L)
        for (_, c, t) in b.calls():
            if c.name == "Ord::min" and len(t["args"]) == 2 and op_int(t["args"][1]) is not None:
                clamp.append(op_int(t["args"][1]))
                diff_assign.append(op_int(t["args"][1]))
        ctx.ob("F4", b.defp, "forward-jump-clamp", where, clamp == [L] and diff_assign == [L],
               f"a jump of more than {clamp} blocks clears {diff_assign} blocks; both must equal the ring length {L} (else stale bits survive a large jump)", ordinal=False)
        # limit test first
        t0 = b.term(0)
        first_ok = False
        if t0 and t0["k"] == "switch":
            for s in b.stmts(0):
                if s["k"] == "assign" and s["rv"]["k"] == "bin" and s["rv"]["op"] == "Ge":
                    pa, pb = op_place(s["rv"]["a"]), op_place(s["rv"]["b"])
                    la, _, _ = b.slice_back([pa[0]]) if pa else (set(), 0, 0)
                    lb, _, _ = b.slice_back([pb[0]]) if pb else (set(), 0, 0)
                    if 2 in la and 3 in lb:
                        first_ok = True
        ctx.ob("F4", b.defp, "limit-test-first", where, first_ok, "packet_id >= limit => false is the first test", ordinal=False)
        # verdict = old != new
        verdict = any(s["k"] == "assign" and not s["p"][1] and s["rv"]["k"] == "bin" and s["rv"]["op"] == "Ne" and
                      (s["p"][0] == 0 or 0 in b.slice_fwd([s["p"][0]])[0]) for blk in b.rpo() for s in b.stmts(blk))
        ctx.ob("F4", b.defp, "verdict-is-bit-newly-set", where, verdict, "returns old != new", ordinal=False)
        # the window is moved forward block by block: what is forgotten are the blocks *between* the old head's block and the new one, none when
        # both lie in the same block. A clearing that is not an iteration over that difference (a range fill, a memset) must be guarded by the
        # difference being non-zero - an empty difference expressed as the wrapped range `current+1 ..= current` otherwise wipes the whole ring,
        # and every id seen so far is accepted again
        clears = []
        for blk in b.rpo():
            for s in b.stmts(blk):
                if s["k"] == "assign" and any(e[0] == "index" for e in s["p"][1]) and s["rv"]["k"] == "use" and op_int(s["rv"]["op"]) == 0 and blk != 0:
                    clears.append((blk, loc(s["sp"]), "element store"))
        for (blk, c, t) in b.calls():
            if c.method == "fill" and len(t["args"]) > 1 and op_int(t["args"][1]) == 0:
                clears.append((blk, loc(t["sp"]), "range fill"))
        for (blk, where_, how) in clears:
            in_loop = b.innermost_loop(blk) is not None
            guarded = False
            for gb in b.rpo():
                gt_ = b.term(gb)
                if not gt_ or gt_["k"] != "switch":
                    continue
                cmp_ = const_cmp_of_switch(b, gb)
                if cmp_ and cmp_[0] in ("Gt", "Ne", "Eq", "Lt", "Ge", "Le") and (op_int(cmp_[2]) in (0, 1) or op_int(cmp_[1]) in (0, 1)):
                    v = cmp_[1] if op_int(cmp_[2]) is not None else cmp_[2]
                    q = op_place(v)
                    if q is not None and any(d_[0] == "assign" and d_[3]["rv"]["k"] == "bin" and d_[3]["rv"]["op"].startswith("Sub") for l_ in b.slice_back([q[0]], stop_call=lambda c_: True)[0] for d_ in b.defs().get(l_, [])):
                        for tgt in {x for _, x in gt_["arms"]} | {gt_["otherwise"]}:
                            if b.edge_dominates(gb, tgt, blk) and not all(b.edge_dominates(gb, t2, blk) for t2 in {x for _, x in gt_["arms"]} | {gt_["otherwise"]}):
                                guarded = True
            ctx.ob("F4", b.defp, f"ring-cleared-only-over-the-block-difference:{how.replace(' ', '-')}", where_, in_loop or guarded,
                   "the ring is cleared inside the iteration over the block difference (or behind a test of that difference)" if (in_loop or guarded) else
                   f"a {how} clears ring blocks outside any iteration over the block difference and without a test that the difference is non-zero: when the new id falls into the "
                   "same block as the previous highest one, the range `old+1 ..= new` is empty, and expressed as a wrapped range it covers the whole ring - the filter forgets "
                   "every id it has seen and accepts duplicates")
        ctx.floor("F4", "ring-clearing sites in the filter", 1, len(clears))
        # ids are compared by subtracting from the larger one: the whole 64-bit range is legal (both call sites pass u64::MAX as the limit), so
        # *adding* a window or block constant to an id that came off the wire overflows for the last ids below u64::MAX - a panic in
        # overflow-checked builds, a wrapped sum (a fresh id judged stale, or a stale one fresh) otherwise
        adds = []
        for blk in b.rpo():
            for s in b.stmts(blk):
                if s["k"] == "assign" and s["rv"]["k"] == "bin" and s["rv"]["op"] in ("Add", "AddWithOverflow", "AddUnchecked"):
                    for side, other in ((s["rv"]["a"], s["rv"]["b"]), (s["rv"]["b"], s["rv"]["a"])):
                        q = op_place(side)
                        if q is None or b.local_ty(q[0]) != "u64":
                            continue
                        ql, qcalls, _ = b.slice_back([q[0]], stop_call=lambda c_: True)
                        from_id = 2 in ql and not any(True for l_ in ql for d_ in b.defs().get(l_, []) if d_[0] == "assign" and d_[3]["rv"]["k"] == "bin" and d_[3]["rv"]["op"] in ("Shr", "ShrUnchecked", "BitAnd", "Sub", "SubWithOverflow"))
                        k = op_int(other)
                        if from_id and (k is None or k != 0):
                            adds.append(loc(s["sp"]))
        ctx.ob("F4", b.defp, "no-addition-to-a-wire-id", adds[0] if adds else where, not adds,
               "packet ids are only compared, subtracted from a larger id, shifted or masked" if not adds else
               "a constant is added to the packet id as it came off the wire: for the last ids below u64::MAX (legal: the limit passed in is u64::MAX) the sum overflows - the filter "
               "panics in overflow-checked builds and mis-judges the id otherwise", ordinal=False)


def f5_association_removed_only_by_expiry(ctx):
    """F5: the replay filter of a client session lives in that session's association. The association table (an LruCache keyed by the session
    id, values owning a per-session task / channel) drops an entry only through its own expiry: an explicit `remove` (to "rebuild" an
    association whose task ended) makes the next datagram of the same session id create a fresh association with an EMPTY filter, and every
    packet id accepted before is accepted once more."""
    prog = ctx.prog
    n_tab, n_rm = 0, 0
    for b in prog.prod_bodies():
        if not b.defp.startswith("octo_squirrel_server") or "::_" in b.defp:
            continue
        tabs = [i for i, l in enumerate(b.locals) if "LruCache<u64" in l["ty"].get("s", "") and not l["ty"]["s"].lstrip().startswith("&") and l.get("user")]
        if not tabs:
            continue
        n_tab += 1
        for (blk, c, t) in b.calls():
            if c.method in ("remove", "clear", "pop", "retain") and ("LruCache" in (c.self_s or "") or "lru_time_cache" in c.target) and t["args"]:
                rp = op_place(t["args"][0])
                if rp is not None and (b.slice_back([rp[0]], stop_call=lambda cc: True)[0] | {rp[0]}) & set(tabs):
                    n_rm += 1
                    ctx.ob("F5", b.defp, f"association-removed-only-by-expiry:{c.method}", loc(t["sp"]), False,
                           f"`{c.name}` takes a session's association out of the table while the session id can still arrive: the association that replaces it starts with an empty "
                           "packet-id filter, so a copy of a datagram that was already accepted (and forwarded) is accepted again")
    ctx.ob("F5", "workspace", "association-table-removals-inventoried", "-", True, f"{n_tab} association table(s), {n_rm} explicit removal(s)", nontrivial=False, ordinal=False)
    ctx.floor("F5", "server association tables (LruCache keyed by session id)", 1, n_tab)
