"""C02 — UDP relay preserves each datagram, its addresses and its owner: routing/ownership clauses (DESIGN.md 4/C02)."""
import re

from ..mir import Callee, last_seg, loc, op_place
from .common import gates_of_value

EXPLANATION = (
    "U1 in every protocol's to_inbound_recv the address a reply is delivered to derives only from the recorded sender parameter. U2 every protocol's "
    "binding key derives from the local sender; where the protocol's to_outbound_send does not carry the per-datagram target on the wire (VMess: the "
    "stream fixes its target) the key must also derive from the target. The binding-table lookup key is new_key(sender, target) of the datagram being "
    "routed. U3 server association: replies go to the client address recorded at creation, the reply Session is built from the association's own ids, "
    "the stored user is only assigned behind the replay filter's accept edge, and the table key is the decoded client session id; the listener replies "
    "to the address carried with the association's message. U5 a datagram encoder consumes the whole datagram or fails: an encoder that emits a bounded "
    "chunk must loop or reject what does not fit.")
ASSUMPTIONS = ["payload identity, absence of duplication/merge and OS socket behaviour are value-level and are not decided"]


def params_in(b, local):
    locs, _, _ = b.slice_back([local])
    return sorted(l for l in locs if 1 <= l <= b.argc)


def u10_network_duplicates_are_filtered(ctx):
    """U10: `never ... duplicated by the relay`: for Shadowsocks-2022 datagrams the relay forwards what its replay filter lets through, so a copy the
    network delivers twice is forwarded twice exactly when the filter forgets. C11's F4 obligations about what the filter forgets when its window moves
    (ring cleared only over the block difference, clamp = ring length) are re-evaluated here."""
    from ..engine import Ctx
    from . import c11
    busy = ctx.prog.__dict__.setdefault("_importing", set())
    if "C11" in busy:          # C11 is importing C02's reply-address rules right now (F6): do not import back
        return
    busy.add("C02")
    try:
        sub = Ctx(ctx.prog, "C11", ctx.tier)
        c11.run(sub)
    finally:
        busy.discard("C02")
    n = 0
    for o in sub.obs:
        if (o.rule == "F4" and ("ring-cleared" in o.key or "forward-jump-clamp" in o.key)) or (o.rule == "F3" and ("filter-never-cleared" in o.key or "filter-never-replaced" in o.key)):
            n += 1
            parts = o.key.split("|")
            ctx.ob("U10", parts[1], parts[2], o.where, o.ok, o.detail, ordinal=len(parts) > 3)
    ctx.floor("U10", "filter-forgetting obligations (C11 F4)", 2, n)


def run(ctx):
    u10_network_duplicates_are_filtered(ctx)
    u7_receive_buffers(ctx)
    u8_one_datagram_per_decode(ctx)
    prog = ctx.prog
    bodies = [b for b in prog.prod_bodies() if "::_" not in b.defp]
    mods = {}
    for b in bodies:
        if b.root != b.defp or "::udp::" not in b.defp or not b.defp.startswith("octo_squirrel_client"):
            continue
        name = last_seg(b.defp)
        if name in ("to_inbound_recv", "to_outbound_send", "new_key"):
            mods.setdefault(b.defp.rsplit("::", 1)[0], {})[name] = b
    ctx.floor("U1", "client UDP protocol modules (new_key / to_outbound_send / to_inbound_recv)", 3, len(mods))
    for m, fns in sorted(mods.items()):
        tir, tos, nk = fns.get("to_inbound_recv"), fns.get("to_outbound_send"), fns.get("new_key")
        if not (tir and tos and nk):
            ctx.ob("U1", m, "sibling-set-complete", "-", False, f"module defines {sorted(fns)}", ordinal=False)
            continue
        # U1: returned (DatagramPacket, SocketAddr): operand 1 of the tuple stored into _0
        ok = False
        detail = "no tuple return found"
        for blk in tir.rpo():
            for s in tir.stmts(blk):
                if s["k"] == "assign" and s["p"][0] == 0 and not s["p"][1] and s["rv"]["k"] == "agg" and s["rv"]["ak"] == "tuple" and len(s["rv"]["ops"]) == 2:
                    p = op_place(s["rv"]["ops"][1])
                    ps = params_in(tir, p[0]) if p else []
                    ok = ps == [3]
                    detail = f"reply address derives from parameters {ps} (3 = recorded sender)"
        ctx.ob("U1", tir.defp, "reply-to-recorded-sender", loc(tir.sp), ok, detail)
        # U1b: where the wire carries the replying peer's address with every datagram (and one binding therefore serves all of an application's
        # targets), the label handed back to the application is the one that arrived — never the binding's first recipient
        if _uses_field(tos, 1, 1):
            lab_ps, found = [], False
            for blk in tir.rpo():
                for s in tir.stmts(blk):
                    if s["k"] == "assign" and s["p"][0] == 0 and not s["p"][1] and s["rv"]["k"] == "agg" and s["rv"]["ak"] == "tuple" and len(s["rv"]["ops"]) == 2:
                        p = op_place(s["rv"]["ops"][0])
                        if p:
                            found = True
                            lab_ps = sorted(set(lab_ps) | set(params_in(tir, p[0])))
            ok_l = found and 2 not in lab_ps
            ctx.ob("U1", tir.defp, "reply-labelled-with-the-address-it-came-with", loc(tir.sp), ok_l,
                   f"the packet handed to the application derives from parameters {lab_ps} (1 = the received item)" if ok_l else
                   f"the packet handed to the application derives from parameters {lab_ps}: parameter 2 is the binding's recipient (the target of the datagram that created the "
                   "binding) — this protocol's binding is keyed by the local sender alone and serves every target of that application, so a reply from another target can be "
                   "delivered labelled with the first target's address")
        # U2
        ps = params_in(nk, 0)
        carries_target = _uses_field(tos, 1, 1)
        need = [1] if carries_target else [1, 2]
        ok = all(x in ps for x in need)
        ctx.ob("U2", nk.defp, "binding-key-components", loc(nk.sp), ok,
               f"key derives from parameters {ps}; the wire format " + ("carries" if carries_target else "does NOT carry") + " the per-datagram target, so the key must include " + ("the sender" if carries_target else "sender and target (one stream per target)"))
        # ... and the key part that stands for the target must *identify* it: where the wire format does not carry the per-datagram target the
        # binding's key is the only thing that separates two targets of one application. A digest, a rendering or any other many-to-one
        # function of the target merges two targets into one binding (the second one's datagrams are sent to the first).
        if not carries_target and 2 in ps:
            IDENT = ("Clone::clone", "ToOwned::to_owned", "Into::into", "From::from", "AsRef::as_ref", "Deref::deref", "Borrow::borrow", "ToOwned::clone_into")
            _, kcalls, _ = nk.slice_back([0])
            lossy = []
            for (kb, kc, kt) in kcalls:
                if kc.name in IDENT:
                    continue
                arg_locals = [op_place(a)[0] for a in kt["args"] if op_place(a)]
                if arg_locals and 2 in nk.slice_back(arg_locals)[0]:
                    lossy.append(kc.name)
            ctx.ob("U2", nk.defp, "binding-key-identifies-the-target", loc(nk.sp), not lossy,
                   "the target reaches the binding key through copies only" if not lossy else
                   f"the target reaches the binding key through {sorted(set(lossy))}: not an identity - two different targets of one application can get the same key, share one "
                   "binding (whose stream was opened for the first target) and the second target's datagrams are delivered to the first")
    # binding lookup key in the client loop
    from .common import outermost
    loops = [b for b in bodies if b.defp.startswith("octo_squirrel_client") and any(c.name == "LruCache::entry" for (_, c, _) in b.calls())]
    # a table access moved into a helper is judged in the loop that calls the helper (flat view)
    tops_ = []
    for b in loops:
        ctxs_ = [fb_ for (fb_, _) in prog.flat_contexts(b.defp)] + [fb_ for (fb_, _) in prog.flat_contexts(b.root)]
        ctxs_ = [fb_ for fb_ in ctxs_ if fb_.defp.startswith("octo_squirrel_client")]
        tops_.append(max(ctxs_, key=lambda x: x.n) if ctxs_ else prog.flat(b.defp))
    loops = list({fb_.defp: fb_ for fb_ in tops_}.values())
    ctx.floor("U2", "client binding-table loop", 1, len(loops))
    for b in loops:
        for (blk, c, t) in b.calls():
            if c.name == "LruCache::entry":
                p = op_place(t["args"][1])
                locs, calls, _ = b.slice_back([p[0]]) if p else (set(), [], [])
                # by role: the key is what the protocol's key function (a function value handed to the loop) makes of this datagram's
                # sender (a socket address that arrived with the datagram) [and target]
                via_new_key = any("indirect" in cc.f for (_, cc, _) in calls) or any(b.local_name(l) == "key" for l in locs)
                from_sender = any(b.local_name(l) == "sender" or b.local_ty(l).replace("&", "").strip() == "std::net::SocketAddr" for l in locs)
                ctx.ob("U2", b.defp, "lookup-key-from-this-datagram", loc(t["sp"]), via_new_key and from_sender, "table lookup key is new_key(sender, target) of the datagram being routed" if via_new_key and from_sender else "table lookup key does not derive from the datagram's sender")
    # U9: the binding table expires entries by age (an LruCache with a lifetime); `get`/`get_mut`/`entry`/`insert` are what renews an
    # entry. A reply handed to the local socket must renew the binding it came through, otherwise an application that mostly *receives*
    # (one request, a stream of answers) loses its binding - and every later answer - while answers are still flowing.
    n_reply_sends = 0
    for b in loops:
        renew = [blk for (blk, c, t) in b.calls() if c.name in ("LruCache::get", "LruCache::get_mut", "LruCache::entry", "LruCache::insert")]
        expiring = any(c.name.startswith("LruCache::with_expiry") for (_, c, _) in b.calls())
        if not expiring:
            continue
        for (blk, c, t) in b.calls():
            if c.name != "SinkExt::send" or "SplitSink<tokio_util::udp::UdpFramed<" not in (c.self_s or ""):
                continue
            n_reply_sends += 1
            lp = b.innermost_loop(blk)
            ok = any(b.dominates(r, blk) and (lp is None or r in lp[1]) for r in renew)
            ctx.ob("U9", b.defp, "reply-renews-its-binding", loc(t["sp"]), ok,
                   "the reply path renews the binding-table entry before handing the reply to the application" if ok else
                   "a reply is handed to the local socket without any renewing access (get / get_mut / entry / insert) to the expiring binding table on that path: "
                   "bindings are kept alive only by what the application sends, so a receive-mostly application is evicted (capacity or age) while its answers are still arriving and loses them")
    ctx.floor("U9", "reply sends to the local UDP socket in the binding-table loop", 1, n_reply_sends)
    # U1 call site: new_binding passes the datagram's sender on to to_inbound_recv
    nb = [b for b in bodies if "template::new_binding" in b.defp and any("indirect" in c.f for (_, c, _) in b.calls())]
    for b in nb:
        for (blk, c, t) in b.calls():
            if "indirect" in c.f and _is_upvar(b, c, "to_inbound_recv"):
                tup = op_place(t["args"][1]) if len(t["args"]) > 1 else None
                locs, _, _ = b.slice_back([tup[0]]) if tup else (set(), 0, 0)
                ok = any((b.local_name(l) == "sender") or (b.upvar_name([l, []]) == "sender") for l in locs) or _slice_has_upvar(b, locs, "sender")
                ctx.ob("U1", b.defp, "reply-task-uses-binding-sender", loc(t["sp"]), ok, "the reply task labels replies with the sender that created the binding" if ok else "reply task does not pass the binding's sender")

    # ---------------- U3 server association ---------------------------------------------------------------
    # role: the server's per-session association task = server code that forwards datagrams (send_to) and consults the replay filter
    from .c11 import filter_roles
    _ff, _fpaths, _wrappers = filter_roles(prog)

    def is_filter(c):
        return c.target in _fpaths or c.target in _wrappers
    assoc = [b for b in bodies if b.defp.startswith("octo_squirrel_server") and any(is_filter(c) for (_, c, _) in b.calls())
             and any(c.name == "UdpSocket::send_to" for (_, c, _) in b.calls())]
    ctx.floor("U3", "server association task", 1, len(assoc))
    for b in assoc:
        # the reply message sent on the inbound channel (a tuple or a named struct): among its parts there is the client's socket
        # address and a session value. The address must come from the association's own state (recorded at creation), the session's ids /
        # user from the association's own state as well — by role (types and provenance), not by field names.
        for (blk, c, t) in b.calls():
            if c.method == "send" and "Sender" in c.self_s:
                p = op_place(t["args"][1]) if len(t["args"]) > 1 else None
                ok_addr = ok_sess = False
                why_addr = why_sess = "not found"
                if p is not None:
                    for d in _agg_defs(b, p[0]):
                        if d[0] == "assign" and d[3]["rv"]["k"] == "agg" and d[3]["rv"]["ak"] in ("tuple", "adt") and len(d[3]["rv"]["ops"]) >= 3:
                            ops_ = [op_place(o) for o in d[3]["rv"]["ops"]]
                            addr_ops = [q for q in ops_ if q is not None and "SocketAddr" in b.local_ty(q[0]) and "Session" not in b.local_ty(q[0])]
                            sess_ops = [q for q in ops_ if q is not None and "Session<" in b.local_ty(q[0])]
                            # the client address: the SocketAddr part that is copied out of the association's state (the other one is the
                            # peer the datagram was received from)
                            from_self = [q for q in addr_ops if _self_fields_read(b, q[0])]
                            ok_addr = len(from_self) >= 1
                            why_addr = f"{len(addr_ops)} address part(s), {len(from_self)} copied from the association's state"
                            for q in sess_ops:
                                locs_, calls_, _ = b.slice_back([q[0]])
                                ctor_args = []
                                for (_, cc, tt) in calls_:
                                    if cc.method == "new" and "Session" in (cc.self_def or cc.self_s or "") and len(tt["args"]) >= 3:
                                        ctor_args = [op_place(a) for a in tt["args"]]
                                for l_ in locs_:
                                    for d2 in b.defs().get(l_, []):
                                        if d2[0] == "assign" and d2[3]["rv"]["k"] == "agg" and d2[3]["rv"].get("ak") == "adt" and "Session" in (d2[3]["rv"].get("def") or "") and len(d2[3]["rv"]["ops"]) >= 3:
                                            ctor_args = ctor_args or [op_place(o) for o in d2[3]["rv"]["ops"]]
                                if not ctor_args:
                                    # the association keeps its reply session as one value and sends a copy of it
                                    src_fields = _self_fields_read(b, q[0]) or [f_ for l2 in locs_ for f_ in _self_fields_read(b, l2)]
                                    copied = [cc for (_, cc, _) in calls_ if cc.name in ("Clone::clone",) and "Session" in (cc.self_s or "")]
                                    if src_fields and all(cc.name in ("Clone::clone", "Deref::deref", "Borrow::borrow") for (_, cc, _) in calls_):
                                        ok_sess = True
                                        why_sess = f"the reply session is a copy of the association's own `{src_fields[0]}`" + (" (clone)" if copied else "")
                                if ctor_args:
                                    ok_sess = all(a is not None and (_self_fields_read(b, a[0]) or any(_self_fields_read(b, l2) for l2 in b.slice_back([a[0]])[0])) for a in ctor_args)
                                    why_sess = f"session built from {len(ctor_args)} part(s), all from the association's state: {ok_sess}"
                ctx.ob("U3", b.defp, "reply-to-recorded-client", loc(t["sp"]), ok_addr, ("replies are addressed to the client address recorded in the association" if ok_addr else "reply address does not derive from the association's recorded client address") + f" ({why_addr})")
                ctx.ob("U3", b.defp, "reply-session-from-association", loc(t["sp"]), ok_sess, ("reply Session is built from the association's own ids / user" if ok_sess else "reply Session is not built from the association's own ids/user") + f" ({why_sess})")
        # user assigned only behind the filter's accept edge
        filt = [(blk, c, t) for (blk, c, t) in b.calls() if is_filter(c)]
        for (blk, c, t) in b.calls():
            if c.name == "Clone::clone_from":
                p = op_place(t["args"][0])
                if p is not None and _derives_from_self_field(b, p[0], "user"):
                    ok = False
                    for (fb, fc, ft) in filt:
                        for g in gates_of_value(b, ft["dest"][0]):
                            if g.kind == "bool" and b.edge_dominates(g.block, g.bool_target(True), blk):
                                ok = True
                    ctx.ob("U3", b.defp, "user-attribution-behind-filter", loc(t["sp"]), ok, "the association's user is only updated from a packet that passed the replay filter" if ok else "the association's user can be set from a packet that did not pass the replay filter")
        # ... and it IS updated from every forwarded datagram: the association is keyed by the client's session id alone, and the part of a
        # 2022 datagram that carries that id is readable with the server key every registered user holds - so which user a datagram
        # authenticated as is known per datagram only. An association that fixes its user once (at creation) answers a datagram that
        # authenticated as user B under user A's key.
        root_ = prog.body(b.root)
        sty = root_.impl_self_def if root_ is not None else None
        ufields = [fn for it in prog.items if it["k"] == "struct" and sty and it["path"] == sty for (fn, fty) in it["fields"] if "ServerUser" in fty] or ["user"]
        writes = []
        for (blk, c, t) in b.calls():
            if c.name in ("Clone::clone_from", "Option::replace", "Option::insert", "core::mem::replace"):
                p = op_place(t["args"][0]) if t["args"] else None
                if p is not None and any(_derives_from_self_field(b, p[0], f) for f in ufields):
                    writes.append(blk)
        for blk in b.rpo():
            for s_ in b.stmts(blk):
                if s_["k"] == "assign" and any(e[0] == "deref" for e in s_["p"][1]) and any(e[0] == "field" and len(e) > 2 and e[2] in ufields for e in s_["p"][1]):
                    writes.append(blk)
        fwd = [blk for (blk, c, t) in b.calls() if c.name == "UdpSocket::send_to" and
               any(g.kind == "bool" and b.edge_dominates(g.block, g.bool_target(True), blk) for (_, _, ft) in filt for g in gates_of_value(b, ft["dest"][0]))]
        multi_user = any("ServerUser" in fty for it in prog.items if it["k"] == "struct" and sty and it["path"] == sty for (fn, fty) in it["fields"])
        if multi_user:
            for fblk in fwd:
                ok = any(b.dominates(w, fblk) for w in writes)
                ctx.ob("U3", b.defp, "reply-user-follows-the-forwarded-datagram", loc(b.term(fblk)["sp"]), ok,
                       "every forwarded datagram first sets the association's user to the user it authenticated as" if ok else
                       "a client datagram is forwarded without the association's user being set from the user this datagram authenticated as: the user is fixed when the "
                       "association is created, while any registered user can send a datagram naming this session id (the session-id header is under the shared server key) - "
                       "the answer to a datagram that authenticated as one user is then sealed and attributed under another user's key")
            ctx.floor("U3", "forwarding sends of client datagrams in the association task", 1, len(fwd))
        # which field of the association is the reply address? the one the third slot of the reply tuple is read from (by role, not by name)
        addr_fields = set()
        for (blk, c, t) in b.calls():
            if c.method == "send" and "Sender" in c.self_s and len(t["args"]) > 1:
                p = op_place(t["args"][1])
                for d in (_agg_defs(b, p[0]) if p is not None else []):
                    if d[0] == "assign" and d[3]["rv"]["k"] == "agg" and d[3]["rv"]["ak"] in ("tuple", "adt") and len(d[3]["rv"]["ops"]) >= 3:
                        for o in d[3]["rv"]["ops"]:
                            pa = op_place(o)
                            if pa is not None and "SocketAddr" in b.local_ty(pa[0]) and "Session" not in b.local_ty(pa[0]):
                                addr_fields |= set(_self_fields_read(b, pa[0]))
        if not addr_fields:
            ctx.anchor_lost("U3", "the association field replies are addressed to")
        # the reply address of an association is only ever changed by a datagram that passed the replay filter: an authentic but
        # replayed datagram sent from elsewhere must not redirect the session's replies
        n_w = 0
        for blk in b.rpo():
            for s_ in b.stmts(blk):
                if s_["k"] != "assign":
                    continue
                pl = s_["p"]
                if not any(e[0] == "field" and len(e) > 2 and e[2] in addr_fields for e in pl[1]) or not any(e[0] == "deref" for e in pl[1]):
                    continue
                n_w += 1
                ok = False
                for (fb, fc, ft) in filt:
                    for g in gates_of_value(b, ft["dest"][0]):
                        if g.kind == "bool" and b.edge_dominates(g.block, g.bool_target(True), blk):
                            ok = True
                ctx.ob("U3", b.defp, "reply-address-changed-only-behind-filter", loc(s_["sp"]), ok,
                       "the association's reply address is updated from a datagram that passed the replay filter" if ok else
                       f"the association's reply address ({'/'.join(sorted(addr_fields))}) is overwritten from a datagram that has not passed the replay filter: a replayed "
                       "(authentic) datagram sent from another address redirects every later reply of the session to that address")
        if n_w == 0:
            ctx.ob("U3", b.defp, "reply-address-changed-only-behind-filter", loc(b.sp), True, "the association task never changes its reply address (fixed at creation)", nontrivial=False)
    lst = [prog.flat(b.defp, stop=lambda cb: not cb.defp.startswith("octo_squirrel_server::"), key="same-crate") for b in bodies
           if b.defp.startswith("octo_squirrel_server") and any(c.name == "UdpSocket::recv_from" for (_, c, _) in b.calls())]
    lst = [b for b in lst if any(c.name == "LruCache::get_mut" for (_, c, _) in b.calls())]
    ctx.floor("U3", "server UDP listener loop", 1, len(lst))
    for b in lst:
        for (blk, c, t) in b.calls():
            if c.name in ("LruCache::get_mut", "LruCache::insert"):
                p = op_place(t["args"][1])
                locs, _, _ = b.slice_back([p[0]]) if p else (set(), 0, 0)
                ok = any(_reads_field(b, l, "client_session_id") for l in locs)
                ctx.ob("U3", b.defp, f"table-key-is-decoded-session-id:{c.method}", loc(t["sp"]), ok, "association table key derives from the decoded client_session_id" if ok else "association table key does not derive from the decoded client_session_id")
            if c.name == "UdpSocket::send_to":
                p = op_place(t["args"][2])
                root = _copy_root(b, p[0]) if p else None
                # the binding's source must be the association's channel message (carries a Session), not a socket receive result
                # the association's message: a tuple / struct that carries the client address (not the `(usize, SocketAddr)` of a socket receive)
                rty_ = b.local_ty(root[0]) if root is not None else ""
                from_chan = root is not None and ("Session<" in rty_ and "SocketAddr" in rty_ or
                                                  any(it_["k"] == "struct" and re.search(r"\b" + re.escape(last_seg(it_["path"])) + r"\b", rty_) and
                                                      any("SocketAddr" in ft_ for (_, ft_) in it_["fields"]) and any("Session" in ft_ for (_, ft_) in it_["fields"]) for it_ in prog.items))
                from_sock = root is not None and "usize" in b.local_ty(root[0]).split("SocketAddr")[0][-12:]
                ctx.ob("U3", b.defp, "listener-replies-to-association-address", loc(t["sp"]), from_chan and not from_sock, "the listener replies to the address carried in the association's message" if from_chan and not from_sock else "reply address derives from the most recent inbound datagram instead of the association")

    # ---------------- U5 whole datagram or error ------------------------------------------------------------
    pk = [b for b in bodies if b.method == "encode_packet" and b.root == b.defp and "codec" in b.defp]
    ctx.floor("U5", "datagram (packet) encoders", 2, len(pk))
    for b in pk:
        bounded = []
        for (blk, c, t) in b.calls():
            cb = prog.body(c.target)
            if cb is not None and any(cc.name == "Ord::min" for (_, cc, _) in cb.calls()) and any(cc.method == "split_to" for (_, cc, _) in cb.calls()):
                bounded.append((blk, c, t))
        if not bounded:
            ctx.ob("U5", b.defp, "whole-datagram", loc(b.sp), True, "the datagram is sealed as one unit (no size-bounded chunking)")
            continue
        loops = bool(b.loops())
        checks = any(c.method in ("has_remaining", "remaining", "is_empty", "len") for (_, c, _) in b.calls())
        ok = loops or checks
        ctx.ob("U5", b.defp, "whole-datagram", loc(bounded[0][2]["sp"]), ok,
               "bounded chunk encoder is looped / the remainder is checked" if ok else
               f"{bounded[0][1].name} emits at most one size-limited chunk and the rest of the datagram is silently dropped (truncation of datagrams larger than the chunk limit)")

    # ---------------- U6 per-datagram target is not replaced from a partially keyed cache -----------------------
    from .common import partial_key_caches
    for (b, blk, t, mty, why, kind) in partial_key_caches(prog):
        if kind != "udp":
            continue
        ctx.ob("U6", b.defp, "address-cache-keyed-by-whole-address", loc(t["sp"]), False,
               f"lookup in {mty[:80]}: {why}: a datagram for the same host on another port is sent to the port of an earlier datagram, and its "
               "answer comes back labelled with the wrong address")
    ctx.note("U6: %d lookups in address-valued maps keyed by part of the address" % len([1 for x in partial_key_caches(prog) if x[5] == "udp"]))


def _agg_defs(b, local, depth=0):
    """definitions of the value held by `local`, looking through plain moves / copies (`let msg = Msg {..}; send(msg)`)"""
    out = []
    if depth > 6:
        return out
    for d in b.defs().get(local, []):
        if d[0] == "assign" and d[3]["rv"]["k"] == "use":
            q = op_place(d[3]["rv"]["op"])
            if q is not None and not q[1]:
                out += _agg_defs(b, q[0], depth + 1)
                continue
        out.append(d)
    return out


def _copy_root(b, local, depth=0):
    """follow plain copies/moves back to the first projection: returns the place (base, proj) the value was bound from"""
    if depth > 10:
        return None
    for d in b.defs().get(local, []):
        if d[0] == "assign" and d[3]["rv"]["k"] == "use":
            p = op_place(d[3]["rv"]["op"])
            if p is None:
                continue
            if p[1]:
                return p
            return _copy_root(b, p[0], depth + 1)
    return None


def _uses_field(b, local, field_idx):
    """does the body read `_local.<field_idx>` (first projection)"""
    for blk in b.rpo():
        for s in b.stmts(blk):
            if s["k"] == "assign":
                for o in b.operands_of_rvalue(s["rv"]):
                    p = op_place(o)
                    if p and p[0] == local and p[1] and p[1][0][0] == "field" and p[1][0][1] == field_idx:
                        return True
    return False


def _reads_field(b, l, fname):
    for d in b.defs().get(l, []):
        if d[0] == "assign":
            rv = d[3]["rv"]
            pp = rv.get("p") if rv["k"] == "ref" else (op_place(rv.get("op")) if rv["k"] == "use" else None)
            if pp and any(e[0] == "field" and e[2] == fname for e in pp[1]):
                return True
    return False


def _self_fields_read(b, local, depth=0):
    """names of the fields (behind a dereference: of self / a captured self) this value is copied from, following moves and copies only"""
    out = []
    if depth > 6:
        return out
    for d in b.defs().get(local, []):
        if d[0] != "assign":
            continue
        rv = d[3]["rv"]
        q = op_place(rv.get("op")) if rv["k"] in ("use", "cast") else (rv.get("p") if rv["k"] == "ref" else None)
        if q is None:
            continue
        names = [e[2] for e in q[1] if e[0] == "field" and len(e) > 2 and e[2]]
        if names and any(e[0] == "deref" for e in q[1]):
            out.append(names[-1])
        elif not q[1]:
            out += _self_fields_read(b, q[0], depth + 1)
    return out


def _derives_from_self_field(b, local, fname):
    locs, _, _ = b.slice_back([local])
    return any(_reads_field(b, l, fname) for l in locs | {local})


def _is_upvar(b, callee, name):
    p = op_place(callee.f["indirect"])
    if p is None:
        return False
    locs, _, _ = b.slice_back([p[0]])
    if any(b.local_name(l) == name for l in locs | {p[0]}):
        return True
    return _slice_has_upvar(b, locs | {p[0]}, name)


def _slice_has_upvar(b, locs, name):
    for l in locs:
        for d in b.defs().get(l, []):
            if d[0] == "assign":
                rv = d[3]["rv"]
                pp = rv.get("p") if rv["k"] == "ref" else (op_place(rv.get("op")) if rv["k"] == "use" else None)
                if pp and pp[0] == 1 and b.upvar_name(pp) == name:
                    return True
    return False


MAX_DATAGRAM = 65507     # largest UDP payload over IPv4 (65535 - 8 - 20)
RECV_SLICE = ("recv_from", "recv", "peek_from", "peek", "try_recv_from", "try_recv", "try_peek_from")
RECV_BUFMUT = ("recv_buf_from", "recv_buf", "try_recv_buf_from", "try_recv_buf")
SHRINKERS = ("split", "split_to", "split_off", "freeze", "advance", "truncate_front")


def _const_of_arg(b, op):
    from ..mir import op_int
    k = op_int(op)
    if k is not None:
        return k
    p = op_place(op)
    if p is None:
        return None
    for d in b.defs().get(p[0], []):
        if d[0] == "assign" and d[3]["rv"]["k"] in ("use", "cast"):
            return _const_of_arg(b, d[3]["rv"]["op"])
    return None


def u7_receive_buffers(ctx):
    """U7: a datagram is delivered whole or not at all. The OS cuts a datagram to the space offered to the receive call, silently: every
    receive on a UDP socket must offer room for the largest datagram, on every iteration of its loop."""
    prog = ctx.prog
    n = 0
    for b in prog.prod_bodies():
        if "::_" in b.defp:
            continue
        for (blk, c, t) in b.calls():
            if "UdpSocket" not in (c.self_s or c.target) or c.method not in RECV_SLICE + RECV_BUFMUT or len(t["args"]) < 2:
                continue
            p = op_place(t["args"][1])
            if p is None:
                continue
            n += 1
            locs, calls, _ = b.slice_back([p[0]], stop_call=lambda cc: cc.method not in ("index_mut", "deref_mut", "as_mut", "as_mut_slice", "borrow_mut"))
            locs |= {p[0]}
            where = loc(t["sp"])
            if c.method in RECV_SLICE:
                sizes = []
                for l in locs:
                    m = re.match(r"^\[u8; (\d+)\]$", b.local_ty(l).strip())
                    if m:
                        sizes.append(int(m.group(1)))
                sub = [cc for (_, cc, tt) in calls if cc.method == "index_mut" and "RangeFull" not in str(cc.f)]
                if not sizes:
                    # a heap buffer: vec![0; K]
                    for (_, cc, tt) in b.calls():
                        if cc.target.endswith("from_elem") and tt["dest"][0] in b.slice_back([p[0]])[0]:
                            k = _const_of_arg(b, tt["args"][1]) if len(tt["args"]) > 1 else None
                            if k is not None:
                                sizes.append(k)
                if not sizes or sub:
                    ctx.ob("U7", b.defp, f"receive-buffer-holds-any-datagram:{c.method}", where, False,
                           "the size of the buffer offered to the receive call cannot be established (not a fixed-size array / vec![0; K], or a sub-slice of it)")
                    continue
                ok = min(sizes) >= MAX_DATAGRAM
                ctx.ob("U7", b.defp, f"receive-buffer-holds-any-datagram:{c.method}", where, ok,
                       f"receive buffer of {min(sizes)} bytes" + ("" if ok else f": a datagram of up to {MAX_DATAGRAM} bytes is cut to {min(sizes)} by the OS without an error"))
                continue
            # BufMut receives: only the spare capacity is offered, and it is never grown by the call
            bufs = [l for l in locs if re.search(r"\b(BytesMut|Vec<u8>)$", b.local_ty(l).strip()) and not b.local_ty(l).strip().startswith("&")]
            lp_ = b.innermost_loop(blk)
            loop_ = lp_[1] if lp_ else None
            inloop = (lambda x: x in loop_) if loop_ else (lambda x: True)
            verdict, why = False, "the spare capacity offered to the receive call is not re-established in the loop"
            for bl in bufs:
                users = [(bb, cc, tt) for (bb, cc, tt) in b.calls() if tt["args"] and op_place(tt["args"][0]) and
                         bl in (b.slice_back([op_place(tt["args"][0])[0]], stop_call=lambda cc: True)[0] | {op_place(tt["args"][0])[0]})]
                creators = [(bb, cc, tt) for (bb, cc, tt) in b.calls() if tt["dest"][0] == bl and cc.method in ("with_capacity", "zeroed")]
                cap = max([_const_of_arg(b, tt["args"][0]) or 0 for (_, _, tt) in creators] or [0])
                fresh = any(inloop(bb) and b.dominates(bb, blk) and (_const_of_arg(b, tt["args"][0]) or 0) >= MAX_DATAGRAM for (bb, _, tt) in creators) and bool(loop_)
                reserved = any(cc.method == "reserve" and inloop(bb) and b.dominates(bb, blk) and len(tt["args"]) > 1 and (_const_of_arg(b, tt["args"][1]) or 0) >= MAX_DATAGRAM for (bb, cc, tt) in users)
                shrinks = sorted({cc.method for (bb, cc, tt) in users if cc.method in SHRINKERS and inloop(bb)})
                cleared = any(cc.method == "clear" and inloop(bb) and b.dominates(bb, blk) for (bb, cc, tt) in users)
                if fresh or reserved or not loop_ and cap >= MAX_DATAGRAM:
                    verdict, why = True, "a full-size buffer is created / reserved before every receive"
                elif cap >= MAX_DATAGRAM and cleared and not shrinks:
                    verdict, why = True, "the buffer is cleared before every receive and never split: its capacity stays"
                else:
                    why = (f"the buffer is created once with capacity {cap} and then {'/'.join(shrinks) or 'filled'} in the loop without a reserve: what is split off takes its part of the "
                           "capacity along, so the room offered to later receives shrinks until a datagram no longer fits and is cut short by the OS (recv_buf_from never grows the buffer)")
            ctx.ob("U7", b.defp, f"receive-buffer-holds-any-datagram:{c.method}", where, verdict, why)
    ctx.floor("U7", "receive calls on UDP sockets", 2, n)


OPEN_METHODS = ("decrypt_in_place", "decrypt_in_place_detached", "open")


def u8_one_datagram_per_decode(ctx):
    """U8: a datagram is never merged with its neighbour. The function whose result becomes the payload of a datagram message (a `*Udp*`
    variant of the inbound enum, or the (bytes, address) item of a datagram codec) decodes ONE unit: in its flat view no AEAD open may lie
    on a cycle — a decoder that loops over every complete chunk in the buffer (the stream body decoder) concatenates datagrams that arrived
    in one read."""
    prog = ctx.prog
    producers = {}
    for b in prog.prod_bodies():
        if "::_" in b.defp or not b.defp.startswith("octo_squirrel"):
            continue
        udp_aggs = []
        for blk in b.rpo():
            for s in b.stmts(blk):
                if s["k"] == "assign" and s["rv"]["k"] == "agg" and s["rv"].get("ak") == "adt" and "Udp" in str(s["rv"].get("variant")) and s["rv"]["ops"]:
                    udp_aggs.append((blk, s))
        if not udp_aggs:
            continue
        for (blk, s) in udp_aggs:
            srcs = [op_place(o)[0] for o in s["rv"]["ops"] if op_place(o)]
            _, calls, _ = b.slice_back(srcs)
            for (cb, c, t) in calls:
                tb = prog.body(c.target)
                if tb is None or tb.root == b.root or not c.target.startswith("octo_squirrel"):
                    continue
                rty = b.local_ty(t["dest"][0])
                if "BytesMut" in rty and ("Option<" in rty or "Result<" in rty):
                    producers.setdefault(tb.root, (b, t))
    ctx.floor("U8", "functions whose result becomes a datagram message", 1, len(producers))
    for root, (b, t) in sorted(producers.items()):
        fb = prog.flat(root, max_depth=3)
        opens = [blk for (blk, c, _) in fb.calls() if c.method in OPEN_METHODS and fb.term(blk)["k"] == "call"]
        cyc = [blk for blk in opens if any(fb.can_reach(sx, blk) for sx in fb.succ(blk))]
        ctx.ob("U8", root, "one-unit-per-datagram-decode", loc(t["sp"]), not cyc,
               f"{len(opens)} AEAD open call(s), none on a cycle: one unit is decoded per call" if not cyc else
               "the function that produces a datagram's payload loops over the AEAD open: every complete chunk that is buffered is opened and appended to one output, "
               "so datagrams that arrived in the same read are delivered merged into one", ordinal=False)
