"""Obligation bookkeeping, known-finding matching, evidence and the command line."""
import argparse
import importlib
import json
import os
import sys
import time

from . import facts
from .mir import Program

VERIF = facts.VERIF
KNOWN = os.path.join(VERIF, "known-findings.json")
REVIEWED = os.path.join(VERIF, "tables", "reviewed-safe.json")

PROPS = ["C01", "C02", "C03", "C04", "C05", "C06", "C07", "C08", "C09", "C10", "C11", "C12", "C13", "C14", "C15", "C16"]


class Ob:
    __slots__ = ("rule", "key", "where", "ok", "detail", "nontrivial", "verdict", "path", "defp", "premise_failed")

    def __init__(self, rule, key, where, ok, detail, nontrivial=True, path=None):
        self.rule = rule
        self.key = key
        self.where = where
        self.ok = ok
        self.detail = detail
        self.nontrivial = nontrivial
        self.verdict = "discharged" if ok else "violation"
        self.path = path
        self.defp = None
        self.premise_failed = False

    def to_json(self):
        d = {"rule": self.rule, "key": self.key, "where": self.where, "verdict": self.verdict, "detail": self.detail}
        if self.path:
            d["path"] = self.path
        return d


def premise_str_index_from_search(prog, defp, where):
    """every `str` slice on that source line takes its bounds from a search on a string (find / rfind / len / char_indices ..): such an
    index is a char boundary inside the string. A bound that is a bare non-zero constant (or anything else) is not."""
    b = prog.bodies.get(defp)
    if b is None:
        return False
    try:
        line = int(where.rsplit(":", 1)[1])
    except (ValueError, IndexError):
        return False
    from .mir import op_place, op_int
    searches = ("find", "rfind", "len", "char_indices", "rsplit_once", "split_once", "match_indices", "rmatch_indices", "find_map", "position", "rposition")
    found = False

    def ascii_guarded(fb, blk):
        """the slice sits behind the true edge of an `is_ascii()` test in the enclosing function (every byte offset of an ASCII string
        is a char boundary): directly, or the closure it lives in is created behind that edge"""
        from .rules.common import gates_of_value
        root = prog.bodies.get(fb.root)
        if root is None:
            return False
        if getattr(fb, "is_flat", False):
            blk = fb.origin_blk[blk]
        sites = [blk] if fb.defp == root.defp else [rb for rb in root.rpo() for s_ in root.stmts(rb)
                                           if s_["k"] == "assign" and s_["rv"]["k"] == "agg" and s_["rv"].get("ak") == "closure" and s_["rv"].get("def") == fb.defp]
        for (ab, ac, at) in root.calls():
            if ac.method != "is_ascii":
                continue
            for g in gates_of_value(root, at["dest"][0]):
                if g.kind == "bool" and sites and all(root.edge_dominates(g.block, g.bool_target(True), sb) for sb in sites):
                    return True
        return False

    for fb0 in prog.family(b.root):
        fb = prog.flat(fb0.defp)       # an index computed by a helper (`port_separator(path)`) is followed into the helper
        for (blk, c, t) in fb.calls():
            if c.method not in ("index", "index_mut", "get", "get_mut", "split_at") or "str" not in c.target or not t.get("sp") or t["sp"][1] != line or len(t["args"]) < 2:
                continue
            if fb.origin[blk] != fb0.defp:
                continue
            found = True
            if ascii_guarded(fb, blk):
                continue
            p = op_place(t["args"][1])
            if p is None:
                if op_int(t["args"][1]) not in (0, None):
                    return False
                continue
            seen, calls, consts = fb.slice_back([p[0]])
            # the search must have been made on (a part of) the string that is being sliced, not on some other string
            rp = op_place(t["args"][0])
            str_roots = fb.slice_back([rp[0]])[0] if rp is not None else set()
            ok_search = False
            for (_, cc, ct) in calls:
                if cc.method in searches and ct["args"]:
                    sp_ = op_place(ct["args"][0])
                    if sp_ is not None and (fb.slice_back([sp_[0]])[0] & str_roots):
                        ok_search = True
            if not ok_search:
                return False
    return found


PREMISES = {"str-index-from-search": premise_str_index_from_search}


class Ctx:
    def __init__(self, prog, prop, tier):
        self.prog = prog
        self.prop = prop
        self.tier = tier
        self.obs = []
        self.floors = []  # (rule, what, expected, found)
        self.anchors_lost = []
        self.notes = []
        self._ord = {}
        self.reviewed = {}
        if os.path.exists(REVIEWED):
            for e in json.load(open(REVIEWED)):
                self.reviewed[e["key"]] = e

    def ob(self, rule, fn, what, where, ok, detail, nontrivial=True, path=None, ordinal=True):
        """Record an obligation. Key = rule|fn|what[|n] where n counts same-key obligations in order."""
        fn_defp = fn
        fn = self.prog.display(fn)
        k0 = f"{rule}|{fn}|{what}"
        if ordinal:
            n = self._ord.get(k0, 0)
            self._ord[k0] = n + 1
            key = f"{k0}|{n}"
        else:
            key = k0
        o = Ob(rule, key, where, ok, detail, nontrivial, path)
        o.defp = fn_defp
        if not ok and key in self.reviewed:
            prem = self.reviewed[key].get("premise")
            if prem and not PREMISES[prem](self.prog, fn_defp, where):
                o.detail += f" [listed as reviewed-safe, but its premise `{prem}` does not hold for the code that is at this site now]"
                o.premise_failed = True
            else:
                o.verdict = "reviewed-safe"
                o.detail += " [reviewed-safe: " + self.reviewed[key]["reason"] + "]"
        self.obs.append(o)
        return o

    def floor(self, rule, what, expected, found):
        self.floors.append((rule, what, expected, found))

    def anchor_lost(self, rule, what):
        self.anchors_lost.append((rule, what))

    def note(self, s):
        self.notes.append(s)


def load_known():
    if not os.path.exists(KNOWN):
        return []
    return json.load(open(KNOWN))


def run_property(prop, repo, tier, replay=None, quiet=False):
    t0 = time.time()
    log = []
    seed = int(os.environ.get("VERIF_SEED", "0") or 0)
    evidence_path = os.path.join(VERIF, "evidence", f"{prop}.json")
    try:
        out = facts.build(repo, "quick", log=log)
        units = facts.load(out)
    except facts.BuildError as e:
        print(f"BUILD-FAILED property={prop}: {e}")
        print(f"VIOLATION property={prop} replay=none (the working tree could not be analysed; an unchecked property never passes)")
        _write_evidence(evidence_path, prop, tier, seed, None, [], [], [], time.time() - t0, log, failed=str(e)[:500])
        return 1
    prog = Program(units)
    ctx = Ctx(prog, prop, tier)
    ctx.repo = repo
    mod = importlib.import_module(f"osq.rules.{prop.lower()}")
    try:
        mod.run(ctx)
    except Exception as e:     # a rule that cannot digest the tree must never look like a pass
        import traceback
        tb = traceback.format_exc()
        print(f"CHECKER-CRASHED property={prop}: {type(e).__name__}: {e}\n{tb[-1500:]}")
        print(f"VIOLATION property={prop} replay=none (the rules could not be evaluated on this tree; an unchecked property never passes)")
        _write_evidence(evidence_path, prop, tier, seed, None, [], [], [], time.time() - t0, log, failed=f"rule crash: {type(e).__name__}: {e}")
        return 1

    known = [k for k in load_known() if k["property"] == prop]
    known_keys = {k["key"]: k for k in known if k.get("status", "known") == "known"}
    rc = 0
    violations = []
    known_hits = []
    for o in ctx.obs:
        if o.verdict != "violation":
            continue
        if o.key in known_keys:
            o.verdict = "known-finding"
            known_hits.append(o)
        else:
            violations.append(o)
    violations, relocated = relocate(ctx, violations, known_keys, {o.key for o in known_hits})
    for (o, k) in relocated:
        known_hits.append(o)
    if replay:
        want = json.load(open(replay)).get("key")
        violations = [v for v in violations if v.key == want]
    seen_known = set()
    reloc_ids = {id(o) for (o, _) in relocated}
    for o in known_hits:
        if o.key in seen_known or id(o) in reloc_ids:
            continue
        seen_known.add(o.key)
        print(f"KNOWN-FINDING: property={prop} {o.key} :: {known_keys[o.key]['what']} ({o.where})")
    for (o, k) in relocated:
        seen_known.add(k)
        print(f"KNOWN-FINDING: property={prop} {k} :: {known_keys[k]['what']} (same finding, now reported as {o.key} at {o.where}: the code moved)")
    for k in known_keys:
        if k not in seen_known and not quiet:
            print(f"STALE-KNOWN-FINDING: property={prop} {k} (listed but no longer reported)")
    os.makedirs(os.path.join(VERIF, "replay"), exist_ok=True)
    for (rule, what, expected, found) in ctx.floors:
        if found < expected:
            rc = 1
            p = _write_replay(prop, len(violations), {"rule": rule, "key": f"COVERAGE-LOST|{rule}|{what}", "detail": f"expected>={expected} found={found}"})
            print(f"COVERAGE-LOST property={prop} rule={rule} what={what} expected>={expected} found={found}")
            print(f"VIOLATION property={prop} replay={p}")
    for (rule, what) in ctx.anchors_lost:
        rc = 1
        p = _write_replay(prop, 900, {"rule": rule, "key": f"ANCHOR-LOST|{rule}|{what}", "detail": "anchor not found"})
        print(f"ANCHOR-LOST property={prop} rule={rule} what={what}")
        print(f"VIOLATION property={prop} replay={p}")
    for i, o in enumerate(violations):
        rc = 1
        p = _write_replay(prop, i, o.to_json())
        print(f"FAIL rule={o.rule} key={o.key} at {o.where}: {o.detail}")
        print(f"VIOLATION property={prop} replay={p}")
    if tier == "thorough" and not replay:
        st = selftest(prop, repo, log)
        ctx.selftest = st
        for row in st:
            print(f"SELFTEST property={prop} seeded={row['seeded']} {row['result']}" + (f" new-violations={row['new_violations']}" if "new_violations" in row else ""))
            if row["result"] == "MISSED":
                print(f"CHECKER-SELFTEST-FAILED property={prop} seeded={row['seeded']}: a change that is known to break {prop} "
                      f"(demonstrated by execution, see seeded/{row['seeded']}/) is no longer reported; the check cannot be trusted")
                rc = rc or 2
    _write_evidence(evidence_path, prop, tier, seed, ctx, violations, known_hits, getattr(mod, "EXPLANATION", ""), time.time() - t0, log,
                    assumptions=getattr(mod, "ASSUMPTIONS", []))
    if not quiet:
        n = len(ctx.obs)
        nd = sum(1 for o in ctx.obs if o.verdict == "discharged")
        nr = sum(1 for o in ctx.obs if o.verdict == "reviewed-safe")
        print(f"{prop}: obligations={n} discharged={nd} reviewed-safe={nr} known-findings={len(known_hits)} violations={len(violations)} "
              f"bodies={len(prog.bodies)} wall={time.time() - t0:.1f}s")
    return rc


def _sig(key):
    """(rule, what) of an obligation key `rule|function|what[|ordinal]`"""
    parts = key.split("|")
    what = parts[2] if len(parts) > 2 else ""
    return parts[0], what


def relocate(ctx, violations, known_keys, hit_keys):
    """A listed finding is identified by rule, function and site. A behaviour-preserving edit (rename, extracted helper, moved code, a
    sibling site added or removed before it) changes the function name or the ordinal in the key while the defect is the same one.
    A violation that is not listed is therefore matched against the *stale* listed findings (listed, not reported in this run) of the same
    rule and the same site description, one-to-one; if one exists the violation is that finding at its new place. A violation with no
    stale counterpart is new and is reported. The same is done for reviewed-safe entries (their reason is about the site, not its name)."""
    stale = [k for k in known_keys if k not in hit_keys]
    by_sig = {}
    for k in stale:
        by_sig.setdefault(_sig(k), []).append(k)
    # C04's R4b sites share C07's (P2) reviewed-safe entries: the obligation is the same read, judged by two properties
    alias = {"R4b": "P2"}
    # an entry is in use when an *unproven* obligation carries its key (a discharged obligation that happens to have the key of a
    # listed site — the ordinal shifted — does not use it up)
    unproven = [o for o in ctx.obs if o.verdict != "discharged"]
    present = {o.key for o in unproven} | {alias[o.rule] + "|" + o.key.split("|", 1)[1] for o in unproven if o.rule in alias}
    rules_here = {o.rule for o in ctx.obs} | {alias[o.rule] for o in ctx.obs if o.rule in alias}
    # an entry can move only within the checks that use it on the unchanged tree (`scope`, tools/review_scope.py): an entry this property never
    # used is not "stale" here - it would otherwise absorb the first new violation of its kind
    stale_rev = [k for k in ctx.reviewed if k not in present and k.split("|")[0] in rules_here and
                 ("scope" not in ctx.reviewed[k] or ctx.prop in ctx.reviewed[k]["scope"])]
    rev_by_sig = {}
    for k in stale_rev:
        rev_by_sig.setdefault(_sig(k), []).append(k)
    out, relocated = [], []
    pending = []
    for o in violations:
        sg = _sig(o.key)
        if by_sig.get(sg):
            k = by_sig[sg].pop(0)
            o.verdict = "known-finding"
            relocated.append((o, k))
        else:
            pending.append(o)
    # reviewed-safe entries: first give every site the entry whose mechanical premise it satisfies, then hand out the entries that have
    # no premise (so that an entry without a premise is not used up by a site that had a better match)
    for want_premise in (True, False):
        rest = []
        for o in pending:
            sg = _sig(o.key)
            k = _pick_reviewed(ctx, rev_by_sig, sg, alias, o, take=True, want_premise=want_premise)
            if k is not None:
                o.verdict = "reviewed-safe"
                o.detail += " [reviewed-safe entry " + k + " (site moved): " + ctx.reviewed[k]["reason"] + "]"
            else:
                rest.append(o)
        pending = rest
    out = pending
    return out, relocated


def _pick_reviewed(ctx, rev_by_sig, sg, alias, o, take=False, want_premise=None):
    """first unused reviewed-safe entry of that signature whose premise (if it has one) holds for the code at the violation's site"""
    for key in dict.fromkeys((sg, (alias.get(sg[0], sg[0]), sg[1]))):
        lst = rev_by_sig.get(key) or []
        for i, k in enumerate(lst):
            if want_premise is not None and bool(ctx.reviewed[k].get("premise")) != want_premise:
                continue
            if _premise_ok(ctx, k, o):
                if take:
                    lst.pop(i)
                return k
    return None


def _premise_ok(ctx, rkey, o):
    prem = ctx.reviewed[rkey].get("premise")
    if not prem:
        return True
    return bool(o.defp) and PREMISES[prem](ctx.prog, o.defp, o.where)


def selftest(prop, repo, log):
    """Thorough tier: sensitivity self-test. Every seeded change that is recorded as breaking `prop` (seeded/<id>/meta.json
    lists the properties whose check must report it) is applied to a scratch copy of the *current working tree* (outside /repo
    and /verif, removed afterwards), the copy is analysed (never run) and the check must report at least one violation that
    is not reported on the unchanged tree. A patch that no longer applies to the current tree is skipped, not failed."""
    import shutil
    import subprocess
    import tempfile
    rows = []
    sd = os.path.join(VERIF, "seeded")
    if not os.path.isdir(sd):
        return rows
    base_keys = None
    for idn in sorted(os.listdir(sd)):
        mp = os.path.join(sd, idn, "meta.json")
        if not os.path.exists(mp):
            continue
        meta = json.load(open(mp))
        if prop not in meta.get("must_be_caught_by", []):
            continue
        if base_keys is None:
            base_keys = _violation_keys(prop, facts.load(facts.build(repo, "quick", log=log)), repo)
        scratch = tempfile.mkdtemp(prefix=f"osq-selftest-{prop}-{idn}-")
        try:
            dst = os.path.join(scratch, "tree")
            shutil.copytree(repo, dst, symlinks=True, ignore=shutil.ignore_patterns(".git", "target"))
            a = subprocess.run(["git", "apply", "--unsafe-paths", os.path.join(sd, idn, "patch.diff")], cwd=dst, capture_output=True, text=True)
            if a.returncode != 0:
                rows.append({"seeded": idn, "result": "SKIPPED (patch does not apply to the current tree)"})
                continue
            try:
                keys = _violation_keys(prop, facts.load(facts.build(dst, "quick", log=log)), dst)
            except facts.BuildError as e:
                rows.append({"seeded": idn, "result": "SKIPPED (patched copy does not compile: " + str(e)[:120] + ")"})
                continue
            new = sorted(keys - base_keys)
            rows.append({"seeded": idn, "result": "CAUGHT" if new else "MISSED", "new_violations": len(new), "keys": new[:5]})
        finally:
            shutil.rmtree(scratch, ignore_errors=True)
    return rows


def _violation_keys(prop, units, repo=None):
    """keys the check would print a VIOLATION line for on this fact base (after known-finding matching and relocation)"""
    prog = Program(units)
    ctx = Ctx(prog, prop, "quick")
    ctx.repo = repo
    importlib.import_module(f"osq.rules.{prop.lower()}").run(ctx)
    known_keys = {k["key"]: k for k in load_known() if k["property"] == prop and k.get("status", "known") == "known"}
    viol = [o for o in ctx.obs if o.verdict == "violation" and o.key not in known_keys]
    hits = {o.key for o in ctx.obs if o.verdict == "violation" and o.key in known_keys}
    viol, _ = relocate(ctx, viol, known_keys, hits)
    keys = {o.key for o in viol}
    keys |= {f"COVERAGE-LOST|{r}|{w}" for (r, w, e, f) in ctx.floors if f < e}
    keys |= {f"ANCHOR-LOST|{r}|{w}" for (r, w) in ctx.anchors_lost}
    return keys


def _write_replay(prop, i, payload):
    p = os.path.join(VERIF, "replay", f"{prop}-{i}.json")
    with open(p, "w") as fh:
        json.dump(payload, fh, indent=1)
    return p


def _write_evidence(path, prop, tier, seed, ctx, violations, known_hits, explanation, wall, log, failed=None, assumptions=None):
    os.makedirs(os.path.dirname(path), exist_ok=True)
    if ctx is None:
        ev = {
            "property_id": prop, "tier": tier, "seed": seed, "level": "other",
            "coverage": {"explanation": "analysis did not run: " + (failed or ""), "evaluations": 0},
            "wall_s": round(wall, 2), "violations": 1,
        }
    else:
        obs = ctx.obs
        rules = sorted({o.rule for o in obs})
        nontriv = {(o.rule, o.key.split("|")[1]) for o in obs if o.nontrivial}
        samples = []
        per_rule = {}
        for o in obs:
            per_rule.setdefault(o.rule, []).append(o)
        for r in rules:
            for o in per_rule[r][:3]:
                samples.append(o.to_json())
        for o in violations[:10] + known_hits[:10]:
            samples.append(o.to_json())
        calls = sum(len(b.calls()) for b in ctx.prog.bodies.values())
        ev = {
            "property_id": prop, "tier": tier, "seed": seed, "level": "other",
            "coverage": {
                "explanation": explanation,
                "evaluations": len(obs),
                "distinct_nontrivial": len(nontriv),
                "rule": "one obligation per rule instance found in the MIR/HIR facts of the current working tree; "
                        "non-trivial = needed a guard / derivation / table agreement to discharge; distinct = (rule, function) pairs",
                "samples": samples,
                "obligations": len(obs),
                "discharged": sum(1 for o in obs if o.verdict == "discharged"),
                "reviewed_safe": sum(1 for o in obs if o.verdict == "reviewed-safe"),
                "known_findings": len(known_hits),
                "violations": len(violations),
                "rules": {r: len(per_rule[r]) for r in rules},
                "floors": [{"rule": r, "what": w, "expected_at_least": e, "found": f} for (r, w, e, f) in ctx.floors],
                "units": sorted(ctx.prog.units.keys()),
                "functions_analysed": len(ctx.prog.bodies),
                "call_sites": calls,
                "checker_cmd": f"./check {prop} --tier {tier}",
                "trusted_base": ["rustc nightly type checker / MIR construction / Instance resolution", "osq-lint fact dump",
                                 "contracts of bytes, aead, tokio-util, futures as read in their cached sources"],
                "exhaustive": True,
                "notes": ctx.notes + log,
                **({"selftest": ctx.selftest} if getattr(ctx, "selftest", None) is not None else {}),
            },
            "assumptions": assumptions or [],
            "wall_s": round(wall, 2),
            "violations": len(violations),
        }
    with open(path, "w") as fh:
        json.dump(ev, fh, indent=1)


def main(argv=None):
    ap = argparse.ArgumentParser()
    ap.add_argument("prop")
    ap.add_argument("--tier", default=os.environ.get("VERIF_TIER", "quick"))
    ap.add_argument("--repo", default="/repo")
    ap.add_argument("--replay", default=None)
    a = ap.parse_args(argv)
    if a.tier not in ("quick", "thorough"):
        a.tier = "quick"
    if a.prop == "all":
        rc = 0
        for p in PROPS:
            try:
                rc |= run_property(p, a.repo, a.tier)
            except ModuleNotFoundError:
                print(f"{p}: no rules yet")
        return rc
    return run_property(a.prop, a.repo, a.tier, a.replay)
