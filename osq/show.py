"""Developer aid: pretty-print dumped MIR bodies.  python3 -m osq.show <def-suffix> [repo]"""
import sys
from . import facts
from .mir import Program, Callee, loc


def pp_place(b, p):
    s = f"_{p[0]}"
    n = b.local_name(p[0])
    if n:
        s += f"({n})"
    for e in p[1]:
        if e[0] == "deref":
            s = f"(*{s})"
        elif e[0] == "field":
            s += f".{e[2] if e[2] else e[1]}"
        elif e[0] == "downcast":
            s += f"@{e[1]}"
        elif e[0] == "index":
            s += f"[_{e[1]}]"
        else:
            s += f"[{e}]"
    return s


def pp_op(b, o):
    if "copy" in o:
        return pp_place(b, o["copy"])
    if "move" in o:
        return "move " + pp_place(b, o["move"])
    if "const" in o:
        c = o["const"]
        if "int" in c:
            return f"{c['int']}{c['ty']}"
        if "str" in c:
            return repr(c["str"])
        if "fn" in c:
            return "fn:" + Callee(c["fn"]).name
        if "param" in c:
            return "param " + c["param"]
        if "item" in c:
            return "const " + c["item"]
        return f"const<{c['ty']}>"
    return str(o)


def pp_rv(b, rv):
    k = rv["k"]
    if k == "use":
        return pp_op(b, rv["op"])
    if k == "ref":
        return ("&mut " if rv["mut"] else "&") + pp_place(b, rv["p"])
    if k == "rawptr":
        return "&raw " + pp_place(b, rv["p"])
    if k == "cast":
        return f"{pp_op(b, rv['op'])} as {rv['to']} [{rv['ck']}]"
    if k == "bin":
        return f"{rv['op']}({pp_op(b, rv['a'])}, {pp_op(b, rv['b'])})"
    if k == "un":
        return f"{rv['op']}({pp_op(b, rv['a'])})"
    if k == "discr":
        return f"discr({pp_place(b, rv['p'])})"
    if k == "agg":
        nm = rv["ak"]
        if nm == "adt":
            nm = rv["def"].rsplit("::", 1)[-1] + "::" + rv["variant"]
        elif nm in ("closure", "coroutine"):
            nm += ":" + rv["def"]
        return f"{nm}{{{', '.join(pp_op(b, o) for o in rv['ops'])}}}"
    if k == "repeat":
        return f"[{pp_op(b, rv['op'])}; {rv['n']}]"
    return str(rv)


def show(b):
    print(f"=== {b.defp}  [{b.kind}] {loc(b.sp)} unit={b.unit} argc={b.argc}")
    for i, l in enumerate(b.locals):
        if l.get("name") or i <= b.argc:
            print(f"   _{i}: {l['ty'].get('s')} {l.get('name', '')}")
    for name, p in b.j.get("upvars", []):
        print(f"   upvar {name} = {pp_place(b, p)}")
    reach = b.reachable_blocks()
    for i, blk in enumerate(b.blocks):
        if i not in reach:
            continue
        print(f" bb{i}:{' (cleanup)' if blk['cleanup'] else ''}")
        for s in blk["s"]:
            if s["k"] == "assign":
                print(f"     {pp_place(b, s['p'])} = {pp_rv(b, s['rv'])}    // L{s['sp'][1]}{' exp' if s['sp'][3] else ''}")
            elif s["k"] == "setdiscr":
                print(f"     discr({pp_place(b, s['p'])}) = {s['v']}")
        t = blk["t"]
        if not t:
            continue
        k = t["k"]
        if k == "call":
            c = Callee(t["f"])
            ind = ""
            if c.indirect:
                ind = pp_op(b, t["f"]["indirect"])
            print(f"     {pp_place(b, t['dest'])} = CALL {c.name}{ind} [{c.target}]({', '.join(pp_op(b, a) for a in t['args'])}) -> bb{t['t']}   // L{t['sp'][1]}{' exp' if t['sp'][3] else ''}")
        elif k == "switch":
            print(f"     SWITCH {pp_op(b, t['d'])} {[(a[0], 'bb%d' % a[1]) for a in t['arms']]} else bb{t['otherwise']}   // L{t['sp'][1]}")
        elif k == "assert":
            print(f"     ASSERT {t['msg']} {pp_op(b, t['cond'])}=={t['expected']} -> bb{t['t']}  // L{t['sp'][1]}")
        elif k == "drop":
            print(f"     DROP {pp_place(b, t['p'])} -> bb{t['t']}")
        elif k == "yield":
            print(f"     YIELD -> bb{t['t']}")
        elif k in ("goto", "false_edge", "false_unwind"):
            print(f"     {k} -> bb{t['t']}" + (f" (imag bb{t['imaginary']})" if k == "false_edge" else ""))
        else:
            print(f"     {k}")


if __name__ == "__main__":
    repo = sys.argv[2] if len(sys.argv) > 2 else "/repo"
    prog = Program(facts.load(facts.build(repo)))
    for b in sorted(prog.bodies.values(), key=lambda b: b.defp):
        if b.defp.endswith(sys.argv[1]) or (sys.argv[1].endswith("*") and sys.argv[1][:-1] in b.defp):
            show(b)
