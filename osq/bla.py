"""B5 — buffer-length abstract interpretation over the dumped MIR.

Tracks, per program point, the *symbolic current length* of every buffer object (BytesMut / Bytes / Cursor / slices / arrays) and the
value of every integer local as a linear expression over non-negative symbols, plus the set of linear inequalities established by the
branches taken so far. Every panicking construct met on the way is an obligation that must follow from those facts.

Decision procedure ("by shape"): e >= 0 holds iff, possibly after subtracting up to two known inequalities, every symbol coefficient
and the constant of e are >= 0. Imprecision always yields an *unproven* obligation, never a silent pass.
"""
import re
from collections import defaultdict

from .mir import Callee, last_seg, loc, op_const, op_int, op_place

MAXU = {"u8": 255, "u16": 65535, "u32": 2**32 - 1, "u64": 2**64 - 1, "u128": 2**128 - 1, "usize": 2**64 - 1}
UNSIGNED = set(MAXU)
SIGNED = {"i8", "i16", "i32", "i64", "i128", "isize"}


class Lin:
    """c + sum k_i * s_i"""
    __slots__ = ("c", "t")

    def __init__(self, c=0, t=None):
        self.c = c
        self.t = dict(t) if t else {}

    @staticmethod
    def sym(s):
        return Lin(0, {s: 1})

    def add(self, o):
        t = dict(self.t)
        for k, v in o.t.items():
            nv = t.get(k, 0) + v
            if nv == 0:
                t.pop(k, None)
            else:
                t[k] = nv
        return Lin(self.c + o.c, t)

    def neg(self):
        return Lin(-self.c, {k: -v for k, v in self.t.items()})

    def sub(self, o):
        return self.add(o.neg())

    def scale(self, k):
        if k == 0:
            return Lin(0)
        return Lin(self.c * k, {s: v * k for s, v in self.t.items()})

    def is_const(self):
        return not self.t

    def key(self):
        return (self.c, tuple(sorted(self.t.items())))

    def __eq__(self, o):
        return isinstance(o, Lin) and self.key() == o.key()

    def __hash__(self):
        return hash(self.key())

    def __repr__(self):
        parts = []
        for s, v in sorted(self.t.items()):
            parts.append((f"{v}*" if v != 1 else "") + s)
        if self.c or not parts:
            parts.append(str(self.c))
        return " + ".join(parts).replace("+ -", "- ")

    def nonneg_by_shape(self):
        return self.c >= 0 and all(v >= 0 for v in self.t.values())


def prove_nonneg(e, cons, depth=2):
    """e >= 0 from non-negativity of all symbols and at most `depth` of the known inequalities (each c >= 0)."""
    if e.nonneg_by_shape():
        return True
    if depth == 0:
        return False
    syms = set(k for k, v in e.t.items() if v < 0)
    for c in cons:
        # only constraints that can cancel something negative in e (or its constant)
        if e.c < 0 or syms & set(c.t):
            for k in (1, 2):
                if prove_nonneg(e.sub(c.scale(k)), cons if depth > 1 else (), depth - 1):
                    return True
    return False


def pkey(place):
    """(local, path): projections with derefs dropped and `downcast V` + `field i` fused to (V, i)"""
    path = []
    pend = None
    for e in place[1]:
        if e[0] == "deref":
            continue
        if e[0] == "downcast":
            pend = e[1]
            continue
        if e[0] == "field":
            path.append((pend, e[1]) if pend is not None else e[1])
            pend = None
        else:
            path.append(("?", str(e)))
    if pend is not None:
        path.append((pend,))
    return (place[0], tuple(path))


class PathMap(dict):
    """values keyed by (local, path) with subtree copy / kill"""

    def kill(self, local, prefix=()):
        for k in [k for k in self if k[0] == local and k[1][:len(prefix)] == prefix]:
            del self[k]

    def copy_tree(self, src, dst, src_map=None):
        src_map = self if src_map is None else src_map
        sl, sp = src
        dl, dp = dst
        items = [(k, v) for k, v in src_map.items() if k[0] == sl and k[1][:len(sp)] == sp]
        for k, v in items:
            self[(dl, dp + k[1][len(sp):])] = v


class State:
    __slots__ = ("len", "int", "obj", "cons", "fact", "misc", "path")

    def __init__(self):
        self.len = {}            # object id -> Lin (current readable length)
        self.int = PathMap()     # (local, path) -> Lin
        self.obj = PathMap()     # (local, path) -> object id
        self.cons = []           # list of Lin, each >= 0
        self.fact = PathMap()    # (local, path) -> ('cmp', op, Lin, Lin) | ('not', f) | ('range', kind, vals) | ('bool', kind, obj) | ('variant', V) ...
        self.misc = {}           # cursor bases etc.: obj -> (base_obj, L0)
        self.path = {}           # branch facts: key -> bool   (('b', local) | ('d', place_repr, value))

    def copy(self):
        s = State()
        s.len = dict(self.len)
        s.int = PathMap(self.int)
        s.obj = PathMap(self.obj)
        s.cons = list(self.cons)
        s.fact = PathMap(self.fact)
        s.misc = dict(self.misc)
        s.path = dict(self.path)
        return s

    def same(self, o):
        return self.len == o.len and self.int == o.int and self.obj == o.obj and set(self.cons) == set(o.cons) and self.fact == o.fact and self.misc == o.misc and self.path == o.path

    def add_con(self, e):
        if e.nonneg_by_shape():
            return
        if e not in self.cons:
            self.cons.append(e)


IND_KEYS = {}


def ind(key):
    """name of the 0/1 indicator symbol of a branch fact (a fact inherited from a caller is marked with a leading ^ on its place:
    it names the same symbol)"""
    return "[" + ":".join((str(x)[1:] if i == 1 and isinstance(x, str) and x.startswith("^") else str(x)) for i, x in enumerate(key)) + "]"


def subst_path(e, path):
    """apply known branch facts to indicator symbols / indicator products in e"""
    if not any(k.startswith("[") for k in e.t):
        return e
    out = Lin(e.c)
    for sname, coef in e.t.items():
        if sname.startswith("["):
            indname, _, rest = sname.partition("]*")
            indname = indname + "]"
            val = None
            vals = {truth for key, truth in path.items() if ind(key) == indname}
            if len(vals) == 1:       # a callee's own fact about an equally named place must not decide a caller's symbol (and vice versa)
                val = vals.pop()
            if val is None:
                out = out.add(Lin(0, {sname: coef}))
            elif val:
                out = out.add(Lin(0, {rest: coef}) if rest else Lin(coef))
            # false: contributes 0
        else:
            out = out.add(Lin(0, {sname: coef}))
    return out


def ite_merge(v_true, v_false, key):
    """v_false + [key]*(v_true - v_false), with products of the indicator and a symbol kept as opaque symbols"""
    d = v_true.sub(v_false)
    i = ind(key)
    out = Lin(v_false.c, v_false.t)
    if d.c:
        out = out.add(Lin(0, {i: d.c}))
    for sname, coef in d.t.items():
        if sname.startswith("["):
            return None
        out = out.add(Lin(0, {i + "*" + sname: coef}))
    return out


def join(states, tag, lenient_ret=False):
    """pointwise join; differing values become the deterministic symbol j<tag>:<key>, except in an if/else diamond
    on a recorded branch fact, where they are merged into an indicator expression (keeps correlated branches exact).
    With lenient_ret, values below the return place (payloads of Ok/Some) are joined over the paths that have them."""
    if len(states) == 1:
        return states[0].copy()
    out = State()
    first = states[0]
    pending_cons = []
    fresh_syms = []

    def selector(sts):
        if len(sts) != 2:
            return None
        a_, b_ = sts
        for key, truth in a_.path.items():
            if key in b_.path and b_.path[key] != truth:
                return (key, a_ if truth else b_, b_ if truth else a_)
        return None

    sel_all = selector(states)

    def merge_lin(sts, vals, name, sel):
        if all(v == vals[0] for v in vals):
            return vals[0]
        merged = None
        if sel is not None:
            vt = subst_path(vals[sts.index(sel[1])], sel[1].path)
            vf = subst_path(vals[sts.index(sel[2])], sel[2].path)
            merged = vt if vt == vf else ite_merge(vt, vf, sel[0])
        if merged is not None:
            for sname in merged.t:
                if sname.startswith("[") and "]*" in sname:
                    base = sname.split("]*", 1)[1]
                    pending_cons.append(Lin(0, {base: 1}).sub(Lin(0, {sname: 1})))
            return merged
        J = Lin.sym(name)
        fresh_syms.append((J, list(zip(sts, vals))))
        return J

    def keys_for(attr):
        allk = set()
        for s_ in states:
            allk |= set(getattr(s_, attr))
        res = []
        for k in allk:
            have = [s_ for s_ in states if k in getattr(s_, attr)]
            if len(have) == len(states):
                res.append((k, states, sel_all))
            elif k[0] == 0 and k[1] and have:
                res.append((k, have, selector(have)))
        return res

    for attr in ("len", "int"):
        for (k, sts, sel) in keys_for(attr):
            vals = [getattr(s_, attr)[k] for s_ in sts]
            getattr(out, attr)[k] = merge_lin(sts, vals, f"j{tag}:{attr}:{k}", sel)
    for (k, sts, sel) in sorted(keys_for("obj"), key=lambda x: str(x[0])):
        vals = [s_.obj[k] for s_ in sts]
        if all(v == vals[0] for v in vals):
            out.obj[k] = vals[0]
            if vals[0] not in out.len and vals[0] in sts[0].len and len(sts) < len(states):
                out.len[vals[0]] = sts[0].len[vals[0]]
            continue
        lens = [s_.len.get(v) for s_, v in zip(sts, vals)]
        if any(l is None for l in lens):
            continue
        mo = f"m{tag}:{k}"
        out.obj[k] = mo
        out.len[mo] = merge_lin(sts, lens, f"len({mo})", sel)
    for (k, sts, sel) in keys_for("fact"):
        vals = [s_.fact[k] for s_ in sts]
        if all(v == vals[0] for v in vals):
            out.fact[k] = vals[0]
    for k in set(first.misc):
        if all(k in s_.misc and s_.misc[k] == first.misc[k] for s_ in states[1:]):
            out.misc[k] = first.misc[k]
    # "consumed and not looked at since" is a may-property: union over the incoming paths
    for s_ in states:
        for k in s_.misc:
            if isinstance(k, tuple) and k and k[0] in ("dirty", "unrec"):
                out.misc[k] = True
    for k in set(first.path):
        if all(k in s_.path and s_.path[k] == first.path[k] for s_ in states[1:]):
            out.path[k] = first.path[k]
    cs = set(first.cons)
    for s_ in states[1:]:
        cs &= set(s_.cons)
    out.cons = [c for c in first.cons if c in cs]
    # indicator symbols are 0/1
    for sel in (sel_all,):
        if sel is not None:
            i = Lin.sym(ind(sel[0]))
            out.add_con(Lin(1).sub(i))
            IND_KEYS[ind(sel[0])] = sel[0]
    for c in pending_cons:
        out.add_con(c)
    # a re-symbolised value keeps the largest constant lower bound that every incoming path can prove
    for (J, pairs) in fresh_syms:
        lo_all = None
        for (s_, v) in pairs:
            cons_i = [subst_path(c, s_.path) for c in s_.cons]
            v_i = subst_path(v, s_.path)
            hi = 1 << 17
            if not prove_nonneg(v_i.sub(Lin(1)), cons_i):
                best = 0
            else:
                best = 1
                step = 1
                while best + step <= hi and prove_nonneg(v_i.sub(Lin(best + step)), cons_i):
                    best += step
                    step *= 2
                while step >= 1:
                    if best + step <= hi and prove_nonneg(v_i.sub(Lin(best + step)), cons_i):
                        best += step
                    step //= 2
            lo_all = best if lo_all is None else min(lo_all, best)
        if lo_all:
            out.add_con(J.sub(Lin(lo_all)))
    return out


READ_W = {"get_u8": 1, "get_i8": 1, "get_u16": 2, "get_i16": 2, "get_u32": 4, "get_i32": 4, "get_u64": 8, "get_i64": 8, "get_u128": 16, "get_i128": 16,
          "get_u16_le": 2, "get_u32_le": 4, "get_u64_le": 8, "get_f32": 4, "get_f64": 8}
PUT_W = {"put_u8": 1, "put_i8": 1, "put_u16": 2, "put_i16": 2, "put_u32": 4, "put_i32": 4, "put_u64": 8, "put_i64": 8, "put_u128": 16}
ALIAS_CALLS = {"Deref::deref", "DerefMut::deref_mut", "AsRef::as_ref", "AsMut::as_mut", "Borrow::borrow", "BorrowMut::borrow_mut", "Buf::chunk",
               "Vec::as_slice", "Vec::as_mut_slice", "String::as_bytes", "str::as_bytes", "[T]::as_ref", "Cursor::get_ref", "Cursor::get_mut", "Bytes::as_ref", "BytesMut::as_ref",
               "GenericArray::as_slice", "GenericArray::as_mut_slice", "[T]::iter_mut", "[T]::iter"}
PANIC_FNS = ("core::panicking::panic", "core::panicking::panic_fmt", "core::panicking::unreachable_display", "core::panicking::panic_display",
             "std::rt::begin_panic", "core::panicking::panic_explicit", "core::panicking::assert_failed", "core::option::expect_failed", "core::result::unwrap_failed")


WATCH = {"blake3::derive_key"}
ROOT_PRESERVING = ("deref", "deref_mut", "as_mut", "as_ref", "get_mut", "as_deref_mut", "as_pin_mut", "get_unchecked_mut", "unwrap", "expect",
                   "as_mut_slice", "borrow_mut", "get_or_insert_with", "insert", "project")


def is_buf_ty(ty):
    t = ty.replace("&mut ", "").replace("&", "")
    return any(k in t for k in ("BytesMut", "bytes::Bytes", "Cursor<", "[u8", "Vec<u8>", "dyn aead::Buffer", "dyn aes_gcm::aead::Buffer", "GenericArray<u8", "str", "String")) or t.strip() in ("[u8]",)


def array_len(ty):
    m = re.search(r"\[u8; (\w+)\]", ty)
    if not m:
        return None
    n = m.group(1)
    return Lin(int(n)) if n.isdigit() else Lin.sym("param:" + n)


class Site:
    __slots__ = ("fn", "kind", "where", "results", "sp")

    def __init__(self, fn, kind, where, sp):
        self.fn = fn
        self.kind = kind
        self.where = where
        self.sp = sp
        self.results = []  # (proved, detail, context)


def short(defp):
    return defp.rsplit("::", 1)[-1]


class Analysis:
    def __init__(self, prog, max_depth=6):
        self.prog = prog
        self.sites = {}   # (fn defp, block, kind, idx) -> Site
        self.max_depth = max_depth
        self.const_fns = {}
        self.visited_fns = set()
        self.events = defaultdict(list)   # fn -> [(block, kind, payload)]  e.g. need-more returns for C04
        self._rooted_stack = []
        self._site_stack = []
        self.view_of = {}                      # slice object -> (parent object, start, end) for range-indexed views
        self.copies = defaultdict(list)        # fn -> [(block, destination object, source object)] of copy_from_slice
        self.watch = defaultdict(list)         # fn -> [(block, callee name, [argument objects])] for calls named in WATCH
        self.len_guards = defaultdict(dict)   # fn -> {switch block: True if some context compares a length of the decoder's source buffer}
        self.enum_variants = {}
        for it in prog.items:
            if it["k"] == "enum":
                self.enum_variants[it["path"]] = len(it["variants"])
        self.struct_fields = {}
        for it in prog.items:
            if it["k"] == "struct":
                self.struct_fields[it["path"]] = {n: t for (n, t) in it["fields"]}

    # ---- obligations -------------------------------------------------------------------------
    def oblige(self, body, blk, kind, idx, sp, proved, detail, ctx):
        k = (body.defp, blk, kind, idx)
        s = self.sites.get(k)
        if s is None:
            s = self.sites[k] = Site(body.defp, kind, loc(sp), sp)
        s.results.append((proved, detail, " <- ".join(short(c) for c in ctx[-4:])))

    def need(self, st, body, blk, kind, idx, sp, e, what, ctx):
        e2 = subst_path(e, st.path)
        ok = prove_nonneg(e2, [subst_path(c, st.path) for c in st.cons])
        self.oblige(body, blk, kind, idx, sp, ok, f"{what}: need {e2} >= 0" + ("" if ok else f"; known: {st.cons[-6:]}"), ctx)
        if not ok:
            # assume it afterwards (the program would have panicked otherwise): avoids cascades
            st.add_con(e2)
        return ok

    def holds(self, st, e):
        return prove_nonneg(subst_path(e, st.path), [subst_path(c, st.path) for c in st.cons])

    # ---- helpers --------------------------------------------------------------------------------
    def const_fn(self, defp):
        """workspace functions whose every non-panicking return stores the same integer constant"""
        if defp in self.const_fns:
            return self.const_fns[defp]
        self.const_fns[defp] = None
        b = self.prog.body(defp)
        res = None
        if b is not None and b.local_ty(0) in ("usize", "u64", "u32", "u16", "u8") and b.argc <= 1:
            vals = set()
            ok = True
            for blk in b.rpo():
                for s in b.stmts(blk):
                    if s["k"] == "assign" and s["p"][0] == 0 and not s["p"][1]:
                        v = None
                        if s["rv"]["k"] == "use":
                            v = op_int(s["rv"]["op"])
                            if v is None:
                                c = op_const(s["rv"]["op"])
                                v = c.get("int") if c else None
                        if v is None:
                            ok = False
                        else:
                            vals.add(v)
                t = b.term(blk)
                if t and t["k"] == "call" and t["dest"][0] == 0:
                    cc = Callee(t["f"])
                    sub = self.const_fn(cc.target) if cc.target.startswith("octo_squirrel") else None
                    if sub is None:
                        ok = False
                    else:
                        vals.add(sub)
            if ok and len(vals) == 1:
                res = vals.pop()
        self.const_fns[defp] = res
        return res

    def obj_at(self, st, body, place, create=False):
        k = pkey(place)
        o = st.obj.get(k)
        if o is not None:
            return o
        # a field path below a known base object gets a stable derived id
        if k[1]:
            base = st.obj.get((k[0], ()))
            if base is not None:
                return base + "." + ".".join(_pe(e) for e in k[1])
        if create:
            o = f"{short(body.defp)}:_{k[0]}" + ("." + ".".join(_pe(e) for e in k[1]) if k[1] else "")
            st.obj[k] = o
            al = array_len(body.local_ty(k[0])) if not k[1] else array_len(self.place_type(body, place) or "")
            if al is not None and o not in st.len:
                st.len[o] = al
            return o
        return None

    def length(self, st, obj, ty_hint=None):
        if obj is None:
            return None
        if obj not in st.len:
            al = array_len(ty_hint or "")
            st.len[obj] = al if al is not None else Lin.sym(f"len({obj})")
        return st.len[obj]

    def eval_op(self, st, body, op):
        k = op_int(op)
        if k is not None:
            return Lin(k)
        c = op_const(op)
        if c is not None:
            if "param" in c:
                return Lin.sym("param:" + c["param"])
            return None
        p = op_place(op)
        if p is None:
            return None
        return st.int.get(pkey(p))

    def place_type(self, body, place):
        """best-effort type string of a place: follows struct fields through the item table"""
        ty = body.local_ty(place[0])
        for e in place[1]:
            if e[0] == "deref":
                ty = re.sub(r"^&(mut )?", "", ty)
            elif e[0] == "field":
                base = re.sub(r"^&(mut )?", "", ty).split("<")[0]
                found = None
                for path, flds in self.struct_fields.items():
                    if path.endswith(base) or base.endswith(path.split("::", 1)[-1]):
                        if e[2] in flds:
                            found = flds[e[2]]
                if found is None:
                    return None
                ty = found
            else:
                return None
        return ty

    def n_variants(self, ty):
        if ty is None:
            return None
        base = re.sub(r"^&(mut )?", "", ty).split("<")[0]
        if base in ("bool",):
            return 2
        if base.startswith("std::option::Option") or base.startswith("std::result::Result") or base.startswith("core::option::Option") or base.startswith("core::result::Result"):
            return 2
        for path, n in self.enum_variants.items():
            if path.split("::", 1)[-1] == base or path == base:
                return n
        return None

    # ---- the interpreter ------------------------------------------------------------------------------
    def run(self, body, st, ctx, depth=0, want_groups=False):
        """Worklist over (block, g) where g is the variant stored in the return place so far (None / Ok / Err / Some ...):
        paths that already decided to return Ok are not merged with paths returning Err (their facts differ)."""
        self.visited_fns.add(body.defp)
        rpo = body.rpo()
        order = {b: i for i, b in enumerate(rpo)}

        def grp(s_):
            f = s_.fact.get((0, ()))
            g0 = f[1] if f and f[0] == "variant" else None
            f1 = s_.fact.get((0, (("Ok", 0),)))
            g1 = f1[1] if f1 and f1[0] == "variant" else None
            return (g0, g1)

        returns = {}
        start = (0, None)
        work = {start}
        in_states = {}
        done = set()
        pending = defaultdict(dict)
        pending[start][-1] = st
        iters = 0
        while work and iters < 8000:
            iters += 1
            node = min(work, key=lambda x: (order.get(x[0], 1 << 30), str(x[1])))
            work.discard(node)
            blk, g = node
            vals = list(pending[node].values())
            cur = join(vals, f"{short(body.defp)}@{blk}") if len(vals) > 1 else vals[0].copy()
            if node in done and in_states[node].same(cur):
                continue
            in_states[node] = cur.copy()
            done.add(node)
            for (sb, sst) in self.exec_block(body, blk, cur, ctx, depth):
                if sb == "return":
                    returns[(blk, grp(sst))] = sst
                    continue
                n2 = (sb, grp(sst))
                old = pending[n2].get(node)
                if old is None or not old.same(sst):
                    pending[n2][node] = sst
                    work.add(n2)
        if not returns:
            return None
        if depth == 0:
            # need-more answers of the entry function itself, judged where they leave it (after whatever the function stored on the way out)
            for (b_, g_), s_ in sorted(returns.items(), key=lambda x: (x[0][0], str(x[0][1]))):
                if g_[0] in ("Ok", None) and g_[1] == "None":
                    unrec = sorted(k[1] for k in s_.misc if isinstance(k, tuple) and k and k[0] == "unrec")
                    self.events[body.defp].append((b_, "need-more-progress", unrec, tuple(ctx), (body.term(b_) or {}).get("sp")))
        allr = join(list(returns.values()), f"ret:{short(body.defp)}", lenient_ret=True)
        if want_groups:
            okg = (None, "Ok", "Some", "Continue", "Ready")
            oks = [s_ for (b_, g_), s_ in returns.items() if g_[0] in okg]
            okr = join(oks, f"retok:{short(body.defp)}", lenient_ret=True) if oks else None
            somes = [s_ for (b_, g_), s_ in returns.items() if g_[0] in okg and g_[1] == "Some"]
            nones = [s_ for (b_, g_), s_ in returns.items() if g_[0] in okg and g_[1] == "None"]
            mixed = [s_ for (b_, g_), s_ in returns.items() if g_[0] in okg and g_[1] is None]
            somer = join(somes + mixed, f"retsome:{short(body.defp)}", lenient_ret=True) if somes else None
            noner = join(nones + mixed, f"retnone:{short(body.defp)}", lenient_ret=True) if nones else None
            return allr, okr, somer, noner
        return allr

    def exec_block(self, body, blk, st, ctx, depth):
        for i, s in enumerate(body.stmts(blk)):
            if s["k"] == "assign":
                self.exec_assign(body, blk, i, s, st, ctx)
        t = body.term(blk)
        if t is None:
            return []
        k = t["k"]
        if k == "return":
            return [("return", st)]
        if k in ("goto", "drop", "false_edge", "false_unwind", "yield"):
            return [(t["t"], st)]
        if k == "assert":
            self.exec_assert(body, blk, t, st, ctx)
            return [(t["t"], st)]
        if k == "switch":
            return self.exec_switch(body, blk, t, st)
        if k == "call":
            self.exec_call(body, blk, t, st, ctx, depth)
            self._opaque_bool_result(body, blk, t, st)
            if t["t"] is None:
                return []
            return [(t["t"], st)]
        return []

    # ---- statements ---------------------------------------------------------------------------------
    def kill(self, st, place):
        l, path = pkey(place)
        st.int.kill(l, path)
        st.obj.kill(l, path)
        st.fact.kill(l, path)
        # (branch facts about boolean variables are versioned by their last assignment, so they stay valid)

    def exec_assign(self, body, blk, idx, s, st, ctx):
        p, rv = s["p"], s["rv"]
        k = rv["k"]
        dkey = pkey(p)
        dst = p[0]
        # writes through a dereferenced pointer / into self state: only drop what we knew about that place
        self.kill(st, p)
        if any(e[0] == "deref" for e in p[1]):
            # a store through a pointer that came in as an argument (self.state = .., *flag = ..): progress recorded outside this call
            if self._arg_rooted(body, p[0]):
                self._state_written(st)
            # a store into *p: path facts about discriminants of that place die
            for rep in {_place_repr(p), self.canon_rep(st, body, p)}:
                for key in [kx for kx in st.path if kx[0] == "d" and isinstance(kx[1], str) and (kx[1].lstrip("^") == rep or kx[1].lstrip("^").startswith(rep) or rep.startswith(kx[1].lstrip("^")))]:
                    st.path.pop(key)
            if k == "use":
                v = self.eval_op(st, body, rv["op"])
                if v is not None:
                    st.int[dkey] = v
                sp_ = op_place(rv["op"])
                if sp_ is not None:
                    sk = pkey(sp_)
                    st.int.copy_tree(sk, dkey)
                    st.fact.copy_tree(sk, dkey)
                    st.obj.copy_tree(sk, dkey)
            return
        ty = body.local_ty(dst) if not p[1] else (self.place_type(body, p) or "")
        if not p[1] and ty == "bool":
            st.misc[("ver", dst)] = f"{blk}.{idx}"
        fn = short(body.defp)
        if k == "use":
            op = rv["op"]
            sp_ = op_place(op)
            if sp_ is not None:
                sk = pkey(sp_)
                st.int.copy_tree(sk, dkey)
                st.obj.copy_tree(sk, dkey)
                st.fact.copy_tree(sk, dkey)
                if ty == "bool" and not sp_[1] and dkey not in st.fact and dkey not in st.int:
                    # copy of a boolean variable: branch facts are recorded on the variable itself (at its current version)
                    st.fact[dkey] = ("pathbool", ("b", sp_[0], st.misc.get(("ver", sp_[0]), "arg")))
                if dkey not in st.int and ty in UNSIGNED:
                    # integer read from a place we do not track (self.field, pattern binding): a named non-negative symbol,
                    # stable for the same source place within one activation
                    sym = Lin.sym(f"v:{fn}:{_place_repr(sp_)}")
                    st.int[dkey] = sym
                    if not any(e[0] == "deref" for e in sp_[1]) or True:
                        st.int[sk] = sym
                    if ty in MAXU and ty not in ("usize", "u64", "u128"):
                        st.add_con(Lin(MAXU[ty]).sub(sym))
                if dkey not in st.obj and is_buf_ty(ty) and not ty.startswith("std::option") and not ty.startswith("std::result"):
                    o = self.obj_at(st, body, sp_, create=True)
                    st.obj[dkey] = o
                if sp_[1] and dkey not in st.obj and not is_buf_ty(ty) and ty not in UNSIGNED and ty != "bool" and not ty.startswith("&"):
                    # ... and its discriminant is the discriminant of that place (same identity in every helper it is handed to by value)
                    o_src = self.obj_at(st, body, sp_, create=False)
                    if o_src is not None:
                        st.obj[dkey] = o_src
                if sp_[1] and dkey not in st.fact and dkey not in st.int and (dkey not in st.obj or not is_buf_ty(ty)) and ty not in UNSIGNED and ty != "bool":
                    # an opaque Copy value (cipher kind, mode ...): remember where it was read from, so that pure functions of it agree
                    root = st.fact.get((sp_[0], ()))
                    base = root[1] if root and root[0] == "id" else f"{fn}:_{sp_[0]}"
                    o_id = self.obj_at(st, body, sp_, create=False)
                    # (the object id names the same value in every helper that receives it; the spelling of the place does not)
                    st.fact[dkey] = ("id", "@" + o_id) if o_id is not None else ("id", base + _place_repr(sp_)[len(f"_{sp_[0]}"):])
            else:
                v = self.eval_op(st, body, op)
                if v is not None:
                    st.int[dkey] = v
                c = op_const(op)
                if c is not None and ty == "bool" and "int" in c:
                    st.int[dkey] = Lin(1 if c["int"] else 0)
                if c is not None and is_buf_ty(ty) and ("str" in c or "bytes" in c):
                    o = f"const:{fn}:{blk}_{idx}"
                    st.obj[dkey] = o
                    st.len[o] = Lin(len(c["str"].encode())) if "str" in c else Lin(len(c["bytes"]))
            return
        if k in ("ref", "rawptr"):
            sk = pkey(rv["p"])
            o = self.obj_at(st, body, rv["p"], create=is_buf_ty(ty))
            if o is not None:
                st.obj[dkey] = o
            # a reference to a structure: keep what is known below it reachable through the reference
            st.int.copy_tree(sk, dkey)
            st.fact.copy_tree(sk, dkey)
            for kk, vv in list(st.obj.items()):
                if kk[0] == sk[0] and kk[1][:len(sk[1])] == sk[1] and kk != sk:
                    st.obj[(dkey[0], dkey[1] + kk[1][len(sk[1]):])] = vv
            return
        if k == "cast":
            v = self.eval_op(st, body, rv["op"])
            frm, to = rv["from"], rv["to"]
            if rv["ck"] == "IntToInt" and to in UNSIGNED:
                if v is not None and ((frm in UNSIGNED and MAXU[frm] <= MAXU[to]) or self.holds(st, Lin(MAXU[to]).sub(v))):
                    st.int[dkey] = v
                else:
                    s_ = Lin.sym(f"cast{blk}_{idx}:{fn}")
                    st.int[dkey] = s_
                    bound = min(MAXU.get(frm, MAXU[to]), MAXU[to])
                    if bound < 2**63:
                        st.add_con(Lin(bound).sub(s_))
            else:
                sp_ = op_place(rv["op"])
                if sp_ is not None:
                    sk = pkey(sp_)
                    st.obj.copy_tree(sk, dkey)
                    st.int.copy_tree(sk, dkey)
                    if rv["ck"].startswith("PointerExposeProvenance") or to in UNSIGNED:
                        st.int[dkey] = Lin.sym(f"ptr{blk}_{idx}:{fn}")
            return
        if k == "bin":
            a = self.eval_op(st, body, rv["a"])
            b = self.eval_op(st, body, rv["b"])
            op = rv["op"]
            base = op.replace("WithOverflow", "").replace("Unchecked", "")
            if base in ("Lt", "Le", "Gt", "Ge", "Eq", "Ne"):
                if a is not None and b is not None:
                    st.fact[dkey] = ("cmp", base, a, b)
                return
            res = None
            if a is not None and b is not None:
                if base == "Add":
                    res = a.add(b)
                elif base == "Sub":
                    res = a.sub(b)
                elif base == "Mul":
                    if a.is_const():
                        res = b.scale(a.c)
                    elif b.is_const():
                        res = a.scale(b.c)
            if base == "BitAnd" and b is not None and b.is_const():
                res = Lin.sym(f"and{blk}_{idx}:{fn}")
                st.add_con(Lin(b.c).sub(res))
            if base == "Rem" and b is not None and b.is_const() and b.c > 0:
                res = Lin.sym(f"rem{blk}_{idx}:{fn}")
                st.add_con(Lin(b.c - 1).sub(res))
            if base == "Shr" and a is not None and b is not None and b.is_const():
                res = Lin.sym(f"shr{blk}_{idx}:{fn}")
                st.add_con(a.sub(res))
            if "WithOverflow" in op:
                st.fact[dkey] = ("ovf", base, a, b)
                if res is not None:
                    st.int[(dkey[0], dkey[1] + (0,))] = res
                return
            if res is not None:
                st.int[dkey] = res
            elif ty in UNSIGNED:
                st.int[dkey] = Lin.sym(f"bin{blk}_{idx}:{fn}")
            return
        if k == "un":
            if rv["op"] == "PtrMetadata":
                sp_ = op_place(rv["a"])
                o = self.obj_at(st, body, sp_, create=True) if sp_ else None
                st.int[dkey] = self.length(st, o, body.local_ty(sp_[0]) if sp_ else None) if o else Lin.sym(f"meta{blk}_{idx}:{fn}")
            elif rv["op"] == "Not":
                sp_ = op_place(rv["a"])
                if sp_:
                    f = st.fact.get(pkey(sp_))
                    if f:
                        st.fact[dkey] = ("not", f)
                    elif not sp_[1] and body.local_ty(sp_[0]) == "bool":
                        st.fact[dkey] = ("notb", sp_[0])
            return
        if k == "agg":
            ak = rv["ak"]
            if ak == "adt" and rv.get("def", "").startswith("core::ops::range::"):
                st.fact[dkey] = ("range", last_seg(rv["def"]), [self.eval_op(st, body, o) for o in rv["ops"]])
                return
            if ak == "adt" and rv.get("variant") == "Ok" and dkey == (0, ()) and rv["ops"]:
                p_ = op_place(rv["ops"][0])
                f_ = st.fact.get(pkey(p_)) if p_ is not None else None
                if f_ and f_[0] == "variant" and f_[1] == "None":
                    dirty = sorted(k[1] for k in st.misc if isinstance(k, tuple) and k and k[0] == "dirty")
                    self.events[body.defp].append((blk, "need-more", dirty, tuple(ctx), s["sp"]))
                    if len(ctx) == 1:
                        # what the caller's buffer holds when the entry function answers "nothing" (judged per path, where the answer is
                        # built): a datagram reader (UdpFramed) treats `None` with bytes left as an error of the whole stream
                        left = []
                        for i_ in range(1, body.argc + 1):
                            if not is_buf_ty(body.local_ty(i_)):
                                continue
                            o_ = st.obj.get((i_, ()))
                            ln_ = st.len.get(o_) if o_ is not None else None
                            left.append((i_, ln_ is not None and self.holds(st, Lin(0).sub(ln_)), str(ln_)))
                        self.events[body.defp].append((blk, "none-leaves", left, tuple(ctx), s["sp"]))

            if ak in ("tuple", "adt", "closure", "coroutine"):
                vname = rv.get("variant") if ak == "adt" else None
                is_enum = ak == "adt" and rv.get("def") in self.enum_variants or (vname in ("Some", "None", "Ok", "Err", "Continue", "Break", "Ready", "Pending"))
                if is_enum:
                    st.fact[dkey] = ("variant", vname)
                for i, o in enumerate(rv["ops"]):
                    sub = (dkey[0], dkey[1] + (((vname, i) if is_enum else i),))
                    v = self.eval_op(st, body, o)
                    if v is not None:
                        st.int[sub] = v
                    sp_ = op_place(o)
                    if sp_ is not None:
                        sk = pkey(sp_)
                        st.int.copy_tree(sk, sub)
                        st.obj.copy_tree(sk, sub)
                        st.fact.copy_tree(sk, sub)
                return
            if ak == "array" and is_buf_ty(ty):
                o = f"{fn}:_{dst}"
                st.obj[dkey] = o
                st.len[o] = Lin(len(rv["ops"]))
            return
        if k == "repeat":
            o = f"{fn}:_{dst}"
            st.obj[dkey] = o
            n = rv["n"]
            st.len[o] = Lin(int(n)) if str(n).isdigit() else Lin.sym("param:" + str(n))
            return
        if k == "discr":
            st.fact[dkey] = ("discr", rv["p"])
            return

    # ---- asserts ----------------------------------------------------------------------------------------
    def exec_assert(self, body, blk, t, st, ctx):
        msg = t["msg"]
        p = op_place(t["cond"])
        f = st.fact.get(pkey(p)) if p else None
        if msg == "BoundsCheck":
            if f and f[0] == "cmp" and f[1] == "Lt":
                self.need(st, body, blk, "index", 0, t["sp"], f[3].sub(f[2]).sub(Lin(1)), "slice index in bounds", ctx)
            else:
                self.oblige(body, blk, "index", 0, t["sp"], False, "slice index: bound unknown", ctx)
            return
        if msg.startswith("Overflow("):
            op = msg[9:-1]
            pf = st.fact.get((p[0], ())) if p else None
            if p is not None and body.local_ty(p[0]).strip("()").split(",")[0].strip() in SIGNED:
                self.oblige(body, blk, "signed-overflow", 0, t["sp"], True, "signed arithmetic overflow only panics with overflow-checks (debug profile); not counted", ctx)
                return
            if op == "Sub":
                if pf and pf[0] == "ovf" and pf[2] is not None and pf[3] is not None:
                    self.need(st, body, blk, "sub-overflow", 0, t["sp"], pf[2].sub(pf[3]), "unsigned subtraction does not underflow", ctx)
                else:
                    self.oblige(body, blk, "sub-overflow", 0, t["sp"], False, "unsigned subtraction of unknown operands", ctx)
            elif op in ("Shl", "Shr"):
                if f and f[0] == "cmp" and f[1] == "Lt":
                    self.need(st, body, blk, "shift-overflow", 0, t["sp"], f[3].sub(f[2]).sub(Lin(1)), "shift amount below bit width", ctx)
            else:
                ty0 = body.local_ty(p[0]).strip("()").split(",")[0].strip() if p is not None else ""
                if op == "Add" and ty0 in ("u8", "u16") and pf and pf[0] == "ovf":
                    # arithmetic in a narrow type: the sum must provably fit (it panics with overflow checks and silently wraps without them,
                    # after which every length derived from it is wrong)
                    if pf[2] is not None and pf[3] is not None:
                        self.need(st, body, blk, "narrow-add-overflow", 0, t["sp"], Lin(MAXU[ty0]).sub(pf[2]).sub(pf[3]), f"{ty0} addition stays within {MAXU[ty0]}", ctx)
                    else:
                        self.oblige(body, blk, "narrow-add-overflow", 0, t["sp"], False, f"{ty0} addition of unknown operands", ctx)
                else:
                    self.oblige(body, blk, "add-overflow", 0, t["sp"], True, f"{op} of length-sized operands cannot overflow 64 bits", ctx)
            return
        if msg in ("DivisionByZero", "RemainderByZero"):
            self.oblige(body, blk, "div-zero", 0, t["sp"], True, "constant non-zero divisor", ctx)

    # ---- branches -----------------------------------------------------------------------------------------
    def exec_switch(self, body, blk, t, st):
        p = op_place(t["d"])
        f = st.fact.get(pkey(p)) if p else None
        listed = [v for v, _ in t["arms"]]
        targets = [(v, tgt) for v, tgt in t["arms"]] + [(None, t["otherwise"])]
        g_ = f
        while g_ and g_[0] == "not":
            g_ = g_[1]
        if g_ and g_[0] == "cmp":
            src_ = any("decode:arg2" in sy for e_ in (g_[2], g_[3]) for sy in e_.t)
            self.len_guards[body.defp][blk] = self.len_guards[body.defp].get(blk, False) or src_
        elif g_ and g_[0] == "bool":
            self.len_guards[body.defp][blk] = self.len_guards[body.defp].get(blk, False) or ("decode:arg2" in str(g_[2]))
        by = defaultdict(list)
        for v, tgt in targets:
            ns = st.copy()
            if f is not None:
                self.refine(ns, f, v, listed, body)
            elif p is not None and not p[1] and body.local_ty(p[0]) == "bool":
                truth = self._truth(v, listed)
                if truth is not None:
                    iv = st.int.get(pkey(p))
                    done_ = False
                    if iv is not None and len(iv.t) == 1:
                        (sname, coef), = iv.t.items()
                        if sname in IND_KEYS and ((coef == 1 and iv.c == 0) or (coef == -1 and iv.c == 1)):
                            key_ = IND_KEYS[sname]
                            tv = truth if coef == 1 else (not truth)
                            if key_[0] == "d":
                                set_discr(ns, key_[1], key_[2], tv, key_[3])
                            else:
                                ns.path[key_] = tv
                            done_ = True
                    if not done_:
                        ns.path[("b", p[0], st.misc.get(("ver", p[0]), "arg"))] = truth
            # unreachable targets need no state
            tt = body.term(tgt)
            if tt is not None and tt["k"] == "unreachable":
                continue
            if ns.misc.get("infeasible"):
                continue
            by[tgt].append(ns)
        res = []
        for tgt, lst in by.items():
            res.append((tgt, lst[0] if len(lst) == 1 else join(lst, f"sw{blk}")))
        return res

    @staticmethod
    def _truth(v, listed):
        if v is None:
            if listed == [0]:
                return True
            if listed == [1]:
                return False
            if sorted(listed) == [0, 1]:
                return None
            return None
        return bool(v)

    def refine(self, st, f, v, listed, body):
        neg = False
        while f and f[0] == "not":
            f = f[1]
            neg = not neg
        if f is None:
            return
        truth = self._truth(v, listed)
        if f[0] == "notb":
            if truth is not None:
                st.path[("b", f[1], st.misc.get(("ver", f[1]), "arg"))] = not (truth != neg)
            return
        if f[0] == "cmp":
            if truth is None:
                return
            if neg:
                truth = not truth
            op, a, b = f[1], f[2], f[3]
            if not truth:
                op = {"Lt": "Ge", "Le": "Gt", "Gt": "Le", "Ge": "Lt", "Eq": "Ne", "Ne": "Eq"}[op]
            if op == "Lt":
                st.add_con(b.sub(a).sub(Lin(1)))
            elif op == "Le":
                st.add_con(b.sub(a))
            elif op == "Gt":
                st.add_con(a.sub(b).sub(Lin(1)))
            elif op == "Ge":
                st.add_con(a.sub(b))
            elif op == "Eq":
                st.add_con(a.sub(b))
                st.add_con(b.sub(a))
        elif f[0] == "bool":
            if truth is None:
                return
            if neg:
                truth = not truth
            kind, o = f[1], f[2]
            L = st.len.get(o)
            if L is None:
                return
            nonempty = truth if kind == "has" else (not truth)
            if nonempty:
                st.add_con(L.sub(Lin(1)))
            else:
                st.add_con(L.neg())
        elif f[0] == "pathbool":
            if truth is not None:
                st.path[f[1]] = (truth != neg)
        elif f[0] == "discr":
            place = f[1]
            rep = self.canon_rep(st, body, place)
            nv = self.n_variants(self.place_type(body, place))
            # a branch that contradicts what is already known about this very value (here or in an inlining caller) is not taken
            if self._discr_contradicts(st, rep, v, listed, nv):
                st.misc["infeasible"] = True
                return
            pk0 = pkey(place)
            pty = self.place_type(body, place) or ""
            is_opt = "Option<" in pty.split("<")[0] + "<"
            okf = st.fact.get((pk0[0], pk0[1] + ("#ok",)))
            apply_ = []
            if okf is not None and not is_opt and v == 0:
                apply_.append(okf)
            if is_opt and v is not None:
                pf = st.fact.get((pk0[0], pk0[1] + ("#some" if v == 1 else "#none",)))
                if pf is not None:
                    apply_.append(pf)
            elif is_opt and v is None and len(listed) == 1:
                pf = st.fact.get((pk0[0], pk0[1] + ("#some" if listed[0] == 0 else "#none",)))
                if pf is not None:
                    apply_.append(pf)
            for okf_ in apply_:
                if okf_[0] == "infeasible":
                    st.misc["infeasible"] = True
                    continue
                for c_ in okf_[1]:
                    st.add_con(c_)
                for (o_, L_) in okf_[2]:
                    st.len[o_] = L_
                if len(okf_) > 3:
                    for kx in [k for k in st.misc if isinstance(k, tuple) and k and k[0] == "dirty"]:
                        st.misc.pop(kx)
                    for o_ in okf_[3]:
                        st.misc[("dirty", o_)] = True
                if len(okf_) > 5:
                    # the same for "taken from the stream, nothing stored yet": what this variant's returns say
                    for kx in [k for k in st.misc if isinstance(k, tuple) and k and k[0] == "unrec"]:
                        st.misc.pop(kx)
                    for o_ in okf_[4]:
                        st.misc[("unrec", o_)] = True
                    if okf_[5]:
                        st.misc[("stw",)] = True
            if v is not None:
                set_discr(st, rep, v, True, nv)
                pk_ = pkey(place)
                st.fact[(pk_[0], pk_[1] + ("#v",))] = ("variant_idx", v)
            else:
                for lv in listed:
                    set_discr(st, rep, lv, False, nv)
                if nv == 2 and len(listed) == 1 and listed[0] in (0, 1):
                    pk_ = pkey(place)
                    st.fact[(pk_[0], pk_[1] + ("#v",))] = ("variant_idx", 1 - listed[0])

    # ---- calls ----------------------------------------------------------------------------------------------
    def arg_obj(self, st, body, t, i, create=True):
        if i >= len(t["args"]):
            return None
        p = op_place(t["args"][i])
        if p is None:
            c = op_const(t["args"][i])
            if c is not None and ("str" in c or "bytes" in c):
                o = f"constarg:{short(body.defp)}:{t['sp'][1]}:{i}"
                st.len[o] = Lin(len(c["str"].encode())) if "str" in c else Lin(len(c["bytes"]))
                return o
            return None
        ty = body.local_ty(p[0])
        return self.obj_at(st, body, p, create=create and (is_buf_ty(ty) or bool(p[1])))

    def arg_int(self, st, body, t, i):
        if i >= len(t["args"]):
            return None
        return self.eval_op(st, body, t["args"][i])

    def havoc_obj(self, st, o, tag):
        if o is not None:
            st.len[o] = Lin.sym(f"h{tag}:{o}")

    def exec_call(self, body, blk, t, st, ctx, depth):
        c = Callee(t["f"])
        name = c.name
        m = c.method
        dplace = t["dest"]
        dkey = pkey(dplace)
        dest = dplace[0]
        sp = t["sp"]
        fn = short(body.defp)
        self.kill(st, dplace)
        dty = body.local_ty(dest) if not dplace[1] else ""

        def set_int(v):
            if v is not None:
                st.int[dkey] = v

        def new_obj(L, tag="o"):
            o = f"{fn}:{tag}{blk}"
            st.len[o] = L if L is not None else Lin.sym(f"len({o})")
            st.obj[dkey] = o
            return o

        if name in WATCH or c.path in WATCH:
            self.watch[body.defp].append((blk, name, [self.arg_obj(st, body, t, i, create=False) for i in range(len(t["args"]))]))
        is_buf_trait = c.trait is not None and last_seg(c.trait) in ("Buf", "BufMut")
        selfs = c.self_s
        if name == "FromResidual::from_residual":
            st.fact[dkey] = ("variant", "Err")
            return
        # ---------- panics ----------
        if c.target.startswith("core::panicking::") or c.target.startswith("std::rt::begin_panic") or c.target in ("core::option::expect_failed", "core::result::unwrap_failed", "core::option::unwrap_failed"):
            self.oblige(body, blk, "panic", 0, sp, False, f"explicit panic ({last_seg(c.target)}) is reachable on this path", ctx)
            return
        # ---------- length queries ----------
        lenq = (is_buf_trait and m in ("remaining", "has_remaining")) or (m in ("len", "is_empty") and (is_buf_ty(selfs) or selfs in ("[T]", "str") or "Vec<" in selfs or "String" in selfs or "BytesMut" in selfs or "Bytes" in selfs))
        if lenq:
            o = self.arg_obj(st, body, t, 0)
            if o is not None:
                p0 = op_place(t["args"][0])
                L = self.length(st, o, body.local_ty(p0[0]) if p0 else None)
                if m in ("remaining", "len"):
                    set_int(L)
                elif m == "has_remaining":
                    st.fact[dkey] = ("bool", "has", o)
                else:
                    st.fact[dkey] = ("bool", "empty", o)
                st.misc.pop(("dirty", o), None)
            elif m in ("remaining", "len"):
                set_int(Lin.sym(f"len?{blk}:{fn}"))
            return
        # ---------- consuming reads ----------
        if is_buf_trait and m in READ_W:
            o = self.arg_obj(st, body, t, 0)
            w = READ_W[m]
            if o is None:
                self.oblige(body, blk, f"read:{m}", 0, sp, False, "read from an untracked buffer", ctx)
            else:
                L = self.length(st, o)
                self.need(st, body, blk, f"read:{m}", 0, sp, L.sub(Lin(w)), f"{m} needs {w} byte(s) of `{o}` (readable: {L})", ctx)
                st.len[o] = L.sub(Lin(w))
                self.consumed(st, o, blk)
            s_ = Lin.sym(f"{m}@{blk}:{fn}")
            set_int(s_)
            if dty in MAXU and dty not in ("u64", "usize", "u128"):
                st.add_con(Lin(MAXU[dty]).sub(s_))
            return
        if (is_buf_trait and m in ("advance", "copy_to_bytes")) or (m in ("split_to", "split_off") and ("BytesMut" in selfs or "Bytes" in selfs)):
            o = self.arg_obj(st, body, t, 0)
            n = self.arg_int(st, body, t, 1)
            if o is None:
                self.oblige(body, blk, f"consume:{m}", 0, sp, False, "consume on an untracked buffer", ctx)
                if m != "advance":
                    new_obj(n)
                return
            L = self.length(st, o)
            zero = n is not None and n.is_const() and n.c == 0
            if n is None:
                self.oblige(body, blk, f"consume:{m}", 0, sp, False, f"{m}(n) with an unknown n on `{o}`", ctx)
                n = Lin.sym(f"n?{blk}:{fn}")
            elif not (m == "split_off" and zero):
                self.need(st, body, blk, f"consume:{m}", 0, sp, L.sub(n), f"{m}({n}) within the {L} readable bytes of `{o}`", ctx)
            if m == "split_off":
                new_obj(L.sub(n))
                st.len[o] = n
            else:
                st.len[o] = L.sub(n)
                if m != "advance":
                    new_obj(n)
            if not zero or m == "split_off":
                self.consumed(st, o, blk)
            return
        if is_buf_trait and m == "copy_to_slice":
            o = self.arg_obj(st, body, t, 0)
            d = self.arg_obj(st, body, t, 1)
            n = self.length(st, d) if d is not None else None
            if o is None or n is None:
                self.oblige(body, blk, "consume:copy_to_slice", 0, sp, False, "copy_to_slice with an untracked buffer/destination", ctx)
                return
            L = self.length(st, o)
            self.need(st, body, blk, "consume:copy_to_slice", 0, sp, L.sub(n), f"copy_to_slice of {n} byte(s) from the {L} readable bytes of `{o}`", ctx)
            st.len[o] = L.sub(n)
            self.consumed(st, o, blk)
            return
        # ---------- writes ----------
        if is_buf_trait and m in PUT_W:
            o = self.arg_obj(st, body, t, 0)
            if o is not None:
                st.len[o] = self.length(st, o).add(Lin(PUT_W[m]))
            return
        if m == "extend_from_slice" or (is_buf_trait and m in ("put_slice", "put")):
            o = self.arg_obj(st, body, t, 0)
            s_ = self.arg_obj(st, body, t, 1)
            if o is not None:
                if s_ is not None:
                    st.len[o] = self.length(st, o).add(self.length(st, s_))
                else:
                    self.havoc_obj(st, o, f"ext{blk}")
            return
        if name in ("BytesMut::new", "BytesMut::with_capacity", "Vec::new", "Vec::with_capacity", "String::new"):
            new_obj(Lin(0), "new")
            return
        if m == "clear" and is_buf_ty(selfs):
            o = self.arg_obj(st, body, t, 0)
            if o is not None:
                st.len[o] = Lin(0)
            return
        if m in ("reserve", "chunk_mut"):
            return
        if m == "advance_mut":
            o = self.arg_obj(st, body, t, 0)
            n = self.arg_int(st, body, t, 1)
            if o is not None and n is not None:
                st.len[o] = self.length(st, o).add(n)
            elif o is not None:
                self.havoc_obj(st, o, f"adv{blk}")
            return
        if m in ("truncate", "set_len", "resize") and is_buf_ty(selfs):
            self.havoc_obj(st, self.arg_obj(st, body, t, 0), f"{m}{blk}")
            return
        # ---------- views / conversions ----------
        if name in ALIAS_CALLS or (m in ("deref", "deref_mut", "as_ref", "as_mut", "as_slice", "as_bytes", "borrow", "borrow_mut", "as_mut_slice", "as_ptr", "as_mut_ptr") and is_buf_ty(selfs + " " + dty)):
            o = self.arg_obj(st, body, t, 0)
            if o is not None:
                st.obj[dkey] = o
            return
        if name in ("From::from", "Into::into", "BytesMut::from", "Bytes::from", "BytesMut::freeze", "[T]::to_vec", "ToOwned::to_owned", "Clone::clone", "Bytes::copy_from_slice", "<[T]>::to_vec") and is_buf_ty(dty) and not dty.startswith("std::net"):
            o = self.arg_obj(st, body, t, 0)
            new_obj(self.length(st, o) if o is not None else None, "cv")
            return
        if name == "core::slice::raw::from_raw_parts" or c.target.endswith("slice::raw::from_raw_parts") or c.target.endswith("slice::raw::from_raw_parts_mut"):
            new_obj(self.arg_int(st, body, t, 1), "raw")
            return
        if name == "Cursor::new":
            o = self.arg_obj(st, body, t, 0)
            L = self.length(st, o) if o is not None else None
            cur = new_obj(L, "cur")
            st.misc[cur] = (o, L)
            return
        if name == "Cursor::into_inner":
            cur = self.arg_obj(st, body, t, 0)
            if cur in st.misc and st.misc[cur][0] is not None:
                st.obj[dkey] = st.misc[cur][0]
            return
        if name == "Cursor::position":
            cur = self.arg_obj(st, body, t, 0)
            if cur in st.misc and st.misc[cur][1] is not None and cur in st.len:
                set_int(st.misc[cur][1].sub(st.len[cur]))
            else:
                set_int(Lin.sym(f"pos{blk}:{fn}"))
            return
        # ---------- slicing ----------
        if name in ("Index::index", "IndexMut::index_mut") and len(t["args"]) == 2:
            o = self.arg_obj(st, body, t, 0)
            rp = op_place(t["args"][1])
            rf = st.fact.get(pkey(rp)) if rp else None
            idx_int = self.arg_int(st, body, t, 1)
            p0 = op_place(t["args"][0])
            if o is None:
                if rf and rf[0] == "range":
                    self.oblige(body, blk, "slice-range", 0, sp, False, "range index into an untracked buffer", ctx)
                return
            L = self.length(st, o, body.local_ty(p0[0]) if p0 else None)
            if rf and rf[0] == "range":
                kind, vals = rf[1], rf[2]
                a = b = None
                if kind == "Range":
                    a, b = vals
                elif kind == "RangeTo":
                    b = vals[0]
                elif kind == "RangeFrom":
                    a = vals[0]
                elif kind == "RangeFull":
                    st.obj[dkey] = o
                    return
                if (kind in ("Range", "RangeTo") and b is None) or (kind in ("Range", "RangeFrom") and a is None) or kind not in ("Range", "RangeTo", "RangeFrom"):
                    self.oblige(body, blk, "slice-range", 0, sp, False, "range with an unknown bound", ctx)
                    new_obj(None, "sl")
                    return
                if b is not None:
                    self.need(st, body, blk, "slice-range-end", 0, sp, L.sub(b), f"range end {b} within the {L} bytes of `{o}`", ctx)
                if a is not None and b is not None:
                    self.need(st, body, blk, "slice-range-order", 0, sp, b.sub(a), f"range start {a} <= end {b}", ctx)
                elif a is not None:
                    self.need(st, body, blk, "slice-range-start", 0, sp, L.sub(a), f"range start {a} within the {L} bytes of `{o}`", ctx)
                lo = a if a is not None else Lin(0)
                hi = b if b is not None else L
                self.view_of[new_obj(hi.sub(lo), "sl")] = (o, lo, hi)
            elif idx_int is not None:
                self.need(st, body, blk, "index", 0, sp, L.sub(idx_int).sub(Lin(1)), f"index {idx_int} within the {L} bytes of `{o}`", ctx)
            else:
                new_obj(None, "sl")
            return
        if m in ("split_at", "split_at_mut") and len(t["args"]) == 2:
            o = self.arg_obj(st, body, t, 0)
            n = self.arg_int(st, body, t, 1)
            if o is None or n is None:
                self.oblige(body, blk, f"consume:{m}", 0, sp, False, f"{m} with an untracked buffer / unknown mid", ctx)
                return
            L = self.length(st, o)
            self.need(st, body, blk, f"consume:{m}", 0, sp, L.sub(n), f"{m}({n}) within the {L} bytes of `{o}`", ctx)
            o1, o2 = f"{fn}:sa{blk}.0", f"{fn}:sa{blk}.1"
            st.len[o1] = n
            st.len[o2] = L.sub(n)
            st.obj[(dkey[0], dkey[1] + (0,))] = o1
            st.obj[(dkey[0], dkey[1] + (1,))] = o2
            return
        if m == "copy_from_slice":
            d = self.arg_obj(st, body, t, 0)
            s_ = self.arg_obj(st, body, t, 1)
            if d is None or s_ is None:
                self.oblige(body, blk, "copy_from_slice", 0, sp, False, "copy_from_slice with untracked operands", ctx)
                return
            self.copies[body.defp].append((blk, d, s_))
            Ld, Ls = self.length(st, d), self.length(st, s_)
            ok = self.holds(st, Ld.sub(Ls)) and self.holds(st, Ls.sub(Ld))
            self.oblige(body, blk, "copy_from_slice", 0, sp, ok, f"copy_from_slice needs equal lengths: dst {Ld}, src {Ls}", ctx)
            return
        if m in ("from_slice", "from_mut_slice") and ("GenericArray" in selfs or "generic_array" in c.target):
            o = self.arg_obj(st, body, t, 0)
            n = typenum_val(dty) or typenum_val(" ".join(a.get("s", "") for a in c.args))
            if o is not None and n is not None:
                L = self.length(st, o)
                ok = self.holds(st, L.sub(Lin(n))) and self.holds(st, Lin(n).sub(L))
                self.oblige(body, blk, f"array-from-slice", 0, sp, ok, f"GenericArray::{m} needs exactly {n} bytes, slice has {L}", ctx)
                st.add_con(L.sub(Lin(n)))
                st.add_con(Lin(n).sub(L))
            if o is not None:
                st.obj[dkey] = o
            return
        # ---------- integers ----------
        if name == "Ord::min" and len(t["args"]) == 2:
            a, b = self.arg_int(st, body, t, 0), self.arg_int(st, body, t, 1)
            s_ = Lin.sym(f"min{blk}:{fn}")
            if a is not None:
                st.add_con(a.sub(s_))
            if b is not None:
                st.add_con(b.sub(s_))
            set_int(s_)
            return
        if c.target.endswith("mem::size_of"):
            tys = c.args[0].get("s", "") if c.args else ""
            if tys in MAXU:
                set_int(Lin({"u8": 1, "u16": 2, "u32": 4, "u64": 8, "u128": 16, "usize": 8}[tys]))
            return
        # ---------- option / result ----------
        if name in ("Option::unwrap", "Option::expect", "Result::unwrap", "Result::expect"):
            p0 = op_place(t["args"][0])
            ok = False
            why = "the Some/Ok variant is not established on this path"
            if p0 is not None:
                f = st.fact.get(pkey(p0))
                want = "Some" if name.startswith("Option") else "Ok"
                if f and f[0] == "variant" and f[1] == want:
                    ok, why = True, "value was constructed as Some/Ok on this path"
                pk_ = pkey(p0)
                fv = st.fact.get((pk_[0], pk_[1] + ("#v",)))
                if fv and fv[0] == "variant_idx" and fv[1] == (1 if want == "Some" else 0):
                    ok, why = True, "variant established by a preceding match"
                if f and f[0] == "ensured":
                    ok, why = True, f[1]
                sk = pkey(p0)
                sub = (sk[0], sk[1] + ((want, 0),))
                st.int.copy_tree(sub, dkey)
                st.obj.copy_tree(sub, dkey)
                st.fact.copy_tree(sub, dkey)
            self.oblige(body, blk, f"unwrap:{name}", 0, sp, ok, why, ctx)
            if dty in UNSIGNED and dkey not in st.int:
                set_int(Lin.sym(f"unw{blk}:{fn}"))
            return
        if name in ("Option::as_ref", "Option::as_mut", "Option::cloned", "Option::copied", "Option::as_deref") and t["args"]:
            p0 = op_place(t["args"][0])
            if p0 is not None:
                sk = pkey(p0)
                st.fact.copy_tree(sk, dkey)
                st.int.copy_tree(sk, dkey)
                st.obj.copy_tree(sk, dkey)
            return
        if name in ("IntoIterator::into_iter",) and t["args"]:
            p0 = op_place(t["args"][0])
            if p0 is not None:
                f = st.fact.get(pkey(p0))
                if f and f[0] == "range":
                    st.fact[dkey] = f
            return
        if name == "Iterator::next" and t["args"]:
            p0 = op_place(t["args"][0])
            f = st.fact.get(pkey(p0)) if p0 is not None else None
            if f and f[0] == "range" and f[1] in ("Range",) and f[2][0] is not None and f[2][1] is not None:
                i_ = Lin.sym(f"iter{blk}:{fn}")
                st.int[(dkey[0], dkey[1] + (("Some", 0),))] = i_
                st.add_con(i_.sub(f[2][0]))
                st.add_con(f[2][1].sub(i_).sub(Lin(1)))
            return
        if name == "Try::branch" and t["args"]:
            p0 = op_place(t["args"][0])
            if p0 is not None:
                sk = pkey(p0)
                if (sk[0], sk[1] + ("#ok",)) in st.fact:
                    st.fact[(dkey[0], dkey[1] + ("#ok",))] = st.fact[(sk[0], sk[1] + ("#ok",))]
                for vsrc, vdst in (("Ok", "Continue"), ("Some", "Continue")):
                    sub = (sk[0], sk[1] + ((vsrc, 0),))
                    dsub = (dkey[0], dkey[1] + ((vdst, 0),))
                    st.int.copy_tree(sub, dsub)
                    st.obj.copy_tree(sub, dsub)
                    st.fact.copy_tree(sub, dsub)
            return
        if name in ("Result::map_err", "Result::ok", "Option::ok_or", "Option::ok_or_else") and t["args"]:
            p0 = op_place(t["args"][0])
            if p0 is not None:
                sk = pkey(p0)
                if (sk[0], sk[1] + ("#ok",)) in st.fact:
                    st.fact[(dkey[0], dkey[1] + ("#ok",))] = st.fact[(sk[0], sk[1] + ("#ok",))]
                for (vs, vd) in ((("Ok", 0), ("Ok", 0)), (("Some", 0), ("Ok", 0)), (("Ok", 0), ("Some", 0))):
                    if (name == "Result::map_err" and vs[0] == "Ok" and vd[0] == "Ok") or (name == "Result::ok" and vs[0] == "Ok" and vd[0] == "Some") or (name.startswith("Option::ok_or") and vs[0] == "Some" and vd[0] == "Ok"):
                        sub = (sk[0], sk[1] + (vs,))
                        dsub = (dkey[0], dkey[1] + (vd,))
                        st.int.copy_tree(sub, dsub)
                        st.obj.copy_tree(sub, dsub)
                        st.fact.copy_tree(sub, dsub)
            return
        if name in ("TryInto::try_into", "TryFrom::try_from"):
            o = self.arg_obj(st, body, t, 0, create=False)
            m2 = re.search(r"\[u8; (\d+)\]", dty)
            if o is not None and m2:
                L = self.length(st, o)
                n = Lin(int(m2.group(1)))
                if self.holds(st, L.sub(n)) and self.holds(st, n.sub(L)):
                    st.fact[dkey] = ("ensured", f"slice length is exactly {n}")
            return
        # ---------- AEAD primitives (external): success truncates the buffer by the 16-byte tag ----------
        if m == "decrypt_in_place" and c.trait and last_seg(c.trait) == "AeadInPlace":
            o = self.arg_obj(st, body, t, 3)
            if o is not None:
                L = self.length(st, o)
                st.len[o] = L.sub(Lin(16))
                st.add_con(L.sub(Lin(16)))
            return
        if m == "encrypt_in_place" and c.trait and last_seg(c.trait) == "AeadInPlace":
            o = self.arg_obj(st, body, t, 3)
            if o is not None:
                st.len[o] = self.length(st, o).add(Lin(16))
            return
        if m in ("decrypt_in_place_detached", "encrypt_in_place_detached") and c.trait and last_seg(c.trait) == "AeadInPlace":
            return
        # ---------- constant functions / workspace inlining ----------
        tgt = c.target
        if tgt.startswith("octo_squirrel"):
            kconst = self.const_fn(tgt)
            if kconst is not None:
                set_int(Lin(kconst))
                return
            callee = self.prog.body(tgt)
            if callee is not None and callee.kind in ("Fn", "AssocFn") and (depth < self.max_depth or self._is_leaf(callee)) and tgt not in ctx and not self.prog.is_test_body(callee) and not callee.j.get("asyncness"):
                self.inline(body, blk, t, c, callee, st, ctx, depth)
                return
        self.unknown_call(body, blk, t, c, st, ctx)

    def consumed(self, st, o, blk):
        st.misc[("dirty", o)] = True
        # bytes were removed from this object and the decoder's state has not been written on this path (before or after)
        if not st.misc.get(("stw",)):
            st.misc[("unrec", o)] = True

    def unknown_call(self, body, blk, t, c, st, ctx):
        fn = short(body.defp)
        dplace = t["dest"]
        dkey = pkey(dplace)
        dty = body.local_ty(dplace[0]) if not dplace[1] else ""
        pure = True
        for i, a in enumerate(t["args"]):
            p = op_place(a)
            if p is None:
                continue
            ty = body.local_ty(p[0])
            if "&mut" in ty:
                pure = False
                if not is_buf_ty(ty) and self._arg_rooted(body, p[0]):
                    self._state_written(st)    # a library call may store into state that outlives this call
                if is_buf_ty(ty) and not re.match(r"^&mut \[u8(; \w+)?\]$", ty.strip()) and "GenericArray" not in ty:
                    o = self.obj_at(st, body, p)
                    if o is not None:
                        self.havoc_obj(st, o, f"call{blk}:{fn}")
                        self.consumed(st, o, blk)
        if dty in UNSIGNED:
            if pure and t["args"]:
                p0 = op_place(t["args"][0])
                recv = (self.obj_at(st, body, p0) if p0 else None) or (f"_{p0[0]}" if p0 else "")
                s_ = Lin.sym(f"{c.name}({recv})")
            else:
                s_ = Lin.sym(f"{c.name}@{blk}:{fn}")
            st.int[dkey] = s_
            if dty in MAXU and dty not in ("u64", "usize", "u128"):
                st.add_con(Lin(MAXU[dty]).sub(s_))
        elif is_buf_ty(dty) and not dty.startswith("std::result") and not dty.startswith("std::option"):
            o = f"{fn}:r{blk}"
            st.obj[dkey] = o
            al = array_len(dty)
            if al is None and "GenericArray<u8" in dty:
                tv = typenum_val(dty)
                al = Lin(tv) if tv is not None else None
            if al is None and c.trait and c.trait.startswith("octo_squirrel"):
                k_ = self.trait_slice_len(c.trait, c.method)
                al = Lin(k_) if k_ is not None else None
            st.len[o] = al if al is not None else Lin.sym(f"len({o})")
        elif dty == "bool" and pure and t["args"]:
            # pure predicates (support_eih(), is_aead_2022(), ...): the same call on the same receiver is one branch fact
            p0 = op_place(t["args"][0])
            recv = _place_repr(p0) if p0 else ""
            root = self._ref_root(body, p0) if p0 else recv
            st.fact[dkey] = ("pathbool", ("p", c.name, root))

    def trait_slice_len(self, trait, method):
        """a workspace trait method returning a slice: the constant length if every impl returns a reference to a fixed-size array field"""
        key = (trait, method)
        if not hasattr(self, "_tsl"):
            self._tsl = {}
        if key in self._tsl:
            return self._tsl[key]
        lens = set()
        n = 0
        for b in self.prog.prod_bodies():
            if b.impl_trait == trait and b.method == method and b.root == b.defp:
                n += 1
                got = None
                for blk in b.rpo():
                    for s_ in b.stmts(blk):
                        if s_["k"] == "assign" and s_["rv"]["k"] == "ref":
                            ty = self.place_type(b, s_["rv"]["p"])
                            al = array_len(ty or "")
                            if al is not None and al.is_const():
                                got = al.c
                lens.add(got)
        res = lens.pop() if n and len(lens) == 1 else None
        self._tsl[key] = res
        return res

    @staticmethod
    def _state_written(st):
        st.misc[("stw",)] = True
        for kx in [k for k in st.misc if isinstance(k, tuple) and k and k[0] == "unrec"]:
            st.misc.pop(kx)

    def _arg_rooted(self, body, local, depth=0):
        """does this pointer local come from one of the function's own arguments (possibly re-borrowed)?"""
        if local <= body.argc:
            # in an inlined callee only those parameters count whose actual argument was itself rooted in the entry function's arguments
            top = self._rooted_stack[-1] if self._rooted_stack else None
            return local >= 1 and (top is None or local in top)
        if depth > 6:
            return False
        for d in body.defs().get(local, []):
            if d[0] == "call":
                # a reference obtained from a rooted reference through an accessor (Box/Option/Pin deref, as_mut, get_mut, ...)
                c_ = Callee(d[2]["f"])
                if (c_.name in ALIAS_CALLS or (c_.method or "") in ROOT_PRESERVING) and d[2]["args"]:
                    q = op_place(d[2]["args"][0])
                    if q is not None and self._arg_rooted(body, q[0], depth + 1):
                        return True
                continue
            if d[0] != "assign":
                continue
            rv = d[3]["rv"]
            q = rv.get("p") if rv["k"] in ("ref", "rawptr") else (op_place(rv.get("op")) if rv["k"] in ("use", "cast") else None)
            if q is not None and self._arg_rooted(body, q[0], depth + 1):
                return True
        return False

    def _opaque_bool_result(self, body, blk, t, st):
        """a boolean a call returns and about which nothing is known gets ONE 0/1 symbol at its definition; copies, struct fields and helper
        parameters carry that symbol, so a length computed under `if flag {16} else {0}` in one helper and consumed under `if flag` in
        another are correlated. The symbol is named by function, block and inlining call-site chain."""
        d = t["dest"]
        if d[1] or body.local_ty(d[0]) != "bool":
            return
        dk = pkey(d)
        if dk in st.int or dk in st.fact:
            return
        key = ("b", f"{short(body.defp)}@{blk}#{'/'.join(self._site_stack)}", "call")
        name = ind(key)
        IND_KEYS[name] = key
        st.path.pop(key, None)          # a new value (loop iteration): what was known about the previous one does not carry over
        sym = Lin.sym(name)
        st.int[dk] = sym
        st.add_con(Lin(1).sub(sym))

    @staticmethod
    def _is_leaf(callee):
        """a tiny function that calls nothing (`fn size_bytes() -> usize { 2 }`): evaluating it costs nothing, even at the inlining bound"""
        return len(callee.blocks) <= 4 and not any(True for _ in callee.calls())

    def canon_rep(self, st, body, place):
        """identity of the value a discriminant is read from. Below a tracked object (an argument, something reached through one, or a
        by-value copy taken from such a place) it is the object's id — the same string in a caller and in every helper the value is handed
        to; otherwise the body-local spelling of the place."""
        o = self.obj_at(st, body, place, create=False)
        if o is not None:
            return "@" + o
        return _place_repr(place)

    @staticmethod
    def _discr_contradicts(st, rep, v, listed, nv):
        def known(val):
            for r_ in (rep, "^" + rep):
                if nv == 2 and val in (0, 1):
                    k0 = ("d", r_, 0, 2)
                    if k0 in st.path:
                        return st.path[k0] if val == 0 else (not st.path[k0])
                else:
                    k_ = ("d", r_, val, nv)
                    if k_ in st.path:
                        return st.path[k_]
            return None
        if v is not None:
            return known(v) is False
        return any(known(lv) is True for lv in listed)

    def _ref_root(self, body, p):
        """textual root of a reference operand (`&(*_2).kind` -> '(*_2).kind')"""
        if p[1]:
            return _place_repr(p)
        for d in body.defs().get(p[0], []):
            if d[0] == "assign" and d[3]["rv"]["k"] == "ref":
                return _place_repr(d[3]["rv"]["p"])
            if d[0] == "assign" and d[3]["rv"]["k"] == "use":
                q = op_place(d[3]["rv"]["op"])
                if q is not None:
                    return self._ref_root(body, q) if not q[1] else _place_repr(q)
        return f"_{p[0]}"

    def inline(self, body, blk, t, c, callee, st, ctx, depth):
        cs = State()
        cs.cons = list(st.cons)
        cs.len = st.len  # object ids are global strings: effects on caller objects are shared
        cs.misc = st.misc
        cs.path = {k: v for k, v in st.path.items() if k[0] == "p"}
        # discriminant facts of the caller's path stay true while the callee runs: lengths computed in the caller may mention their
        # indicator symbols (`if mode == Client { n } else { 0 }`), and a helper called on that branch consumes accordingly
        for k, v in st.path.items():
            if k[0] == "d" and isinstance(k[1], str):
                cs.path[("d", k[1] if k[1].startswith("^") else "^" + k[1]) + tuple(k[2:])] = v
        fn = short(body.defp)
        for i, a in enumerate(t["args"]):
            pl = i + 1
            p = op_place(a)
            v = self.eval_op(st, body, a)
            if v is not None:
                cs.int[(pl, ())] = v
            if p is not None:
                sk = pkey(p)
                cs.int.copy_tree(sk, (pl, ()), st.int)
                cs.obj.copy_tree(sk, (pl, ()), st.obj)
                cs.fact.copy_tree(sk, (pl, ()), st.fact)
                if (pl, ()) not in cs.obj:
                    o = self.obj_at(st, body, p, create=True)
                    cs.obj[(pl, ())] = o
            else:
                k = op_const(a)
                if k is not None and ("str" in k or "bytes" in k):
                    o = f"constarg:{short(callee.defp)}:{blk}:{i}"
                    cs.len[o] = Lin(len(k["str"].encode())) if "str" in k else Lin(len(k["bytes"]))
                    cs.obj[(pl, ())] = o
        rooted = set()
        for i, a in enumerate(t["args"]):
            p = op_place(a)
            if p is not None and self._arg_rooted(body, p[0]):
                rooted.add(i + 1)
        self._rooted_stack.append(rooted)
        self._site_stack.append(f"{short(body.defp)}:{blk}")
        try:
            rr = self.run(callee, cs, ctx + [callee.defp], depth + 1, want_groups=True)
        finally:
            self._rooted_stack.pop()
            self._site_stack.pop()
        dkey = pkey(t["dest"])
        if rr is None:
            return "diverges"
        ret, ret_ok, ret_some, ret_none = rr

        def pack(sub):
            cons_ = tuple(c_ for c_ in sub.cons if c_ not in ret.cons)
            lens_ = tuple(sorted(((o, L) for o, L in sub.len.items() if ret.len.get(o) != L), key=lambda x: x[0]))
            dirty_ = tuple(sorted(k[1] for k in sub.misc if isinstance(k, tuple) and k and k[0] == "dirty"))
            unrec_ = tuple(sorted(k[1] for k in sub.misc if isinstance(k, tuple) and k and k[0] == "unrec"))
            return ("okfacts", cons_, lens_, dirty_, unrec_, bool(sub.misc.get(("stw",))))

        if ret_ok is not None:
            # what only holds when the callee returned its success variant: applied when the caller takes the success arm
            st.fact[(dkey[0], dkey[1] + ("#ok",))] = pack(ret_ok)
            if ret_some is not None:
                st.fact[(dkey[0], dkey[1] + (("Ok", 0), "#some"))] = pack(ret_some)
            if ret_none is not None:
                st.fact[(dkey[0], dkey[1] + (("Ok", 0), "#none"))] = pack(ret_none)
            elif ret_some is not None and "Option<" in body.local_ty(t["dest"][0]):
                st.fact[(dkey[0], dkey[1] + (("Ok", 0), "#none"))] = ("infeasible",)
            if ret_some is None and ret_none is not None and "Option<" in body.local_ty(t["dest"][0]):
                st.fact[(dkey[0], dkey[1] + (("Ok", 0), "#some"))] = ("infeasible",)
        for o, L in ret.len.items():
            st.len[o] = L
        for kx, vx in ret.misc.items():
            if not (isinstance(kx, tuple) and kx and kx[0] == "dirty"):
                st.misc[kx] = vx
        # "consumed and not looked at since": what the callee's normal (non-error) returns say
        src_m = ret_ok.misc if ret_ok is not None else ret.misc
        for kx in [k for k in st.misc if isinstance(k, tuple) and k and k[0] == "dirty"]:
            st.misc.pop(kx)
        for kx in [k for k in st.misc if isinstance(k, tuple) and k and k[0] == "unrec"]:
            st.misc.pop(kx)
        for kx in src_m:
            if isinstance(kx, tuple) and kx and kx[0] in ("dirty", "unrec", "stw"):
                st.misc[kx] = True
        for cons in ret.cons:
            st.add_con(cons)
        for kx, vx in ret.path.items():
            if kx[0] == "p" or kx[0] == "ind":
                st.path.setdefault(kx, vx)
        st.int.copy_tree((0, ()), dkey, ret.int)
        st.obj.copy_tree((0, ()), dkey, ret.obj)
        st.fact.copy_tree((0, ()), dkey, ret.fact)
        dty = body.local_ty(t["dest"][0]) if not t["dest"][1] else ""
        if dkey not in st.obj and is_buf_ty(dty) and not dty.startswith("std::result") and not dty.startswith("std::option"):
            o = f"{fn}:r{blk}"
            st.obj[dkey] = o
            st.len.setdefault(o, Lin.sym(f"len({o})"))
        if dkey not in st.int and dty in UNSIGNED:
            st.int[dkey] = Lin.sym(f"ret:{short(callee.defp)}@{blk}:{fn}")
        if dty in UNSIGNED and callee.argc >= 1:
            ids = []
            for i, a in enumerate(t["args"]):
                p = op_place(a)
                v = self.eval_op(st, body, a)
                if v is not None:
                    ids.append(repr(v))
                elif p is not None and st.fact.get(pkey(p), ("",))[0] == "id":
                    ids.append(st.fact[pkey(p)][1])
                elif p is not None and "&mut" not in body.local_ty(p[0]) and st.fact.get((p[0], ()), ("",))[0] == "id":
                    ids.append(st.fact[(p[0], ())][1])
                else:
                    ids = None
                    break
            def _stable(sym_):
                # symbols that mean the same thing wherever they appear: branch indicators, const generics, canonical pure-function values
                return sym_.startswith("[") or sym_.startswith("param:") or ("(" in sym_ and "@" not in sym_.split("(")[0] and not sym_.startswith("len("))
            if ids is not None and not st.int[dkey].is_const() and len(st.int[dkey].t) > 1 and all(_stable(sy) for sy in st.int[dkey].t):
                ids = None      # the inlining computed the value as an expression over stable symbols: more informative than an opaque name
            if ids is not None:
                canon = Lin.sym(f"{short(callee.defp)}({', '.join(ids)})")
                got = st.int[dkey]
                if not got.is_const():
                    # the same pure function of the same arguments is one value: tie the canonical symbol to what this inlining learnt
                    for c_ in list(st.cons):
                        if set(got.t) & set(c_.t) and len(got.t) == 1:
                            (gs, gc), = got.t.items()
                            if gc == 1 and got.c == 0 and gs in c_.t:
                                st.add_con(Lin(c_.c, {(canon.t and list(canon.t)[0]) if k_ == gs else k_: v_ for k_, v_ in c_.t.items()}))
                    st.int[dkey] = canon
        return "ok"

    # ---- entry -------------------------------------------------------------------------------------------------
    def analyse_entry(self, body):
        st = State()
        for i in range(1, body.argc + 1):
            ty = body.local_ty(i)
            o = f"{short(body.defp)}:arg{i}"
            st.obj[(i, ())] = o
            if is_buf_ty(ty):
                al = array_len(ty)
                st.len[o] = al if al is not None else Lin.sym(f"len({o})")
            if ty in UNSIGNED:
                st.int[(i, ())] = Lin.sym(f"arg{i}:{short(body.defp)}")
            elif not is_buf_ty(ty):
                st.fact[(i, ())] = ("id", f"{short(body.defp)}:arg{i}")
        return self.run(body, st, [body.defp], 0)


def set_discr(st, rep, v, truth, nv):
    """record `discr(place) == v` is `truth`; two-variant enums are canonicalised on value 0"""
    if nv == 2 and v in (0, 1):
        st.path[("d", rep, 0, 2)] = truth if v == 0 else (not truth)
        return
    st.path[("d", rep, v, nv)] = truth
    if truth:
        for key in [kx for kx in st.path if kx[0] == "d" and kx[1] == rep and kx[2] != v]:
            st.path[key] = False


def typenum_val(s):
    """value of the first typenum unsigned in a type string: UInt<UInt<UTerm, B1>, B0> = 0b10"""
    i = s.find("UInt<")
    if i < 0:
        return None
    depth = 0
    j = i
    seg = ""
    while j < len(s):
        ch = s[j]
        seg += ch
        if ch == "<":
            depth += 1
        elif ch == ">":
            depth -= 1
            if depth == 0:
                break
        j += 1
    bits = re.findall(r"B([01])", seg)
    if not bits:
        return None
    v = 0
    for b_ in bits:
        v = v * 2 + int(b_)
    return v


def _pe(e):
    if isinstance(e, tuple):
        return "@".join(str(x) for x in e)
    return str(e)


def _place_repr(p):
    s = f"_{p[0]}"
    for e in p[1]:
        if e[0] == "deref":
            s = f"(*{s})"
        elif e[0] == "field":
            s += f".{e[2] if e[2] else e[1]}"
        elif e[0] == "downcast":
            s += f"@{e[1]}"
        else:
            s += f"[{e[0]}]"
    return s
