"""Build and load the fact base produced by the osq-lint rustc driver."""
import fcntl
import hashlib
import json
import os
import shutil
import subprocess
import sys
import time

VERIF = os.path.dirname(os.path.dirname(os.path.abspath(__file__)))
CACHE = os.path.join(VERIF, ".cache")
DRIVER_DIR = os.path.join(VERIF, "osq-lint")
DRIVER = os.path.join(DRIVER_DIR, "target", "release", "osq-lint")
TARGET = os.path.join(CACHE, "target")

EXPECTED_UNITS = [
    "octo_squirrel.rlib.json",
    "octo_squirrel_client.rlib.json",
    "octo_squirrel_client.executable.json",
    "octo_squirrel_server.rlib.json",
    "octo_squirrel_server.executable.json",
]


class BuildError(Exception):
    pass


def tree_hash(repo):
    """Content hash of every source-relevant file of the working tree (not git state)."""
    h = hashlib.sha256()
    for root, dirs, files in os.walk(repo):
        dirs[:] = sorted(d for d in dirs if d not in (".git", "target"))
        for f in sorted(files):
            p = os.path.join(root, f)
            if not (f.endswith(".rs") or f.endswith(".toml") or f.endswith(".lock") or f == "README.md"):
                continue
            h.update(os.path.relpath(p, repo).encode())
            h.update(b"\0")
            try:
                with open(p, "rb") as fh:
                    h.update(fh.read())
            except OSError:
                pass
            h.update(b"\0")
    # the driver is part of the function from sources to facts
    for f in sorted(os.listdir(os.path.join(DRIVER_DIR, "src"))):
        with open(os.path.join(DRIVER_DIR, "src", f), "rb") as fh:
            h.update(fh.read())
    return h.hexdigest()[:20]


def nightly_sysroot():
    return subprocess.check_output(["rustc", "+nightly", "--print", "sysroot"], text=True).strip()


def ensure_driver():
    srcs = [os.path.join(DRIVER_DIR, "src", f) for f in os.listdir(os.path.join(DRIVER_DIR, "src"))]
    if os.path.exists(DRIVER) and all(os.path.getmtime(DRIVER) >= os.path.getmtime(s) for s in srcs):
        return
    env = dict(os.environ, CARGO_NET_OFFLINE="true")
    r = subprocess.run(["cargo", "+nightly", "build", "--release", "--offline"], cwd=DRIVER_DIR, env=env, capture_output=True, text=True)
    if r.returncode != 0:
        raise BuildError("driver build failed:\n" + r.stderr[-4000:])


def _clear_member_fingerprints(profile_dir):
    fp = os.path.join(profile_dir, ".fingerprint")
    if os.path.isdir(fp):
        for d in os.listdir(fp):
            if d.startswith("octo-squirrel") or d.startswith("octo_squirrel") or d.startswith("tracing-"):
                shutil.rmtree(os.path.join(fp, d), ignore_errors=True)


def build(repo="/repo", mode="quick", log=None):
    """Run the driver over the working tree at `repo`; returns the directory with fact files.

    mode quick: --lib --bins with the workspace's feature set.
    mode tests: additionally --tests (unit-test configuration of every member).
    """
    os.makedirs(CACHE, exist_ok=True)
    th = tree_hash(repo)
    out = os.path.join(CACHE, "facts", f"{th}-{mode}")
    marker = os.path.join(out, ".complete")
    lock_path = os.path.join(CACHE, "build.lock")
    with open(lock_path, "w") as lock:
        fcntl.flock(lock, fcntl.LOCK_EX)
        if os.path.exists(marker):
            os.utime(out, None)   # recently used: keep it out of _prune_old's reach
            return out
        ensure_driver()
        shutil.rmtree(out, ignore_errors=True)
        os.makedirs(out)
        _clear_member_fingerprints(os.path.join(TARGET, "debug"))
        env = dict(os.environ)
        env.update(
            CARGO_INCREMENTAL="0",
            CARGO_NET_OFFLINE="true",
            LD_LIBRARY_PATH=os.path.join(nightly_sysroot(), "lib"),
            RUSTFLAGS="-Zmir-opt-level=0 -Awarnings",
            OSQ_OUT=out,
            RUSTC_WORKSPACE_WRAPPER=DRIVER,
            CARGO_TARGET_DIR=TARGET,
        )
        env.pop("RUSTC_WRAPPER", None)
        cmd = ["cargo", "+nightly", "check", "--offline", "--workspace", "--lib", "--bins"]
        if mode == "tests":
            cmd.append("--tests")
        t0 = time.time()
        r = subprocess.run(cmd, cwd=repo, env=env, capture_output=True, text=True)
        if log is not None:
            log.append(f"driver run: {' '.join(cmd)} rc={r.returncode} {time.time() - t0:.1f}s")
        if r.returncode != 0:
            shutil.rmtree(out, ignore_errors=True)
            raise BuildError("cargo check under the driver failed (the tree does not compile?):\n" + r.stderr[-6000:])
        missing = [u for u in EXPECTED_UNITS if not os.path.exists(os.path.join(out, u))]
        if missing:
            shutil.rmtree(out, ignore_errors=True)
            raise BuildError(f"driver produced no facts for {missing} (freshness cache? wrapper skipped)")
        with open(marker, "w") as fh:
            fh.write(str(time.time()))
        _prune_old()
        return out


def _prune_old(keep=12, min_age_s=1800):
    """Drop old fact bases; never one that was used in the last half hour (a concurrent check may be loading it)."""
    d = os.path.join(CACHE, "facts")
    ents = [os.path.join(d, e) for e in os.listdir(d) if os.path.isdir(os.path.join(d, e))]
    ents.sort(key=os.path.getmtime, reverse=True)
    now = time.time()
    for e in ents[keep:]:
        if now - os.path.getmtime(e) > min_age_s:
            shutil.rmtree(e, ignore_errors=True)


def load(out):
    units = {}
    for f in sorted(os.listdir(out)):
        if f.endswith(".json"):
            with open(os.path.join(out, f)) as fh:
                units[f[:-5]] = json.load(fh)
    return units


if __name__ == "__main__":
    log = []
    d = build(sys.argv[1] if len(sys.argv) > 1 else "/repo", log=log)
    print(d, log)
