"""Program model over the dumped MIR: CFG, dominators, def-use, call sites."""
from collections import defaultdict


def loc(sp):
    """'file:line' from a dumped span [file, lo, hi, from_expansion, col]."""
    if not sp:
        return "?"
    return f"{sp[0]}:{sp[1]}"


def op_place(op):
    if op is None:
        return None
    if "copy" in op:
        return op["copy"]
    if "move" in op:
        return op["move"]
    return None


def op_const(op):
    if op is not None and "const" in op:
        return op["const"]
    return None


def op_int(op):
    c = op_const(op)
    if c is not None and "int" in c:
        return c["int"]
    return None


def base(place):
    return place[0] if place is not None else None


def is_plain(place):
    return place is not None and not place[1]


def last_seg(path):
    return path.rsplit("::", 1)[-1] if path else path


class Callee:
    """Normalised view of a call terminator's callee."""

    def __init__(self, f):
        self.f = f
        self.indirect = "indirect" in f
        self.path = f.get("path", "")
        self.resolved = f.get("resolved")
        self.trait = f.get("trait")
        self.method = f.get("method") or last_seg(self.path)
        self.args = f.get("args", [])
        self.impl_self = f.get("impl_self")

    @property
    def self_def(self):
        """def path of the receiver / Self type, when known."""
        if self.impl_self is not None:
            return self.impl_self.get("d") or self.impl_self.get("s")
        if self.trait and self.args:
            return self.args[0].get("d") or self.args[0].get("s")
        return None

    @property
    def self_s(self):
        if self.impl_self is not None:
            return self.impl_self.get("s", "")
        if self.trait and self.args:
            return self.args[0].get("s", "")
        return ""

    @property
    def name(self):
        """'Trait::method', 'Type::method' or the free function's path."""
        if self.indirect:
            return "<indirect>"
        if self.trait:
            return f"{last_seg(self.trait)}::{self.method}"
        if self.impl_self is not None:
            t = self.impl_self.get("d") or self.impl_self.get("s", "")
            return f"{last_seg(t)}::{self.method}"
        return self.path

    @property
    def target(self):
        """best-known definition path that is actually executed"""
        return self.resolved or self.path

    def is_trait_method(self, trait_last, method):
        return self.trait is not None and last_seg(self.trait) == trait_last and self.method == method

    def is_inherent(self, type_last, method):
        if self.impl_self is None or self.method != method:
            return False
        t = self.impl_self.get("d") or self.impl_self.get("s", "")
        return last_seg(t) == type_last or t == type_last

    def __repr__(self):
        return f"Callee({self.name} -> {self.target})"


class Body:
    def __init__(self, j, unit):
        self.j = j
        self.unit = unit
        self.defp = j["def"]
        self.root = j.get("root", j["def"])
        self.parent = j.get("parent")
        self.kind = j["kind"]
        self.blocks = j["blocks"]
        self.locals = j["locals"]
        self.argc = j["argc"]
        self.sp = j["sp"]
        self.n = len(self.blocks)
        self._succ = None
        self._pred = None
        self._idom = None
        self._rpo = None
        self._defs = None
        self._reach_cache = {}

    # ---- identity -------------------------------------------------------------------
    @property
    def file(self):
        return self.sp[0]

    @property
    def impl_trait(self):
        return self.j.get("impl_trait")

    @property
    def impl_self_def(self):
        s = self.j.get("impl_self")
        return (s.get("d") or s.get("s")) if s else None

    @property
    def method(self):
        return self.j.get("method")

    def local_name(self, l):
        return self.locals[l].get("name")

    def local_ty(self, l):
        return self.locals[l]["ty"].get("s", "")

    def local_ty_def(self, l):
        return self.locals[l]["ty"].get("d")

    def local_by_name(self, name):
        return [i for i, l in enumerate(self.locals) if l.get("name") == name]

    def upvar_name(self, place):
        """debug name of a captured variable accessed through `_1.<field>` (closures / coroutines)"""
        for name, p in self.j.get("upvars", []):
            if p[0] == place[0] and p[1][: len(place[1])] == place[1][: len(p[1])] and len(place[1]) >= len(p[1]):
                return name
        return None

    # ---- CFG ------------------------------------------------------------------------
    def term(self, b):
        return self.blocks[b]["t"]

    def stmts(self, b):
        return self.blocks[b]["s"]

    def call_term(self, b):
        """the call terminator of block b — also when the call was spliced away in a flat body"""
        t = self.blocks[b]["t"]
        if t and t["k"] == "goto" and "inlined_call" in t:
            return t["inlined_call"]
        return t

    def succ(self, b):
        if self._succ is None:
            self._succ = [self._succ_of(i) for i in range(self.n)]
        return self._succ[b]

    def _succ_of(self, b):
        t = self.blocks[b]["t"]
        if t is None:
            return []
        k = t["k"]
        if k in ("goto", "drop", "assert", "false_edge", "false_unwind", "yield"):
            return [t["t"]]
        if k == "switch":
            out = [a[1] for a in t["arms"]]
            out.append(t["otherwise"])
            # dedupe, keep order
            seen = []
            for x in out:
                if x not in seen:
                    seen.append(x)
            return seen
        if k == "call":
            return [t["t"]] if t["t"] is not None else []
        return []

    def pred(self, b):
        if self._pred is None:
            p = [[] for _ in range(self.n)]
            for i in range(self.n):
                for s in self.succ(i):
                    p[s].append(i)
            self._pred = p
        return self._pred[b]

    def rpo(self):
        if self._rpo is None:
            seen = set()
            order = []
            stack = [(0, iter(self.succ(0)))]
            seen.add(0)
            while stack:
                node, it = stack[-1]
                advanced = False
                for s in it:
                    if s not in seen:
                        seen.add(s)
                        stack.append((s, iter(self.succ(s))))
                        advanced = True
                        break
                if not advanced:
                    order.append(node)
                    stack.pop()
            order.reverse()
            self._rpo = order
        return self._rpo

    def reachable_blocks(self):
        return set(self.rpo())

    def idom(self):
        if self._idom is None:
            rpo = self.rpo()
            idx = {b: i for i, b in enumerate(rpo)}
            idom = {rpo[0]: rpo[0]}

            def intersect(a, b):
                while a != b:
                    while idx[a] > idx[b]:
                        a = idom[a]
                    while idx[b] > idx[a]:
                        b = idom[b]
                return a

            changed = True
            while changed:
                changed = False
                for b in rpo[1:]:
                    preds = [p for p in self.pred(b) if p in idom]
                    if not preds:
                        continue
                    new = preds[0]
                    for p in preds[1:]:
                        new = intersect(p, new)
                    if idom.get(b) != new:
                        idom[b] = new
                        changed = True
            self._idom = idom
        return self._idom

    def dominates(self, a, b):
        """block a dominates block b (both reachable)"""
        idom = self.idom()
        if b not in idom or a not in idom:
            return False
        while True:
            if a == b:
                return True
            nb = idom[b]
            if nb == b:
                return False
            b = nb

    def reach_from(self, b, avoid=frozenset()):
        """blocks reachable from b (inclusive) without passing through `avoid`"""
        key = (b, frozenset(avoid))
        if key in self._reach_cache:
            return self._reach_cache[key]
        seen = set()
        if b in avoid:
            self._reach_cache[key] = seen
            return seen
        st = [b]
        seen.add(b)
        while st:
            x = st.pop()
            for s in self.succ(x):
                if s not in seen and s not in avoid:
                    seen.add(s)
                    st.append(s)
        self._reach_cache[key] = seen
        return seen

    def can_reach(self, a, b, avoid=frozenset()):
        return b in self.reach_from(a, avoid)

    def edge_dominates(self, src, dst, site):
        """the CFG edge src->dst dominates block `site`: every path entry->site uses that edge.
        True iff dst dominates site and every other predecessor of dst is dominated by dst (back edges)."""
        if not self.dominates(dst, site):
            return False
        for p in self.pred(dst):
            if p == src:
                continue
            if p in self.reachable_blocks() and not self.dominates(dst, p):
                return False
        return True

    def loops(self):
        """natural loops: list of (header, set(blocks)) — loops with the same header are merged"""
        if getattr(self, "_loops", None) is None:
            by_header = {}
            for u in self.rpo():
                for h in self.succ(u):
                    if self.dominates(h, u):
                        body = by_header.setdefault(h, {h})
                        st = [u]
                        while st:
                            x = st.pop()
                            if x in body:
                                continue
                            body.add(x)
                            st.extend(self.pred(x))
            self._loops = sorted(by_header.items(), key=lambda kv: len(kv[1]))
        return self._loops

    def innermost_loop(self, blk):
        for h, body in self.loops():
            if blk in body:
                return h, body
        return None

    def loop_exits(self, body):
        """[(src_block, dst_block)] edges leaving the loop body"""
        out = []
        for x in sorted(body):
            for s_ in self.succ(x):
                if s_ not in body:
                    out.append((x, s_))
        return out

    def return_blocks(self):
        return [b for b in self.rpo() if self.term(b) and self.term(b)["k"] == "return"]

    # ---- statements / calls -----------------------------------------------------------
    def calls(self):
        """[(block, Callee, term)] for every reachable call terminator. In a flat body the call sites that were spliced away are listed
        too (with their original call terminator: same args, same dest — the spliced callee assigns the dest on return), so that a rule
        that looks for "the call to X" finds it whether or not X's body was spliced in."""
        out = []
        for b in self.rpo():
            t = self.term(b)
            if t and t["k"] == "call":
                out.append((b, Callee(t["f"]), t))
            elif t and t["k"] == "goto" and "inlined_call" in t:
                out.append((b, Callee(t["inlined_call"]["f"]), t["inlined_call"]))
        return out

    def real_calls(self):
        """call terminators only (spliced call sites excluded)"""
        return [(b, c, t) for (b, c, t) in self.calls() if self.term(b)["k"] == "call"]

    def inlined_calls(self):
        """[(block, Callee, original call term)] for the call sites that were spliced away in a flat body"""
        out = []
        for b in self.rpo():
            t = self.term(b)
            if t and t["k"] == "goto" and "inlined_call" in t:
                out.append((b, Callee(t["inlined_call"]["f"]), t["inlined_call"]))
        return out

    def find_calls(self, pred):
        return [(b, c, t) for (b, c, t) in self.calls() if pred(c)]

    def defs(self):
        """local -> list of definitions: ('assign', block, idx, stmt) | ('call', block, term) | ('yield', block, term)"""
        if self._defs is None:
            d = defaultdict(list)
            for b in self.rpo():
                for i, s in enumerate(self.stmts(b)):
                    if s["k"] == "assign":
                        d[s["p"][0]].append(("assign", b, i, s))
                t = self.term(b)
                if t:
                    if t["k"] == "call":
                        d[t["dest"][0]].append(("call", b, t))
                    elif t["k"] == "goto" and "inlined_call" in t:
                        # a spliced call still *defines* its destination as far as "derives from the call to X" is concerned
                        d[t["inlined_call"]["dest"][0]].append(("call", b, t["inlined_call"], "spliced"))
                    elif t["k"] == "yield":
                        d[t["resume_arg"][0]].append(("yield", b, t))
            self._defs = d
        return self._defs

    def operands_of_rvalue(self, rv):
        k = rv["k"]
        if k in ("use", "repeat", "cast"):
            return [rv["op"]]
        if k in ("ref", "rawptr", "discr"):
            return [{"copy": rv["p"]}]
        if k == "bin":
            return [rv["a"], rv["b"]]
        if k == "un":
            return [rv["a"]]
        if k == "agg":
            return rv["ops"]
        return []

    def slice_back(self, start_locals, stop_call=None, max_steps=20000, stop_local=None):
        """May-derive backward slice (flow-insensitive): returns (locals, calls, consts) from which the
        given locals may derive. `stop_call(callee)` -> True stops the traversal through that call's
        arguments (the call itself is still recorded)."""
        defs = self.defs()
        seen = set()
        calls = []
        consts = []
        work = list(start_locals)
        steps = 0
        while work and steps < max_steps:
            steps += 1
            l = work.pop()
            if l in seen:
                continue
            seen.add(l)
            if stop_local is not None and l not in start_locals and stop_local(l):
                continue
            for d in defs.get(l, []):
                if d[0] == "assign":
                    rv = d[3]["rv"]
                    for op in self.operands_of_rvalue(rv):
                        p = op_place(op)
                        if p is not None:
                            work.append(p[0])
                            for e in p[1]:
                                if e[0] == "index":
                                    work.append(e[1])
                        else:
                            c = op_const(op)
                            if c is not None:
                                consts.append((d[1], c))
                elif d[0] == "call":
                    t = d[2]
                    c = Callee(t["f"])
                    calls.append((d[1], c, t))
                    if stop_call is not None and stop_call(c):
                        continue
                    for a in t["args"]:
                        p = op_place(a)
                        if p is not None:
                            work.append(p[0])
                        else:
                            cc = op_const(a)
                            if cc is not None:
                                consts.append((d[1], cc))
                    if "indirect" in t["f"]:
                        p = op_place(t["f"]["indirect"])
                        if p is not None:
                            work.append(p[0])
        return seen, calls, consts

    def slice_fwd(self, start_locals, max_steps=20000):
        """May-flow forward closure of locals (flow-insensitive): locals that may derive from the start set,
        and the calls that take one of them as an argument."""
        # build reverse map lazily
        uses = defaultdict(list)  # local -> [(kind, block, payload)]
        for b in self.rpo():
            for s in self.stmts(b):
                if s["k"] == "assign":
                    for op in self.operands_of_rvalue(s["rv"]):
                        p = op_place(op)
                        if p is not None:
                            uses[p[0]].append(("assign", b, s))
            t = self.term(b)
            if t and t["k"] == "call":
                for i, a in enumerate(t["args"]):
                    p = op_place(a)
                    if p is not None:
                        uses[p[0]].append(("call", b, (t, i)))
            if t and t["k"] == "switch":
                p = op_place(t["d"])
                if p is not None:
                    uses[p[0]].append(("switch", b, t))
        seen = set()
        calls = []
        switches = []
        work = list(start_locals)
        steps = 0
        while work and steps < max_steps:
            steps += 1
            l = work.pop()
            if l in seen:
                continue
            seen.add(l)
            for u in uses.get(l, []):
                if u[0] == "assign":
                    work.append(u[2]["p"][0])
                elif u[0] == "call":
                    t, i = u[2]
                    calls.append((u[1], Callee(t["f"]), t, i))
                    work.append(t["dest"][0])
                    # a `&mut` argument may be written through: treat other &mut args as outputs too
                else:
                    switches.append((u[1], u[2]))
        return seen, calls, switches

    def block_of_call(self, term):
        for b in self.rpo():
            t = self.term(b)
            if t is term or (t and t.get("inlined_call") is term):
                return b
        return None

    def gating_switches(self, call_block, through=None):
        """Switch terminators whose discriminant may derive from the result of the call at `call_block`."""
        t = self.call_term(call_block)
        seen, calls, switches = self.slice_fwd([t["dest"][0]])
        return switches


CURRENT = None


def tymatch(path, want):
    """`path` names the type `want` (a path suffix as the rules spell it): a suffix match, or — when the type was moved to another module —
    the same last segment, provided the workspace has exactly one struct/enum of that name."""
    p = (path or "").split("<")[0]
    if (path or "").endswith(want) or p.endswith(want):
        return True
    last = last_seg(want)
    if last_seg(p) != last or CURRENT is None:
        return False
    u = CURRENT.unique_type(last)
    return u is not None and u == p


class Program:
    """All analysed units. Bodies are de-duplicated by def path across the lib and bin builds of one crate."""

    def __init__(self, units):
        global CURRENT
        CURRENT = self
        self.units = units
        self.bodies = {}
        self.items = []
        self.by_root = defaultdict(list)
        seen_items = set()
        # prefer rlib units over executables for duplicates
        order = sorted(units.keys(), key=lambda u: (0 if ".rlib" in u else 1, u))
        for u in order:
            d = units[u]
            for bj in d["bodies"]:
                if bj["def"] in self.bodies:
                    continue
                b = Body(bj, u)
                self.bodies[b.defp] = b
            for it in d["items"]:
                key = (it["k"], it["path"])
                if key in seen_items:
                    continue
                seen_items.add(key)
                it["_unit"] = u
                self.items.append(it)
        for b in self.bodies.values():
            self.by_root[b.root].append(b)

    def display(self, defp):
        """line-free, impl-ordinal-free display name used in obligation keys"""
        b = self.bodies.get(defp)
        if b is None:
            return defp
        root = self.bodies.get(b.root, b)
        j = root.j
        if "impl_self" in j and j.get("method"):
            modp = root.defp.rsplit("::", 2)[0]  # strip {impl#n}::method
            st = j["impl_self"].get("d") or j["impl_self"].get("s", "?")
            st = last_seg(st.split("<")[0])
            if j.get("impl_trait"):
                name = f"{modp}::<{st} as {last_seg(j['impl_trait'])}>::{j['method']}"
            else:
                name = f"{modp}::{st}::{j['method']}"
        else:
            name = root.defp
        if b is not root:
            name += b.defp[len(root.defp):]
        return name

    def is_test_body(self, b):
        return "::test::" in b.defp or "::tests::" in b.defp or b.defp.endswith("::test")

    def prod_bodies(self):
        return [b for b in self.bodies.values() if not self.is_test_body(b)]

    def body(self, defp):
        return self.bodies.get(defp)

    def family(self, root):
        """the function and all closures / coroutine bodies nested in it"""
        return sorted(self.by_root.get(root, []), key=lambda b: b.defp)

    def find_bodies(self, pred):
        return sorted([b for b in self.prod_bodies() if pred(b)], key=lambda b: b.defp)

    def fn_by_suffix(self, suffix):
        """bodies whose def path ends with `suffix` (e.g. 'aead_2022::validate_timestamp')"""
        return sorted([b for b in self.prod_bodies() if b.defp.endswith(suffix)], key=lambda b: b.defp)

    def impls_of(self, trait_last):
        return [it for it in self.items if it["k"] == "impl" and last_seg(it.get("trait", "")) == trait_last]

    def methods_of_trait_impls(self, trait_last, method):
        """bodies that implement `trait::method` in the workspace"""
        out = []
        for b in self.prod_bodies():
            if b.impl_trait and last_seg(b.impl_trait) == trait_last and b.method == method and b.root == b.defp:
                out.append(b)
        return sorted(out, key=lambda b: b.defp)

    def item(self, kind, suffix):
        """items of `kind` whose path ends with `suffix`; if the item was moved to another module (no path match) the unique item of that
        kind with the same last segment"""
        out = [it for it in self.items if it["k"] == kind and it["path"].endswith(suffix)]
        if not out:
            last = last_seg(suffix)
            cands = [it for it in self.items if it["k"] == kind and last_seg(it["path"]) == last]
            if len(cands) == 1:
                out = cands
        return out

    def unique_type(self, last):
        """def path of the only struct/enum of the workspace with this name (None if absent or ambiguous)"""
        cache = self.__dict__.setdefault("_uniq_ty", {})
        if last not in cache:
            cands = {it["path"] for it in self.items if it["k"] in ("struct", "enum") and last_seg(it["path"]) == last}
            cache[last] = next(iter(cands)) if len(cands) == 1 else None
        return cache[last]

    def flat(self, defp, max_depth=4, stop=None, key=None):
        """flat view of a function (workspace callees spliced in); cached per (defp, depth, key)"""
        ck = (defp, max_depth, key)
        cache = self.__dict__.setdefault("_flat_cache", {})
        if ck not in cache:
            cache[ck] = flatten(self, defp, max_depth=max_depth, stop=stop)
        return cache[ck]

    def flat_contexts(self, defp):
        """flat views of *other* production bodies into which `defp` was spliced: [(flat body, {orig block -> [flat blocks]})]"""
        idx = self.__dict__.get("_ctx_index")
        if idx is None:
            idx = defaultdict(list)
            for b in self.prod_bodies():
                fb = self.flat(b.defp)
                for o in set(fb.origin):
                    if o != b.defp:
                        idx[o].append(b.defp)
            self._ctx_index = idx
        out = []
        for r in idx.get(defp, []):
            fb = self.flat(r)
            m = defaultdict(list)
            for i in range(fb.n):
                if fb.origin[i] == defp:
                    m[fb.origin_blk[i]].append(i)
            out.append((fb, m))
        return out

    def callers_of(self, pred):
        """[(body, block, callee, term)] over all production bodies"""
        out = []
        for b in self.prod_bodies():
            for (blk, c, t) in b.calls():
                if pred(c):
                    out.append((b, blk, c, t))
        return out


# ---------------------------------------------------------------------------------------------------------------------------------
# Flat bodies: workspace callees spliced into their call sites (bounded), so that intra-procedural rules (dominance, derivation)
# give the same verdict whether a piece of code sits in a function of its own or inline. Async callees are spliced at the
# `Future::poll` that drives them (their own awaits fall through), which models `.await` as a call.

def _ren_place(p, lo):
    if p is None:
        return None
    proj = []
    for e in p[1]:
        if e[0] == "index":
            proj.append(["index", e[1] + lo])
        else:
            proj.append(e)
    return [p[0] + lo, proj]


def _ren_op(o, lo):
    if o is None:
        return None
    if "copy" in o:
        return {"copy": _ren_place(o["copy"], lo)}
    if "move" in o:
        return {"move": _ren_place(o["move"], lo)}
    return o


def _ren_rv(rv, lo):
    k = rv["k"]
    r = dict(rv)
    if k in ("use", "repeat", "cast"):
        r["op"] = _ren_op(rv["op"], lo)
    elif k in ("ref", "rawptr", "discr"):
        r["p"] = _ren_place(rv["p"], lo)
    elif k == "bin":
        r["a"] = _ren_op(rv["a"], lo)
        r["b"] = _ren_op(rv["b"], lo)
    elif k == "un":
        r["a"] = _ren_op(rv["a"], lo)
    elif k == "agg":
        r["ops"] = [_ren_op(o, lo) for o in rv["ops"]]
    return r


def _ren_stmt(s, lo):
    if s["k"] == "assign":
        r = dict(s)
        r["p"] = _ren_place(s["p"], lo)
        r["rv"] = _ren_rv(s["rv"], lo)
        return r
    if s["k"] == "dead":
        return {"k": "dead", "l": s["l"] + lo}
    return dict(s)


def _ren_term(t, lo, bo):
    if t is None:
        return None
    r = dict(t)
    k = t["k"]
    for key in ("t", "imaginary", "drop"):
        if key in r and isinstance(r[key], int):
            r[key] = r[key] + bo
    if k == "switch":
        r["d"] = _ren_op(t["d"], lo)
        r["arms"] = [[v, tg + bo] for (v, tg) in t["arms"]]
        r["otherwise"] = t["otherwise"] + bo if isinstance(t["otherwise"], int) else t["otherwise"]
    elif k == "call":
        r["args"] = [_ren_op(a, lo) for a in t["args"]]
        r["dest"] = _ren_place(t["dest"], lo)
        if "indirect" in t["f"]:
            f = dict(t["f"])
            f["indirect"] = _ren_op(t["f"]["indirect"], lo)
            r["f"] = f
    elif k == "assert":
        r["cond"] = _ren_op(t["cond"], lo)
    elif k == "drop":
        r["p"] = _ren_place(t["p"], lo)
    elif k == "yield":
        r["v"] = _ren_op(t["v"], lo)
        r["resume_arg"] = _ren_place(t["resume_arg"], lo)
    return r


def _is_coroutine_body(b):
    return b.kind == "Closure" and b.argc == 2 and len(b.locals) > 2 and "ResumeTy" in b.locals[2]["ty"].get("s", "")


def flatten(prog, root_defp, max_depth=4, max_blocks=6000, stop=None):
    """Return a Body for `root_defp` with resolved workspace callees spliced in (see module comment).
    stop(callee_body) -> True keeps a call as a call. Blocks carry their source function in body.origin[block]."""
    root = prog.bodies[root_defp]
    locals_ = [dict(l) for l in root.locals]
    blocks = [{"s": list(b["s"]), "t": b["t"], "cleanup": b.get("cleanup", False)} for b in root.blocks]
    origin = [root.defp] * len(blocks)
    origin_blk = list(range(len(blocks)))
    callsite = [None] * len(blocks)
    chain = {i: (root.defp,) for i in range(len(blocks))}
    i = 0
    inlined = []
    while i < len(blocks):
        t = blocks[i]["t"]
        i += 1
        if not t or t["k"] != "call" or len(blocks) > max_blocks:
            continue
        blk = i - 1
        c = Callee(t["f"])
        if c.indirect:
            continue
        cb = prog.bodies.get(c.target)
        if cb is None or cb.defp in chain[blk] or len(chain[blk]) > max_depth or prog.is_test_body(cb):
            continue
        poll = c.trait is not None and last_seg(c.trait) == "Future" and c.method == "poll" and _is_coroutine_body(cb)
        if not poll and cb.kind not in ("Fn", "AssocFn"):
            continue
        if stop is not None and stop(cb):
            continue
        lo, bo = len(locals_), len(blocks)
        locals_.extend(dict(l) for l in cb.locals)
        pre = []
        if poll:
            # bind the coroutine state `_1` to the aggregate(s) this poll drives
            for src in _coroutine_sources(blocks, t["args"][0], cb.defp):
                pre.append({"k": "assign", "p": [lo + 1, []], "rv": {"k": "use", "op": {"copy": [src, []]}}, "sp": t.get("sp")})
        else:
            for ai, a in enumerate(t["args"]):
                if ai + 1 <= cb.argc:
                    pre.append({"k": "assign", "p": [lo + 1 + ai, []], "rv": {"k": "use", "op": a}, "sp": t.get("sp")})
        cont = t["t"]
        dest = t["dest"]
        thread_to = None
        if poll and cont is not None:
            # the spliced coroutine always completes (its own awaits fall through): the caller's `match poll { Ready => .., Pending => yield }`
            # is threaded to the Ready arm, otherwise the Pending arm would loop back into the spliced body
            ct = blocks[cont]["t"]
            if ct and ct["k"] == "switch":
                dp = op_place(ct["d"])
                is_discr_of_dest = dp is not None and any(s_["k"] == "assign" and s_["p"][0] == dp[0] and s_["rv"]["k"] == "discr" and s_["rv"]["p"][0] == dest[0]
                                                         for s_ in blocks[cont]["s"])
                ready = [tg for (v, tg) in ct["arms"] if v == 0]
                if is_discr_of_dest and ready:
                    thread_to = ready[0]
        ncb = len(cb.blocks)
        for j, sb in enumerate(cb.blocks):
            st = [_ren_stmt(s, lo) for s in sb["s"]]
            tt = sb["t"]
            if tt and tt["k"] == "return":
                if poll:
                    st.append({"k": "assign", "p": dest, "rv": {"k": "agg", "ak": "adt", "def": "core::task::poll::Poll", "variant": "Ready", "vidx": 0,
                                                                 "ops": [{"move": [lo, []]}]}, "sp": tt.get("sp")})
                else:
                    st.append({"k": "assign", "p": dest, "rv": {"k": "use", "op": {"move": [lo, []]}}, "sp": tt.get("sp")})
                nt = {"k": "goto", "t": (bo + ncb if thread_to is not None else cont), "sp": tt.get("sp")} if cont is not None else {"k": "unreachable"}
            else:
                nt = _ren_term(tt, lo, bo)
            blocks.append({"s": st, "t": nt, "cleanup": sb.get("cleanup", False)})
            origin.append(cb.defp)
            origin_blk.append(j)
            callsite.append(blk)
            chain[bo + j] = chain[blk] + (cb.defp,)
        if thread_to is not None:
            blocks.append({"s": list(blocks[cont]["s"]), "t": {"k": "goto", "t": thread_to}, "cleanup": False})
            origin.append(origin[cont])
            origin_blk.append(origin_blk[cont])
            callsite.append(callsite[cont])
            chain[bo + ncb] = chain[cont] if cont in chain else chain[blk]
        blocks[blk] = {"s": blocks[blk]["s"] + pre, "t": {"k": "goto", "t": bo, "sp": t.get("sp"), "inlined_call": t}, "cleanup": blocks[blk].get("cleanup", False)}
        inlined.append((blk, cb.defp))
    j2 = dict(root.j)
    j2["blocks"] = blocks
    j2["locals"] = locals_
    fb = Body(j2, root.unit)
    fb.origin = origin
    fb.origin_blk = origin_blk
    fb.callsite = callsite
    fb.inlined = inlined
    fb.is_flat = True
    return fb


def _coroutine_sources(blocks, pin_arg, coroutine_def):
    """locals holding the coroutine aggregate(s) (of definition `coroutine_def`) that may flow into the pinned argument of a poll"""
    p = op_place(pin_arg)
    if p is None:
        return []
    defs = defaultdict(list)
    for b in blocks:
        for s in b["s"]:
            if s["k"] == "assign":
                defs[s["p"][0]].append(("assign", s))
        t = b["t"]
        if t and t["k"] == "call":
            defs[t["dest"][0]].append(("call", t))
    out, seen, work = [], set(), [p[0]]
    while work:
        l = work.pop()
        if l in seen:
            continue
        seen.add(l)
        for kind, d in defs.get(l, []):
            if kind == "assign":
                rv = d["rv"]
                if rv["k"] == "agg" and rv.get("ak") == "coroutine":
                    if rv.get("def") == coroutine_def and l not in out:
                        out.append(l)
                    continue
                ops = []
                if rv["k"] in ("use", "cast", "repeat"):
                    ops = [rv["op"]]
                elif rv["k"] in ("ref", "rawptr"):
                    ops = [{"copy": rv["p"]}]
                elif rv["k"] == "agg":
                    ops = rv["ops"]
                for o in ops:
                    pp = op_place(o)
                    if pp is not None:
                        work.append(pp[0])
            else:
                nm = Callee(d["f"]).name
                if nm in ("Pin::new_unchecked", "Pin::new", "IntoFuture::into_future", "Pin::as_mut", "DerefMut::deref_mut", "Box::pin", "Box::new"):
                    for a in d["args"]:
                        pp = op_place(a)
                        if pp is not None:
                            work.append(pp[0])
    return out
