use octo_squirrel::codec::aead::CipherKind;
use octo_squirrel::codec::shadowsocks::tcp::{AEADCipherCodec, Context, Identity, Session};
use octo_squirrel::protocol::shadowsocks::Mode;
use octo_squirrel::protocol::shadowsocks::aead::openssl_bytes_to_key;
use tokio_util::bytes::{BufMut, BytesMut};
use tokio_util::codec::{Decoder, Encoder};
use futures::{SinkExt, StreamExt};

#[test]
fn f03_legacy_salt_and_first_chunk_in_one_read() {
    let key: [u8; 16] = openssl_bytes_to_key(b"pw");
    let context = Context::new(key, vec![], CipherKind::Aes128Gcm, None);
    let s1 = Session::new(Mode::Server, Identity::<16>::default(), None);
    let mut enc = AEADCipherCodec::<16>::default();
    let mut wire = BytesMut::new();
    enc.encode(&context, &s1, BytesMut::from(&b"hello world"[..]), &mut wire).unwrap();
    let mut s2 = Session::new(Mode::Server, Identity::<16>::default(), None);
    let mut dec = AEADCipherCodec::<16>::default();
    // the whole stream is in the buffer: FramedRead calls decode once and, on None, waits for MORE socket bytes
    let first = dec.decode(&context, &mut s2, &mut wire).unwrap();
    assert!(first.is_some(), "complete first chunk is buffered but decode answered need-more ({} bytes left unread): stall", wire.len());
}

#[test]
fn f24_address_decode_rejects_invalid_utf8() {
    use octo_squirrel::protocol::socks5::address;
    let mut b = BytesMut::new();
    b.put_u8(3);
    b.put_u8(2);
    b.put_slice(&[0xff, 0xfe]);
    b.put_u16(80);
    match address::decode(&mut b) {
        Ok(octo_squirrel::protocol::address::Address::Domain(h, _)) => assert!(std::str::from_utf8(h.as_bytes()).is_ok(), "decoder produced a String that is not UTF-8"),
        _ => {}
    }
}

#[test]
fn f20_hex_decode_non_ascii_does_not_panic() {
    let r = std::panic::catch_unwind(|| octo_squirrel::util::hex::decode("aé1").is_err());
    assert!(matches!(r, Ok(true)), "hex::decode panicked / accepted non-hex input");
}

#[tokio::test]
async fn f19_socks5_handshake_early_close_is_an_error_not_a_panic() {
    use octo_squirrel::protocol::socks5::handshake::server;
    use octo_squirrel::protocol::socks5::message::Socks5CommandResponse;
    use octo_squirrel::protocol::socks5::Socks5CommandStatus;
    let l = tokio::net::TcpListener::bind("127.0.0.1:0").await.unwrap();
    let addr = l.local_addr().unwrap();
    let c = tokio::spawn(async move { let s = tokio::net::TcpStream::connect(addr).await.unwrap(); drop(s); });
    let (mut s, _) = l.accept().await.unwrap();
    c.await.unwrap();
    let h = tokio::spawn(async move {
        let resp = Socks5CommandResponse::new(Socks5CommandStatus::Success, addr.into());
        server::no_auth(&mut s, resp).await.map(|_| ())
    });
    let r = h.await;
    assert!(r.is_ok(), "handshake task panicked on an early close: {:?}", r.err().map(|e| e.to_string()));
}

// ---- WebSocketFramed -----------------------------------------------------------------------
struct Len1Codec; // frame = [len u8][len bytes]
impl Decoder for Len1Codec {
    type Item = BytesMut;
    type Error = anyhow::Error;
    fn decode(&mut self, src: &mut BytesMut) -> anyhow::Result<Option<BytesMut>> {
        if src.is_empty() { return Ok(None); }
        let n = src[0] as usize;
        if src.len() < 1 + n { return Ok(None); }
        let _ = src.split_to(1);
        Ok(Some(src.split_to(n)))
    }
}
impl Encoder<BytesMut> for Len1Codec {
    type Error = anyhow::Error;
    fn encode(&mut self, item: BytesMut, dst: &mut BytesMut) -> anyhow::Result<()> { dst.extend_from_slice(&item); Ok(()) }
}

async fn ws_pair() -> (octo_squirrel::codec::WebSocketFramed<tokio::io::DuplexStream, Len1Codec, BytesMut, BytesMut>, tokio_websockets::WebSocketStream<tokio::io::DuplexStream>) {
    let (a, b) = tokio::io::duplex(1 << 16);
    let srv = tokio::spawn(async move { tokio_websockets::ServerBuilder::new().accept(a).await.unwrap().1 });
    let uri: http::Uri = "ws://localhost/".parse().unwrap();
    let (cli, _) = tokio_websockets::ClientBuilder::from_uri(uri).connect_on(b).await.unwrap();
    (octo_squirrel::codec::WebSocketFramed::new(srv.await.unwrap(), Len1Codec), cli)
}

#[tokio::test]
async fn f17_two_frames_in_one_message_are_both_delivered() {
    let (mut framed, mut cli) = ws_pair().await;
    cli.send(tokio_websockets::Message::binary(vec![1u8, b'a', 1u8, b'b'])).await.unwrap();
    let t = std::time::Duration::from_secs(2);
    let f1 = tokio::time::timeout(t, framed.next()).await.expect("first frame").unwrap().unwrap();
    assert_eq!(&f1[..], b"a");
    let f2 = tokio::time::timeout(t, framed.next()).await;
    assert!(f2.is_ok(), "second frame of the same message was not delivered until another message arrives");
}

#[tokio::test]
async fn f16_frame_completed_by_a_second_message_is_delivered() {
    let (mut framed, mut cli) = ws_pair().await;
    let h = tokio::spawn(async move { framed.next().await.map(|r| r.map(|b| b.to_vec())) });
    cli.send(tokio_websockets::Message::binary(vec![3u8, b'x'])).await.unwrap();
    tokio::time::sleep(std::time::Duration::from_millis(300)).await;
    cli.send(tokio_websockets::Message::binary(vec![b'y', b'z'])).await.unwrap();
    let r = tokio::time::timeout(std::time::Duration::from_secs(2), h).await;
    assert!(r.is_ok(), "the frame is complete but the reader task was never woken again (Pending returned without a registered waker)");
}
