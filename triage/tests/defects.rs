// Throw-away triage harness (NOT part of any check): shows genuine defects against the real code.
use std::sync::Arc;
use octo_squirrel::codec::aead::CipherKind;
use octo_squirrel::codec::shadowsocks::tcp::{AEADCipherCodec, Context, Identity, Session};
use octo_squirrel::config::Mode as CfgMode;
use octo_squirrel::protocol::address::Address;
use octo_squirrel::protocol::shadowsocks::Mode;
use octo_squirrel::protocol::shadowsocks::aead_2022::password_to_keys;
use tokio_util::bytes::BytesMut;
use base64ct::{Base64, Encoding};

#[test]
fn f48_tcp_and_quic_enables_tcp() {
    assert!(CfgMode::TcpAndQuic.enable_tcp(), "README: tcp_and_quic opens TCP and QUIC");
}

#[test]
fn f51_short_key_is_rejected() {
    // 16 bytes of key material for a 32-byte cipher must be an error, not a zero-padded key
    let short = Base64::encode_string(&[7u8; 16]);
    assert!(password_to_keys::<32>(&short).is_err(), "a 16-byte key was accepted for a 32-byte cipher");
}

fn ctx16() -> Context<16> {
    let (key, ik) = password_to_keys::<16>(&Base64::encode_string(&[9u8; 16])).unwrap();
    Context::new(key, ik, CipherKind::Aead2022Blake3Aes128Gcm, None)
}

#[test]
fn f39_response_with_foreign_request_salt_is_rejected() {
    let context = ctx16();
    // a server answering SOME OTHER request (request_salt = 0xAA..)
    let mut id = Identity::<16>::default();
    id.request_salt = Some([0xAA; 16]);
    let server_session = Session::new(Mode::Server, id, None);
    let mut server = AEADCipherCodec::<16>::default();
    let mut wire = BytesMut::new();
    server.encode(&context, &server_session, BytesMut::from(&b"hello"[..]), &mut wire).unwrap();
    // our client sent a different salt (Identity::default draws a random one)
    let mut client_session = Session::new(Mode::Client, Identity::<16>::default(), Some(Address::Domain("x".into(), 1)));
    let mut client = AEADCipherCodec::<16>::default();
    let res = client.decode(&context, &mut client_session, &mut wire);
    assert!(res.is_err(), "client accepted a response bound to another request: {:?}", res.map(|o| o.map(|b| b.len())));
}

#[test]
fn f15_short_first_read_does_not_panic() {
    let context = ctx16();
    let mut session = Session::new(Mode::Server, Identity::<16>::default(), None);
    let mut codec = AEADCipherCodec::<16>::default();
    let mut src = BytesMut::from(&[0u8; 30][..]); // >= 27+tag? no: 11+16 = 27 <= 30 < 27 + 16
    let r = std::panic::catch_unwind(std::panic::AssertUnwindSafe(|| codec.decode(&context, &mut session, &mut src).map(|_| ())));
    assert!(r.is_ok(), "decoder panicked on a 30-byte first read");
}

#[test]
fn f36_lookup_is_not_skipped_under_contention() {
    let context = Arc::new(ctx16());
    let salt = [5u8; 16];
    context.set_nonce(salt);
    assert!(context.check_nonce(&salt));
    let stop = Arc::new(std::sync::atomic::AtomicBool::new(false));
    let mut hs = vec![];
    for t in 0..6u8 {
        let c = context.clone();
        let s = stop.clone();
        hs.push(std::thread::spawn(move || {
            let mut i = 0u64;
            while !s.load(std::sync::atomic::Ordering::Relaxed) {
                let mut other = [t; 16];
                other[..8].copy_from_slice(&i.to_be_bytes());
                c.set_nonce(other);
                c.check_nonce(&other);
                i += 1;
            }
        }));
    }
    let mut missed = 0;
    for _ in 0..200_000 {
        if !context.check_nonce(&salt) {
            missed += 1;
        }
    }
    stop.store(true, std::sync::atomic::Ordering::Relaxed);
    for h in hs { h.join().unwrap(); }
    assert_eq!(missed, 0, "replay lookup answered 'not seen' {missed} times for a recorded salt while other flows held the lock");
}

#[test]
fn f13_open_header_partial_payload_is_need_more() {
    use octo_squirrel::protocol::vmess::aead::{encrypt, kdf};
    let key = kdf::kdf16(b"k", vec![b"p"]);
    let sealed = encrypt::seal_header(&key, tokio_util::bytes::Bytes::from_static(b"0123456789abcdef0123456789abcdef")).unwrap();
    // everything but the last 8 bytes of the sealed header has arrived
    let mut part = BytesMut::from(&sealed[..sealed.len() - 8]);
    let r = std::panic::catch_unwind(std::panic::AssertUnwindSafe(|| encrypt::open_header(&key, &mut part).map(|o| o.is_none())));
    assert!(matches!(r, Ok(Ok(true))), "partial sealed header must be need-more, got {:?}", r.map(|x| x.map_err(|e| e.to_string())));
}

#[test]
fn f42_packet_id_does_not_wrap() {
    use octo_squirrel::codec::shadowsocks::udp::Session as USession;
    let mut s = USession::<16>::new(1, 0, u64::MAX, None);
    let r = std::panic::catch_unwind(std::panic::AssertUnwindSafe(|| { let _ = s.increase_packet_id(); s.packet_id }));
    assert!(!matches!(r, Ok(0)), "packet id wrapped to 0: ids are reused instead of the session ending");
}

#[test]
fn f02_legacy_chunks_respect_0x3fff() {
    // legacy AEAD: a 40000-byte write must be cut into chunks of at most 0x3FFF payload bytes
    use octo_squirrel::protocol::shadowsocks::aead::openssl_bytes_to_key;
    let key: [u8; 16] = openssl_bytes_to_key(b"pw");
    let context = Context::new(key, vec![], CipherKind::Aes128Gcm, None);
    let session = Session::new(Mode::Server, Identity::<16>::default(), None);
    let mut enc = AEADCipherCodec::<16>::default();
    let mut wire = BytesMut::new();
    enc.encode(&context, &session, BytesMut::from(&vec![1u8; 40000][..]), &mut wire).unwrap();
    // wire = salt(16) + [len(2)+tag(16)] + [payload+tag(16)] ... ; total overhead per chunk = 34
    let chunks = (wire.len() - 16 - 40000) / 34;
    assert!(chunks >= 3, "40000 bytes were sent in {chunks} chunk(s): a chunk exceeds 0x3FFF");
}
