// Triage harness for C04 R4k (appended to octo-squirrel-server/src/server/vmess.rs in a scratch worktree; never part of a check).
// A VMess request is cut between the sealed request header and the first body chunk - a cut TCP is free to make.
#[cfg(test)]
mod c04_request_alone {
    use octo_squirrel::protocol::address::Address;
    use octo_squirrel::protocol::vmess::session::ClientSession;
    use tokio_util::bytes::BufMut;

    use super::*;

    const UUID: &str = "b831381d-6324-4d53-ad4f-8cda48b30811";

    /// what the bundled client writes: sealed request header, then the first body chunk
    fn request(payload: &[u8]) -> (BytesMut, BytesMut) {
        let addr = Address::Domain("example.com".to_owned(), 80);
        let rh = RequestHeader::default(RequestCommand::TCP, SecurityType::Aes128Gcm, addr, UUID).unwrap();
        let mut session = ClientSession::new();
        let mut header = BytesMut::new();
        header.put_u8(1);
        header.extend_from_slice(&session.request_body_iv);
        header.extend_from_slice(&session.request_body_key);
        header.put_u8(session.response_header);
        header.put_u8(RequestOption::get_mask(&rh.option));
        header.put_u8(rh.security as u8); // no padding
        header.put_u8(0);
        header.put_u8(rh.command as u8);
        address::write_address_port(&rh.address, &mut header).unwrap();
        header.put_u32(fnv::fnv1a32(&header));
        let mut head = BytesMut::new();
        head.extend_from_slice(&encrypt::seal_header(&rh.id, header.freeze()).unwrap());
        let mut enc = AEADBodyCodec::new_encoder(&rh, &mut session).unwrap();
        let mut body = BytesMut::new();
        enc.encode_payload(BytesMut::from(payload), &mut body, &mut session).unwrap();
        (head, body)
    }

    fn codec() -> ServerAeadCodec {
        ServerAeadCodec { keys: id::from_passwords(vec![&UUID.to_owned()]).unwrap(), decode_state: DecodeState::Init, encode_state: EncodeState::Init }
    }

    fn describe(item: &Option<InboundIn>) -> String {
        match item {
            Some(InboundIn::ConnectTcp(p, a)) => format!("ConnectTcp({} bytes, {})", p.len(), a),
            Some(InboundIn::RelayTcp(p)) => format!("RelayTcp({} bytes)", p.len()),
            Some(InboundIn::RelayUdp(p, a)) => format!("RelayUdp({} bytes, {})", p.len(), a),
            None => "None".to_owned(),
        }
    }

    #[test]
    fn control_request_and_first_chunk_in_one_read() {
        let (head, body) = request(b"GET / HTTP/1.1\r\n\r\n");
        let mut c = codec();
        let mut src = BytesMut::new();
        src.extend_from_slice(&head);
        src.extend_from_slice(&body);
        let first = c.decode(&mut src).unwrap();
        assert!(matches!(first, Some(InboundIn::ConnectTcp(_, _))), "first item: {}", describe(&first));
    }

    #[test]
    fn request_header_in_one_read_first_chunk_in_the_next() {
        let (head, body) = request(b"GET / HTTP/1.1\r\n\r\n");
        let mut c = codec();
        let mut src = BytesMut::new();
        src.extend_from_slice(&head);
        let mut items = vec![];
        if let Some(i) = c.decode(&mut src).unwrap() {
            items.push(Some(i));
        }
        src.extend_from_slice(&body);
        while let Some(i) = c.decode(&mut src).unwrap() {
            items.push(Some(i));
        }
        let shown: Vec<String> = items.iter().map(describe).collect();
        assert!(matches!(items.first(), Some(Some(InboundIn::ConnectTcp(_, _)))), "the first item of the flow must be the connect item, got {:?}", shown);
    }
}
