// Triage only (NOT part of any check). Append to octo-squirrel-client/src/client/handshake.rs in a scratch worktree and run
//   cargo test --offline -p octo-squirrel-client --lib c13_triage
// On the tree before the C13 repairs all five tests fail (each shows one genuine defect against the real code).
#[cfg(test)]
mod c13_triage {
    use tokio::io::AsyncReadExt;
    use tokio::io::AsyncWriteExt;
    use tokio::net::TcpListener;
    use tokio::net::TcpStream;
    use std::time::Duration;

    async fn pair() -> (TcpStream, TcpStream) {
        let l = TcpListener::bind("127.0.0.1:0").await.unwrap();
        let a = l.local_addr().unwrap();
        let c = TcpStream::connect(a).await.unwrap();
        let (s, _) = l.accept().await.unwrap();
        c.set_nodelay(true).unwrap();
        (c, s)
    }

    // H3a: CONNECT request longer than 1024 bytes: the tail of the request is relayed as tunnel payload
    #[tokio::test]
    async fn h3a_long_connect_request_leaks_into_tunnel() {
        let (mut app, mut inbound) = pair().await;
        let mut req = b"CONNECT example.com:443 HTTP/1.1\r\nHost: example.com:443\r\n".to_vec();
        req.extend_from_slice(b"X-Pad: ");
        req.extend(std::iter::repeat(b'a').take(1500));
        req.extend_from_slice(b"\r\n\r\n");
        app.write_all(&req).await.unwrap();
        tokio::time::sleep(Duration::from_millis(100)).await;
        let addr = super::get_request_addr(&mut inbound).await.unwrap();
        assert_eq!(addr.to_string(), "example.com:443");
        // whatever is still unread on `inbound` is what the relay would forward to the target
        let mut rest = vec![0u8; 4096];
        let n = tokio::time::timeout(Duration::from_millis(200), inbound.read(&mut rest)).await.map(|r| r.unwrap()).unwrap_or(0);
        assert_eq!(n, 0, "{} bytes of the CONNECT request itself would be tunnelled to the target", n);
    }

    // H3a': early tunnel bytes right behind a short CONNECT request are swallowed
    #[tokio::test]
    async fn h3a_early_data_is_swallowed() {
        let (mut app, mut inbound) = pair().await;
        app.write_all(b"CONNECT example.com:443 HTTP/1.1\r\n\r\nEARLY").await.unwrap();
        tokio::time::sleep(Duration::from_millis(100)).await;
        super::get_request_addr(&mut inbound).await.unwrap();
        let mut rest = vec![0u8; 64];
        let n = tokio::time::timeout(Duration::from_millis(200), inbound.read(&mut rest)).await.map(|r| r.unwrap()).unwrap_or(0);
        assert_eq!(&rest[..n], b"EARLY", "bytes sent behind the CONNECT request were consumed by the handshake");
    }

    // H3b: greeting and request in one segment: the request is discarded with the first reader's buffer
    #[tokio::test]
    async fn h3b_pipelined_socks5_request_is_lost() {
        let (mut app, mut inbound) = pair().await;
        app.write_all(&[5, 1, 0, 5, 1, 0, 1, 1, 2, 3, 4, 0, 80]).await.unwrap();
        tokio::time::sleep(Duration::from_millis(100)).await;
        let r = tokio::time::timeout(Duration::from_secs(2), super::get_request_addr(&mut inbound)).await;
        assert!(r.is_ok(), "handshake hangs: the pipelined command request was dropped with the reader's buffer");
        assert_eq!(r.unwrap().unwrap().to_string(), "1.2.3.4:80");
    }

    // H4c: BIND is not supported and must be refused
    #[tokio::test]
    async fn h4c_bind_is_tunnelled() {
        let (mut app, mut inbound) = pair().await;
        tokio::spawn(async move {
            app.write_all(&[5, 1, 0]).await.unwrap();
            let mut b = [0u8; 2];
            app.read_exact(&mut b).await.unwrap();
            app.write_all(&[5, 2, 0, 1, 1, 2, 3, 4, 0, 80]).await.unwrap();
            let mut r = [0u8; 10];
            let _ = app.read_exact(&mut r).await;
            tokio::time::sleep(Duration::from_millis(300)).await;
        });
        let r = super::get_request_addr(&mut inbound).await;
        assert!(r.is_err(), "a BIND request was accepted and would be tunnelled to {}", r.unwrap());
    }

    // H5: request line split inside the target
    #[tokio::test]
    async fn h5_split_request_line() {
        let (mut app, mut inbound) = pair().await;
        tokio::spawn(async move {
            app.write_all(b"GET http://exam").await.unwrap();
            tokio::time::sleep(Duration::from_millis(300)).await;
            app.write_all(b"ple.com/ HTTP/1.1\r\nHost: example.com\r\n\r\n").await.unwrap();
            tokio::time::sleep(Duration::from_millis(300)).await;
        });
        tokio::time::sleep(Duration::from_millis(100)).await;
        let r = super::get_request_addr(&mut inbound).await;
        assert_eq!(r.map(|a| a.to_string()).map_err(|e| e.to_string()), Ok("example.com:80".to_string()));
    }
}
