// Triage test for C15/C01 (rule D6): append to octo-squirrel-client/src/client/template.rs in a scratch worktree and run
//   cargo test -p octo-squirrel-client --offline c15_triage
// It drives the real `relay_tcp` with the real `Framed<_, BytesCodec>` on both sides. The link to the server is modelled by an AsyncRead
// that behaves like a Linux TCP socket whose peer sent data and then a reset: the queued data is returned first, the next read fails
// with ECONNRESET. Everything received before the failure must reach the local application before it sees end-of-stream.
#[cfg(test)]
mod c15_triage {
    use std::io;
    use std::pin::Pin;
    use std::task::Context;
    use std::task::Poll;

    use octo_squirrel::codec::BytesCodec;
    use tokio::io::AsyncRead;
    use tokio::io::AsyncReadExt;
    use tokio::io::AsyncWrite;
    use tokio::io::ReadBuf;
    use tokio_util::codec::Framed;

    struct DataThenReset {
        data: Option<Vec<u8>>,
    }

    impl AsyncRead for DataThenReset {
        fn poll_read(mut self: Pin<&mut Self>, _cx: &mut Context<'_>, buf: &mut ReadBuf<'_>) -> Poll<io::Result<()>> {
            match self.data.take() {
                Some(d) => {
                    buf.put_slice(&d);
                    Poll::Ready(Ok(()))
                }
                None => Poll::Ready(Err(io::Error::from(io::ErrorKind::ConnectionReset))),
            }
        }
    }

    impl AsyncWrite for DataThenReset {
        fn poll_write(self: Pin<&mut Self>, _cx: &mut Context<'_>, buf: &[u8]) -> Poll<io::Result<usize>> {
            Poll::Ready(Ok(buf.len()))
        }

        fn poll_flush(self: Pin<&mut Self>, _cx: &mut Context<'_>) -> Poll<io::Result<()>> {
            Poll::Ready(Ok(()))
        }

        fn poll_shutdown(self: Pin<&mut Self>, _cx: &mut Context<'_>) -> Poll<io::Result<()>> {
            Poll::Ready(Ok(()))
        }
    }

    #[tokio::test]
    async fn c15_triage_data_received_before_a_link_reset_reaches_the_application() {
        let answer = b"the complete answer".to_vec();
        let (app, client_side) = tokio::io::duplex(1 << 16);
        let local_client = Framed::new(client_side, BytesCodec);
        let client_server = Framed::new(DataThenReset { data: Some(answer.clone()) }, BytesCodec);
        let relay = tokio::spawn(super::relay_tcp(local_client, client_server));
        let mut app = app;
        let mut got = Vec::new();
        tokio::time::timeout(std::time::Duration::from_secs(5), app.read_to_end(&mut got)).await.expect("application never saw end-of-stream").unwrap();
        let res = relay.await.unwrap();
        println!("relay result: {:?}; application received {} of {} bytes", res, got.len(), answer.len());
        assert_eq!(got, answer, "bytes received from the server before the link failed were not delivered to the application");
    }
}
