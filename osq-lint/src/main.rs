// osq-lint: a rustc driver that dumps a fact base (HIR items + pre-borrowck MIR) of the
// crate being compiled as JSON. Rules are evaluated by /verif/osq (python) over the facts.
//
// Used as RUSTC_WORKSPACE_WRAPPER: argv = [osq-lint, <rustc>, <rustc args...>].
#![feature(rustc_private)]
#![allow(clippy::all)]

extern crate rustc_abi;
extern crate rustc_ast;
extern crate rustc_ast_pretty;
extern crate rustc_data_structures;
extern crate rustc_driver;
extern crate rustc_hir;
extern crate rustc_interface;
extern crate rustc_middle;
extern crate rustc_session;
extern crate rustc_span;

mod json;
mod mirdump;
mod hirdump;

use std::cell::RefCell;
use std::collections::HashMap;

use rustc_driver::Compilation;
use rustc_hir::def_id::LocalDefId;
use rustc_interface::interface;
use rustc_middle::mir::Body;
use rustc_middle::ty::TyCtxt;

thread_local! {
    pub static BODIES: RefCell<HashMap<LocalDefId, Body<'static>>> = RefCell::new(HashMap::new());
}

type MirBuiltFn = for<'tcx> fn(TyCtxt<'tcx>, LocalDefId) -> &'tcx rustc_data_structures::steal::Steal<Body<'tcx>>;
static ORIG_MIR_BUILT: std::sync::OnceLock<MirBuiltFn> = std::sync::OnceLock::new();

fn my_mir_built<'tcx>(tcx: TyCtxt<'tcx>, def: LocalDefId) -> &'tcx rustc_data_structures::steal::Steal<Body<'tcx>> {
    let res = (ORIG_MIR_BUILT.get().unwrap())(tcx, def);
    let body: Body<'tcx> = res.borrow().clone();
    // SAFETY: the clone is only read in after_analysis of the same compilation session, while 'tcx is alive.
    let body: Body<'static> = unsafe { std::mem::transmute(body) };
    BODIES.with(|b| b.borrow_mut().insert(def, body));
    res
}

struct Cb;

impl rustc_driver::Callbacks for Cb {
    fn config(&mut self, config: &mut interface::Config) {
        config.override_queries = Some(|_sess, providers| {
            let _ = ORIG_MIR_BUILT.set(providers.queries.mir_built);
            providers.queries.mir_built = my_mir_built;
        });
    }

    fn after_analysis<'tcx>(&mut self, _compiler: &interface::Compiler, tcx: TyCtxt<'tcx>) -> Compilation {
        analyse(tcx);
        Compilation::Continue
    }
}

fn analyse<'tcx>(tcx: TyCtxt<'tcx>) {
    let out_dir = match std::env::var("OSQ_OUT") {
        Ok(d) => d,
        Err(_) => return,
    };
    let krate = tcx.crate_name(rustc_hir::def_id::LOCAL_CRATE).to_string();
    if !krate.starts_with("octo_squirrel") && std::env::var("OSQ_ALL").is_err() {
        return;
    }
    let ctype = tcx.crate_types().iter().map(|c| format!("{:?}", c).to_lowercase()).collect::<Vec<_>>().join("-");
    let is_test = tcx.sess.opts.test;
    let nbodies = BODIES.with(|b| b.borrow().len());
    let features: Vec<json::J> = tcx
        .sess
        .config
        .iter()
        .map(|(k, v)| json::J::s(&format!("{}={}", k, v.map(|s| s.to_string()).unwrap_or_default())))
        .collect();
    let doc = json::J::obj(vec![
        ("crate", json::J::s(&krate)),
        ("crate_type", json::J::s(&ctype)),
        ("test", json::J::b(is_test)),
        ("cfg", json::J::arr(features)),
        ("n_bodies", json::J::u(nbodies as u128)),
        ("items", hirdump::dump(tcx)),
        ("bodies", mirdump::dump(tcx)),
    ]);
    let name = format!("{}.{}{}.json", krate, ctype, if is_test { ".test" } else { "" });
    let tmp = format!("{}/.{}.{}.tmp", out_dir, name, std::process::id());
    let fin = format!("{}/{}", out_dir, name);
    std::fs::write(&tmp, doc.0.as_bytes()).expect("write facts");
    std::fs::rename(&tmp, &fin).expect("rename facts");
}

fn main() {
    let mut args: Vec<String> = std::env::args().collect();
    // wrapper mode: drop our own argv[0]; argv[1] (the real rustc) becomes argv[0]
    if args.len() > 1 && (args[1].ends_with("rustc") || args[1].contains("rustc")) {
        args.remove(0);
    }
    rustc_driver::run_compiler(&args, &mut Cb);
}
