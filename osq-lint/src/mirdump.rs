// Dump of the captured (pre-borrowck) MIR bodies.
use rustc_hir::def::DefKind;
use rustc_hir::def_id::DefId;
use rustc_middle::mir::*;
use rustc_middle::ty::{self, GenericArgsRef, Instance, Ty, TyCtxt, TypeVisitableExt, TypingEnv};
use rustc_span::Span;

use crate::json::J;

pub fn canon_path<'tcx>(tcx: TyCtxt<'tcx>, def_id: DefId) -> String {
    let krate = tcx.crate_name(def_id.krate);
    format!("{}{}", krate, tcx.def_path(def_id).to_string_no_crate_verbose())
}

pub fn ty_str<'tcx>(ty: Ty<'tcx>) -> String {
    ty::print::with_no_trimmed_paths!(ty.to_string())
}

pub fn span_json<'tcx>(tcx: TyCtxt<'tcx>, span: Span) -> J {
    let exp = span.from_expansion();
    let sp = if exp { span.source_callsite() } else { span };
    let sm = tcx.sess.source_map();
    let lo = sm.lookup_char_pos(sp.lo());
    let hi = sm.lookup_char_pos(sp.hi());
    let file = match &lo.file.name {
        rustc_span::FileName::Real(r) => match r.local_path() {
            Some(p) => p.to_string_lossy().to_string(),
            None => format!("{:?}", lo.file.name),
        },
        other => format!("{:?}", other),
    };
    J::arr(vec![J::s(&file), J::u(lo.line as u128), J::u(hi.line as u128), J::b(exp), J::u(lo.col.0 as u128)])
}

/// The def path of the outermost nominal type after peeling references / raw pointers.
fn ty_def<'tcx>(tcx: TyCtxt<'tcx>, ty: Ty<'tcx>) -> Option<String> {
    let mut t = ty;
    loop {
        match t.kind() {
            ty::Ref(_, inner, _) => t = *inner,
            ty::RawPtr(inner, _) => t = *inner,
            ty::Adt(def, _) => return Some(canon_path(tcx, def.did())),
            ty::Closure(d, _) | ty::Coroutine(d, _) | ty::CoroutineClosure(d, _) | ty::FnDef(d, _) => return Some(canon_path(tcx, *d)),
            ty::Foreign(d) => return Some(canon_path(tcx, *d)),
            _ => return None,
        }
    }
}

fn ty_json<'tcx>(tcx: TyCtxt<'tcx>, ty: Ty<'tcx>) -> J {
    let mut v = vec![("s", J::s(&ty_str(ty)))];
    if let Some(d) = ty_def(tcx, ty) {
        v.push(("d", J::s(&d)));
    }
    // first-level generic args of ADTs (defs only), useful for role detection
    let mut t = ty;
    while let ty::Ref(_, inner, _) = t.kind() {
        t = *inner;
    }
    if let ty::Adt(_, args) = t.kind() {
        let mut a = vec![];
        for ga in args.iter() {
            if let Some(t) = ga.as_type() {
                a.push(match ty_def(tcx, t) {
                    Some(d) => J::s(&d),
                    None => J::s(&ty_str(t)),
                });
            } else if let Some(c) = ga.as_const() {
                a.push(J::s(&format!("{}", c)));
            }
        }
        v.push(("a", J::arr(a)));
    }
    J::obj(v)
}

fn generic_args_json<'tcx>(tcx: TyCtxt<'tcx>, args: GenericArgsRef<'tcx>) -> J {
    let mut out = vec![];
    for ga in args.iter() {
        if let Some(t) = ga.as_type() {
            out.push(ty_json(tcx, t));
        } else if let Some(c) = ga.as_const() {
            out.push(J::obj(vec![("c", J::s(&format!("{}", c)))]));
        }
    }
    J::arr(out)
}

fn place_json<'tcx>(tcx: TyCtxt<'tcx>, body: &Body<'tcx>, p: &Place<'tcx>) -> J {
    let mut proj = vec![];
    let mut cur_ty = PlaceTy::from_ty(body.local_decls[p.local].ty);
    for elem in p.projection.iter() {
        let j = match elem {
            ProjectionElem::Deref => J::arr(vec![J::s("deref")]),
            ProjectionElem::Field(f, _) => {
                // field name when the base is an ADT
                let name = match cur_ty.ty.kind() {
                    ty::Adt(def, _) => {
                        let vidx = cur_ty.variant_index.unwrap_or(rustc_abi::FIRST_VARIANT);
                        def.variants().get(vidx).and_then(|v| v.fields.get(f)).map(|fd| fd.name.to_string())
                    }
                    _ => None,
                };
                J::arr(vec![J::s("field"), J::u(f.as_u32() as u128), J::opt_s(name)])
            }
            ProjectionElem::Index(l) => J::arr(vec![J::s("index"), J::u(l.as_u32() as u128)]),
            ProjectionElem::ConstantIndex { offset, min_length, from_end } => {
                J::arr(vec![J::s("cidx"), J::u(offset as u128), J::u(min_length as u128), J::b(from_end)])
            }
            ProjectionElem::Subslice { from, to, from_end } => J::arr(vec![J::s("subslice"), J::u(from as u128), J::u(to as u128), J::b(from_end)]),
            ProjectionElem::Downcast(name, idx) => {
                J::arr(vec![J::s("downcast"), J::opt_s(name.map(|n| n.to_string())), J::u(idx.as_u32() as u128)])
            }
            ProjectionElem::OpaqueCast(_) => J::arr(vec![J::s("opaque")]),
            ProjectionElem::UnwrapUnsafeBinder(_) => J::arr(vec![J::s("unbind")]),
        };
        proj.push(j);
        cur_ty = cur_ty.projection_ty(tcx, elem);
    }
    J::arr(vec![J::u(p.local.as_u32() as u128), J::arr(proj)])
}

fn const_json<'tcx>(tcx: TyCtxt<'tcx>, typing_env: TypingEnv<'tcx>, c: &ConstOperand<'tcx>) -> J {
    let ty = c.const_.ty();
    let mut v = vec![("ty", J::s(&ty_str(ty)))];
    match ty.kind() {
        ty::FnDef(def_id, args) => {
            v.push(("fn", callee_json(tcx, typing_env, *def_id, args)));
        }
        _ => {
            // integers / bools / chars
            if ty.is_integral() || ty.is_bool() || ty.is_char() {
                if let Some(si) = c.const_.try_eval_scalar_int(tcx, typing_env) {
                    let size = si.size();
                    let bits = si.to_bits(size);
                    if ty.is_signed() {
                        let sh = 128 - size.bits();
                        let sv = ((bits as i128) << sh) >> sh;
                        v.push(("int", J::i(sv)));
                    } else {
                        v.push(("int", J::u(bits)));
                    }
                }
            } else if let Some(bytes) = const_bytes(tcx, typing_env, c) {
                match std::str::from_utf8(&bytes) {
                    Ok(s) => v.push(("str", J::s(s))),
                    Err(_) => v.push(("bytes", J::arr(bytes.iter().map(|b| J::u(*b as u128)).collect()))),
                }
            } else if let ty::Adt(def, _) = ty.kind() {
                v.push(("adt", J::s(&canon_path(tcx, def.did()))));
            }
            // references to statics
            if matches!(ty.kind(), ty::Ref(..) | ty::RawPtr(..)) {
                if let Ok(val) = c.const_.eval(tcx, typing_env, c.span) {
                    if let rustc_middle::mir::ConstValue::Scalar(rustc_middle::mir::interpret::Scalar::Ptr(ptr, _)) = val {
                        let (prov, _off) = ptr.prov_and_relative_offset();
                        if let Some(rustc_middle::mir::interpret::GlobalAlloc::Static(did)) = tcx.try_get_global_alloc(prov.alloc_id()) {
                            v.push(("static", J::s(&canon_path(tcx, did))));
                        }
                    }
                }
            }
            if let Const::Ty(_, ct) = c.const_ {
                if let ty::ConstKind::Param(pc) = ct.kind() {
                    v.push(("param", J::s(&pc.name.to_string())));
                }
            }
            // constants that name an item (e.g. `trojan::CR_LF`, `kdf::SALT_LENGTH_KEY`)
            if let Const::Unevaluated(uv, _) = c.const_ {
                v.push(("item", J::s(&canon_path(tcx, uv.def))));
            }
        }
    }
    J::obj(vec![("const", J::obj(v))])
}

/// Bytes of a `&str` / `&[u8]` / `&[u8; N]` constant, when it evaluates to a slice or an allocation.
fn const_bytes<'tcx>(tcx: TyCtxt<'tcx>, typing_env: TypingEnv<'tcx>, c: &ConstOperand<'tcx>) -> Option<Vec<u8>> {
    let ty = c.const_.ty();
    let inner = match ty.kind() {
        ty::Ref(_, inner, _) => *inner,
        _ => return None,
    };
    let is_bytes = match inner.kind() {
        ty::Str => true,
        ty::Slice(t) => *t == tcx.types.u8,
        ty::Array(t, _) => *t == tcx.types.u8,
        _ => false,
    };
    if !is_bytes {
        return None;
    }
    let val = c.const_.eval(tcx, typing_env, c.span).ok()?;
    match inner.kind() {
        ty::Str | ty::Slice(_) => val.try_get_slice_bytes_for_diagnostics(tcx).map(|b| b.to_vec()),
        ty::Array(_, len) => {
            let n = len.try_to_target_usize(tcx)? as usize;
            // &[u8; N]: a scalar pointer into an allocation
            if let rustc_middle::mir::ConstValue::Scalar(rustc_middle::mir::interpret::Scalar::Ptr(ptr, _)) = val {
                let (prov, offset) = ptr.prov_and_relative_offset();
                let alloc = tcx.global_alloc(prov.alloc_id());
                if let rustc_middle::mir::interpret::GlobalAlloc::Memory(mem) = alloc {
                    let a = mem.inner();
                    let off = offset.bytes() as usize;
                    let bytes = a.inspect_with_uninit_and_ptr_outside_interpreter(off..off + n);
                    return Some(bytes.to_vec());
                }
            }
            None
        }
        _ => None,
    }
}

pub fn callee_json<'tcx>(tcx: TyCtxt<'tcx>, typing_env: TypingEnv<'tcx>, def_id: DefId, args: GenericArgsRef<'tcx>) -> J {
    let mut v = vec![("path", J::s(&canon_path(tcx, def_id))), ("args", generic_args_json(tcx, args))];
    // trait method?
    if matches!(tcx.def_kind(def_id), DefKind::AssocFn | DefKind::AssocConst { .. } | DefKind::AssocTy) {
        if let Some(tr) = tcx.trait_of_assoc(def_id) {
            v.push(("trait", J::s(&canon_path(tcx, tr))));
            v.push(("method", J::s(&tcx.item_name(def_id).to_string())));
        } else {
            // inherent method: record the impl's self type
            let imp = tcx.parent(def_id);
            if matches!(tcx.def_kind(imp), DefKind::Impl { .. }) {
                let self_ty = tcx.type_of(imp).instantiate_identity().skip_norm_wip();
                v.push(("impl_self", ty_json(tcx, self_ty)));
                v.push(("method", J::s(&tcx.item_name(def_id).to_string())));
            }
        }
    }
    // resolution to a concrete instance, when possible
    if !args.iter().any(|a| a.as_type().map_or(false, |t| t.has_escaping_bound_vars())) {
        if let Ok(Some(inst)) = Instance::try_resolve(tcx, typing_env, def_id, args) {
            let rid = inst.def_id();
            if rid != def_id {
                v.push(("resolved", J::s(&canon_path(tcx, rid))));
                if rid.is_local() {
                    v.push(("resolved_local", J::b(true)));
                }
            }
        }
    }
    J::obj(v)
}

fn operand_json<'tcx>(tcx: TyCtxt<'tcx>, typing_env: TypingEnv<'tcx>, body: &Body<'tcx>, op: &Operand<'tcx>) -> J {
    match op {
        Operand::Copy(p) => J::obj(vec![("copy", place_json(tcx, body, p))]),
        Operand::Move(p) => J::obj(vec![("move", place_json(tcx, body, p))]),
        Operand::Constant(c) => const_json(tcx, typing_env, c),
        #[allow(unreachable_patterns)]
        _ => J::obj(vec![("other", J::s(&format!("{:?}", op)))]),
    }
}

fn rvalue_json<'tcx>(tcx: TyCtxt<'tcx>, typing_env: TypingEnv<'tcx>, body: &Body<'tcx>, rv: &Rvalue<'tcx>) -> J {
    let op = |o: &Operand<'tcx>| operand_json(tcx, typing_env, body, o);
    let pl = |p: &Place<'tcx>| place_json(tcx, body, p);
    match rv {
        Rvalue::Use(o, _) => J::obj(vec![("k", J::s("use")), ("op", op(o))]),
        Rvalue::Repeat(o, n) => J::obj(vec![("k", J::s("repeat")), ("op", op(o)), ("n", J::s(&format!("{}", n)))]),
        Rvalue::Ref(_, bk, p) => {
            let m = matches!(bk, BorrowKind::Mut { .. });
            J::obj(vec![("k", J::s("ref")), ("mut", J::b(m)), ("p", pl(p))])
        }
        Rvalue::RawPtr(kind, p) => J::obj(vec![("k", J::s("rawptr")), ("mut", J::b(format!("{:?}", kind).contains("Mut"))), ("p", pl(p))]),
        Rvalue::ThreadLocalRef(d) => J::obj(vec![("k", J::s("tlref")), ("def", J::s(&canon_path(tcx, *d)))]),
        Rvalue::Cast(kind, o, ty) => {
            let from = o.ty(&body.local_decls, tcx);
            J::obj(vec![
                ("k", J::s("cast")),
                ("ck", J::s(&format!("{:?}", kind))),
                ("op", op(o)),
                ("from", J::s(&ty_str(from))),
                ("to", J::s(&ty_str(*ty))),
            ])
        }
        Rvalue::BinaryOp(bop, ab) => J::obj(vec![("k", J::s("bin")), ("op", J::s(&format!("{:?}", bop))), ("a", op(&ab.0)), ("b", op(&ab.1))]),
        Rvalue::UnaryOp(uop, o) => J::obj(vec![("k", J::s("un")), ("op", J::s(&format!("{:?}", uop))), ("a", op(o))]),
        Rvalue::Discriminant(p) => J::obj(vec![("k", J::s("discr")), ("p", pl(p))]),
        Rvalue::Aggregate(kind, ops) => {
            let (ak, extra): (&str, Vec<(&str, J)>) = match &**kind {
                AggregateKind::Array(_) => ("array", vec![]),
                AggregateKind::Tuple => ("tuple", vec![]),
                AggregateKind::Adt(did, vidx, _args, _, _) => {
                    let adt = tcx.adt_def(*did);
                    let vname = adt.variants().get(*vidx).map(|v| v.name.to_string()).unwrap_or_default();
                    ("adt", vec![("def", J::s(&canon_path(tcx, *did))), ("variant", J::s(&vname)), ("vidx", J::u(vidx.as_u32() as u128))])
                }
                AggregateKind::Closure(did, _) => ("closure", vec![("def", J::s(&canon_path(tcx, *did)))]),
                AggregateKind::Coroutine(did, _) => ("coroutine", vec![("def", J::s(&canon_path(tcx, *did)))]),
                AggregateKind::CoroutineClosure(did, _) => ("coroutine_closure", vec![("def", J::s(&canon_path(tcx, *did)))]),
                AggregateKind::RawPtr(_, _) => ("rawptr", vec![]),
            };
            let mut v = vec![("k", J::s("agg")), ("ak", J::s(ak))];
            v.extend(extra);
            v.push(("ops", J::arr(ops.iter().map(|o| op(o)).collect())));
            J::obj(v)
        }
        Rvalue::CopyForDeref(p) => J::obj(vec![("k", J::s("use")), ("op", J::obj(vec![("copy", pl(p))]))]),
        other => J::obj(vec![("k", J::s("other")), ("dbg", J::s(&format!("{:?}", other)))]),
    }
}

fn assert_kind<'tcx>(msg: &AssertMessage<'tcx>) -> String {
    match msg {
        AssertKind::BoundsCheck { .. } => "BoundsCheck".into(),
        AssertKind::Overflow(op, _, _) => format!("Overflow({:?})", op),
        AssertKind::OverflowNeg(_) => "OverflowNeg".into(),
        AssertKind::DivisionByZero(_) => "DivisionByZero".into(),
        AssertKind::RemainderByZero(_) => "RemainderByZero".into(),
        AssertKind::MisalignedPointerDereference { .. } => "MisalignedPointerDereference".into(),
        AssertKind::NullPointerDereference => "NullPointerDereference".into(),
        other => format!("{:?}", other).split('(').next().unwrap_or("Other").to_string(),
    }
}

fn term_json<'tcx>(tcx: TyCtxt<'tcx>, typing_env: TypingEnv<'tcx>, body: &Body<'tcx>, t: &Terminator<'tcx>) -> J {
    let op = |o: &Operand<'tcx>| operand_json(tcx, typing_env, body, o);
    let pl = |p: &Place<'tcx>| place_json(tcx, body, p);
    let bb = |b: BasicBlock| J::u(b.as_u32() as u128);
    let sp = ("sp", span_json(tcx, t.source_info.span));
    match &t.kind {
        TerminatorKind::Goto { target } => J::obj(vec![("k", J::s("goto")), ("t", bb(*target))]),
        TerminatorKind::SwitchInt { discr, targets } => {
            let mut arms = vec![];
            for (val, tgt) in targets.iter() {
                arms.push(J::arr(vec![J::u(val), bb(tgt)]));
            }
            J::obj(vec![("k", J::s("switch")), ("d", op(discr)), ("arms", J::arr(arms)), ("otherwise", bb(targets.otherwise())), sp])
        }
        TerminatorKind::Return => J::obj(vec![("k", J::s("return")), sp]),
        TerminatorKind::Unreachable => J::obj(vec![("k", J::s("unreachable"))]),
        TerminatorKind::UnwindResume => J::obj(vec![("k", J::s("resume"))]),
        TerminatorKind::UnwindTerminate(_) => J::obj(vec![("k", J::s("terminate"))]),
        TerminatorKind::Drop { place, target, .. } => J::obj(vec![("k", J::s("drop")), ("p", pl(place)), ("t", bb(*target)), sp]),
        TerminatorKind::Call { func, args, destination, target, fn_span, .. } => {
            let f = match func {
                Operand::Constant(c) => match c.const_.ty().kind() {
                    ty::FnDef(def_id, gargs) => callee_json(tcx, typing_env, *def_id, gargs),
                    _ => J::obj(vec![("indirect", op(func))]),
                },
                _ => J::obj(vec![("indirect", op(func)), ("fty", J::s(&ty_str(func.ty(&body.local_decls, tcx))))]),
            };
            let mut v = vec![
                ("k", J::s("call")),
                ("f", f),
                ("args", J::arr(args.iter().map(|a| op(&a.node)).collect())),
                ("dest", pl(destination)),
                ("t", match target {
                    Some(t) => bb(*t),
                    None => J::null(),
                }),
                ("fsp", span_json(tcx, *fn_span)),
            ];
            v.push(sp);
            J::obj(v)
        }
        TerminatorKind::TailCall { func, args, .. } => {
            J::obj(vec![("k", J::s("tailcall")), ("f", op(func)), ("args", J::arr(args.iter().map(|a| op(&a.node)).collect())), sp])
        }
        TerminatorKind::Assert { cond, expected, msg, target, .. } => J::obj(vec![
            ("k", J::s("assert")),
            ("cond", op(cond)),
            ("expected", J::b(*expected)),
            ("msg", J::s(&assert_kind(msg))),
            ("t", bb(*target)),
            sp,
        ]),
        TerminatorKind::Yield { value, resume, resume_arg, drop } => J::obj(vec![
            ("k", J::s("yield")),
            ("v", op(value)),
            ("t", bb(*resume)),
            ("resume_arg", pl(resume_arg)),
            ("drop", match drop {
                Some(d) => bb(*d),
                None => J::null(),
            }),
            sp,
        ]),
        TerminatorKind::CoroutineDrop => J::obj(vec![("k", J::s("coroutine_drop"))]),
        TerminatorKind::FalseEdge { real_target, imaginary_target } => {
            J::obj(vec![("k", J::s("false_edge")), ("t", bb(*real_target)), ("imaginary", bb(*imaginary_target))])
        }
        TerminatorKind::FalseUnwind { real_target, .. } => J::obj(vec![("k", J::s("false_unwind")), ("t", bb(*real_target))]),
        TerminatorKind::InlineAsm { .. } => J::obj(vec![("k", J::s("asm")), sp]),
    }
}

fn body_json<'tcx>(tcx: TyCtxt<'tcx>, def: rustc_hir::def_id::LocalDefId, body: &Body<'tcx>) -> J {
    let def_id = def.to_def_id();
    let typing_env = TypingEnv::post_analysis(tcx, def_id);
    let mut v = vec![("def", J::s(&canon_path(tcx, def_id))), ("kind", J::s(&format!("{:?}", tcx.def_kind(def_id)))), ("sp", span_json(tcx, body.span))];
    // parent chain for closures / coroutines
    let root = tcx.typeck_root_def_id(def_id);
    if root != def_id {
        v.push(("root", J::s(&canon_path(tcx, root))));
        v.push(("parent", J::s(&canon_path(tcx, tcx.parent(def_id)))));
    }
    // impl info of the root fn
    if matches!(tcx.def_kind(root), DefKind::AssocFn) {
        let imp = tcx.parent(root);
        if let DefKind::Impl { of_trait } = tcx.def_kind(imp) {
            let self_ty = tcx.type_of(imp).instantiate_identity().skip_norm_wip();
            v.push(("impl_self", ty_json(tcx, self_ty)));
            if of_trait {
                let tr = tcx.impl_trait_ref(imp).instantiate_identity().skip_norm_wip();
                v.push(("impl_trait", J::s(&canon_path(tcx, tr.def_id))));
                v.push(("impl_trait_args", generic_args_json(tcx, tr.args)));
            }
            v.push(("method", J::s(&tcx.item_name(root).to_string())));
        }
    }
    if matches!(tcx.def_kind(def_id), DefKind::Fn | DefKind::AssocFn) {
        let sig = tcx.fn_sig(def_id).instantiate_identity().skip_norm_wip();
        v.push(("unsafe_fn", J::b(!sig.safety().is_safe())));
        v.push(("asyncness", J::b(tcx.asyncness(def_id).is_async())));
        v.push(("vis", J::s(&format!("{:?}", tcx.visibility(def_id)))));
    }
    v.push(("argc", J::u(body.arg_count as u128)));
    // locals
    let mut names: Vec<Option<String>> = vec![None; body.local_decls.len()];
    for vdi in body.var_debug_info.iter() {
        if let VarDebugInfoContents::Place(p) = &vdi.value {
            if p.projection.is_empty() {
                names[p.local.as_usize()] = Some(vdi.name.to_string());
            }
        }
    }
    let mut locals = vec![];
    for (l, decl) in body.local_decls.iter_enumerated() {
        let mut lv = vec![("ty", ty_json(tcx, decl.ty))];
        if let Some(n) = &names[l.as_usize()] {
            lv.push(("name", J::s(n)));
        }
        if decl.is_user_variable() {
            lv.push(("user", J::b(true)));
        }
        locals.push(J::obj(lv));
    }
    v.push(("locals", J::arr(locals)));
    // upvar debug names (closures): `_1.f` projections
    let mut upvars = vec![];
    for vdi in body.var_debug_info.iter() {
        if let VarDebugInfoContents::Place(p) = &vdi.value {
            if !p.projection.is_empty() {
                upvars.push(J::arr(vec![J::s(&vdi.name.to_string()), place_json(tcx, body, p)]));
            }
        }
    }
    v.push(("upvars", J::arr(upvars)));
    let mut blocks = vec![];
    for (_bb, data) in body.basic_blocks.iter_enumerated() {
        let mut stmts = vec![];
        for st in data.statements.iter() {
            match &st.kind {
                StatementKind::Assign(b) => {
                    let (p, rv) = &**b;
                    stmts.push(J::obj(vec![
                        ("k", J::s("assign")),
                        ("p", place_json(tcx, body, p)),
                        ("rv", rvalue_json(tcx, typing_env, body, rv)),
                        ("sp", span_json(tcx, st.source_info.span)),
                    ]));
                }
                StatementKind::SetDiscriminant { place, variant_index } => {
                    stmts.push(J::obj(vec![("k", J::s("setdiscr")), ("p", place_json(tcx, body, place)), ("v", J::u(variant_index.as_u32() as u128))]));
                }
                StatementKind::StorageDead(l) => {
                    stmts.push(J::obj(vec![("k", J::s("dead")), ("l", J::u(l.as_u32() as u128))]));
                }
                _ => {}
            }
        }
        let term = match &data.terminator {
            Some(t) => term_json(tcx, typing_env, body, t),
            None => J::null(),
        };
        blocks.push(J::obj(vec![("s", J::arr(stmts)), ("t", term), ("cleanup", J::b(data.is_cleanup))]));
    }
    v.push(("blocks", J::arr(blocks)));
    J::obj(v)
}

pub fn dump<'tcx>(tcx: TyCtxt<'tcx>) -> J {
    let mut out = vec![];
    crate::BODIES.with(|b| {
        let map = b.borrow();
        let mut keys: Vec<_> = map.keys().copied().collect();
        keys.sort_by_key(|k| tcx.def_path_hash(k.to_def_id()));
        keys.sort_by_key(|k| canon_path(tcx, k.to_def_id()));
        for k in keys {
            let body: &Body<'static> = &map[&k];
            // SAFETY: see my_mir_built
            let body: &Body<'tcx> = unsafe { std::mem::transmute(body) };
            out.push(body_json(tcx, k, body));
        }
    });
    J::arr(out)
}
