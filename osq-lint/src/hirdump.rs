// Dump of item-level structure: enums (variants, discriminants, attributes), structs (fields),
// statics, consts, impls, unsafe impls.
use rustc_hir::def::DefKind;
use rustc_middle::ty::print::PrintTraitRefExt;
use rustc_middle::ty::{self, TyCtxt};

use crate::json::J;
use crate::mirdump::{canon_path, span_json, ty_str};

fn attrs_json<'tcx>(tcx: TyCtxt<'tcx>, hir_id: rustc_hir::HirId) -> J {
    let mut out = vec![];
    for a in tcx.hir_attrs(hir_id) {
        if let rustc_hir::Attribute::Unparsed(item) = a {
            let path = item.path.segments.iter().map(|s| s.to_string()).collect::<Vec<_>>().join("::");
            let args = match &item.args {
                rustc_hir::AttrArgs::Delimited(d) => rustc_ast_pretty::pprust::tts_to_string(&d.tokens),
                rustc_hir::AttrArgs::Eq { expr, .. } => format!("= {}", expr.symbol),
                rustc_hir::AttrArgs::Empty => String::new(),
            };
            out.push(J::arr(vec![J::s(&path), J::s(&args)]));
        }
    }
    J::arr(out)
}

pub fn dump<'tcx>(tcx: TyCtxt<'tcx>) -> J {
    let mut items = vec![];
    for id in tcx.hir_free_items() {
        let item = tcx.hir_item(id);
        let def_id = item.owner_id.to_def_id();
        let path = canon_path(tcx, def_id);
        let sp = span_json(tcx, item.span);
        match &item.kind {
            rustc_hir::ItemKind::Enum(_, _, def) => {
                let adt = tcx.adt_def(def_id);
                let mut vars = vec![];
                for (i, v) in def.variants.iter().enumerate() {
                    let vd = &adt.variants()[rustc_abi::VariantIdx::from_usize(i)];
                    let discr = adt.discriminant_for_variant(tcx, rustc_abi::VariantIdx::from_usize(i));
                    let fields: Vec<J> = vd
                        .fields
                        .iter()
                        .map(|f| J::arr(vec![J::s(&f.name.to_string()), J::s(&ty_str(tcx.type_of(f.did).instantiate_identity().skip_norm_wip()))]))
                        .collect();
                    vars.push(J::obj(vec![
                        ("name", J::s(&v.ident.to_string())),
                        ("discr", J::u(discr.val)),
                        ("attrs", attrs_json(tcx, v.hir_id)),
                        ("fields", J::arr(fields)),
                    ]));
                }
                items.push(J::obj(vec![
                    ("k", J::s("enum")),
                    ("path", J::s(&path)),
                    ("attrs", attrs_json(tcx, item.hir_id())),
                    ("variants", J::arr(vars)),
                    ("sp", sp),
                ]));
            }
            rustc_hir::ItemKind::Struct(_, _, _) => {
                let adt = tcx.adt_def(def_id);
                let vd = adt.non_enum_variant();
                let fields: Vec<J> = vd
                    .fields
                    .iter()
                    .map(|f| J::arr(vec![J::s(&f.name.to_string()), J::s(&ty_str(tcx.type_of(f.did).instantiate_identity().skip_norm_wip()))]))
                    .collect();
                items.push(J::obj(vec![
                    ("k", J::s("struct")),
                    ("path", J::s(&path)),
                    ("attrs", attrs_json(tcx, item.hir_id())),
                    ("fields", J::arr(fields)),
                    ("sp", sp),
                ]));
            }
            rustc_hir::ItemKind::Static(m, _, _, _) => {
                let ty = tcx.type_of(def_id).instantiate_identity().skip_norm_wip();
                items.push(J::obj(vec![
                    ("k", J::s("static")),
                    ("path", J::s(&path)),
                    ("ty", J::s(&ty_str(ty))),
                    ("mut", J::b(matches!(m, rustc_hir::Mutability::Mut))),
                    ("sp", sp),
                ]));
            }
            rustc_hir::ItemKind::Const(..) => {
                let ty = tcx.type_of(def_id).instantiate_identity().skip_norm_wip();
                let mut v = vec![("k", J::s("const")), ("path", J::s(&path)), ("ty", J::s(&ty_str(ty))), ("sp", sp)];
                if ty.is_integral() {
                    if let Ok(val) = tcx.const_eval_poly(def_id) {
                        if let Some(si) = val.try_to_scalar_int() {
                            v.push(("int", J::u(si.to_bits(si.size()))));
                        }
                    }
                }
                items.push(J::obj(v));
            }
            rustc_hir::ItemKind::Impl(imp) => {
                let self_ty = tcx.type_of(def_id).instantiate_identity().skip_norm_wip();
                let mut v = vec![("k", J::s("impl")), ("path", J::s(&path)), ("self", J::s(&ty_str(self_ty))), ("sp", sp)];
                if let ty::Adt(d, _) = self_ty.kind() {
                    v.push(("self_def", J::s(&canon_path(tcx, d.did()))));
                }
                if let DefKind::Impl { of_trait: true } = tcx.def_kind(def_id) {
                    let tr = tcx.impl_trait_ref(def_id).instantiate_identity().skip_norm_wip();
                    v.push(("trait", J::s(&canon_path(tcx, tr.def_id))));
                    v.push(("trait_s", J::s(&ty::print::with_no_trimmed_paths!(tr.print_only_trait_path().to_string()))));
                    let header = tcx.impl_trait_header(def_id);
                    v.push(("unsafe", J::b(!header.safety.is_safe())));
                    v.push(("from_expansion", J::b(item.span.from_expansion())));
                }
                let methods: Vec<J> = imp.items.iter().map(|r| J::s(&canon_path(tcx, r.owner_id.to_def_id()))).collect();
                v.push(("items", J::arr(methods)));
                items.push(J::obj(v));
            }
            _ => {}
        }
    }
    J::arr(items)
}
