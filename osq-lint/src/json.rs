// minimal JSON writer (no dependencies)
use std::fmt::Write;

pub fn esc(s: &str) -> String {
    let mut o = String::with_capacity(s.len() + 2);
    o.push('"');
    for c in s.chars() {
        match c {
            '"' => o.push_str("\\\""),
            '\\' => o.push_str("\\\\"),
            '\n' => o.push_str("\\n"),
            '\r' => o.push_str("\\r"),
            '\t' => o.push_str("\\t"),
            c if (c as u32) < 0x20 => {
                let _ = write!(o, "\\u{:04x}", c as u32);
            }
            c => o.push(c),
        }
    }
    o.push('"');
    o
}

/// A JSON value under construction, rendered eagerly to text.
#[derive(Clone)]
pub struct J(pub String);

impl J {
    pub fn null() -> J {
        J("null".into())
    }
    pub fn s(s: &str) -> J {
        J(esc(s))
    }
    pub fn b(b: bool) -> J {
        J(if b { "true".into() } else { "false".into() })
    }
    pub fn i(i: i128) -> J {
        J(i.to_string())
    }
    pub fn u(i: u128) -> J {
        J(i.to_string())
    }
    pub fn arr(v: Vec<J>) -> J {
        let mut o = String::from("[");
        for (i, x) in v.iter().enumerate() {
            if i > 0 {
                o.push(',');
            }
            o.push_str(&x.0);
        }
        o.push(']');
        J(o)
    }
    pub fn obj(v: Vec<(&str, J)>) -> J {
        let mut o = String::from("{");
        for (i, (k, x)) in v.iter().enumerate() {
            if i > 0 {
                o.push(',');
            }
            o.push_str(&esc(k));
            o.push(':');
            o.push_str(&x.0);
        }
        o.push('}');
        J(o)
    }
    pub fn opt_s(s: Option<String>) -> J {
        match s {
            Some(s) => J::s(&s),
            None => J::null(),
        }
    }
}
